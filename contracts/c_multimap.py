"""Contracts for src/multimap_resolver.py (C08)."""
from pyvc.api import contract, spec, lemma, record, finite, bounded, enum_from_repo
from pyvc import native

M = "src/multimap_resolver.py:"
IA = "src/isoform_assignment.py:"
CLASS_HOME = {"MultimapResolver": "src/multimap_resolver.py", "BasicReadAssignment": "src/isoform_assignment.py"}
RAT = "enum:ReadAssignmentType"

record("BasicReadAssignment", {
    "assignment_id": "int", "read_id": "str", "chr_id": "str", "start": "int", "end": "int",
    "genomic_region": "tuple[int,int]", "multimapper": "bool", "polyA_found": "bool", "assignment_type": RAT,
    "gene_assignment_type": RAT, "penalty_score": "real", "isoforms": "list[str]", "genes": "list[str]"})
record("MultimapResolver", {"strategy": "any"})
native.RECORD_CLASSES["BasicReadAssignment"] = ("src/isoform_assignment.py", "BasicReadAssignment")
native.RECORD_CLASSES["MultimapResolver"] = ("src/multimap_resolver.py", "MultimapResolver")
BRAS = "list[rec:BasicReadAssignment]"

contract(IA + "BasicReadAssignment.__eq__", {"self": "rec:BasicReadAssignment", "other": "rec:BasicReadAssignment"},
         returns="bool", transparent=True, props=["C08", "C05"],
         ensures=["result == (self.read_id == other.read_id and self.chr_id == other.chr_id and self.start == other.start "
                  "and self.end == other.end and self.isoforms == other.isoforms)"], native=False)


@spec("rec:BasicReadAssignment, rec:BasicReadAssignment -> bool", opaque=True)
def same(a, b):
    # the duplicate relation the resolver uses (BasicReadAssignment.__eq__): an equivalence
    return a.read_id == b.read_id and a.chr_id == b.chr_id and a.start == b.start and a.end == b.end and a.isoforms == b.isoforms


@spec("rec:BasicReadAssignment, rec:BasicReadAssignment -> bool")
def untouched(a, b):
    # everything except the two type fields and the multimapper flag
    return (a.assignment_id == b.assignment_id and a.read_id == b.read_id and a.chr_id == b.chr_id and a.start == b.start
            and a.end == b.end and a.genomic_region == b.genomic_region and a.polyA_found == b.polyA_found
            and a.penalty_score == b.penalty_score and a.isoforms == b.isoforms and a.genes == b.genes)


@spec("enum:ReadAssignmentType -> enum:ReadAssignmentType")
def amb(t):
    return ReadAssignmentType.inconsistent_ambiguous if (t == ReadAssignmentType.inconsistent or t == ReadAssignmentType.inconsistent_ambiguous
                                                         or t == ReadAssignmentType.inconsistent_non_intronic) else ReadAssignmentType.ambiguous


def _bra(rng, read="r"):
    return {"__rec__": "BasicReadAssignment", "assignment_id": rng.randint(1, 50), "read_id": read,
            "chr_id": rng.choice(["chr1", "chr2"]), "start": rng.choice([10, 100]), "end": rng.choice([90, 190]),
            "genomic_region": (rng.choice([1, 50]), rng.choice([200, 300])), "multimapper": rng.random() < .5,
            "polyA_found": rng.random() < .5,
            "assignment_type": ("enum", "ReadAssignmentType", rng.choice(["unique", "unique_minor_difference", "ambiguous", "inconsistent",
                                                                          "inconsistent_non_intronic", "inconsistent_ambiguous",
                                                                          "noninformative", "intergenic"])),
            "gene_assignment_type": ("enum", "ReadAssignmentType", rng.choice(["unique", "ambiguous", "inconsistent", "noninformative"])),
            "penalty_score": rng.choice([0.0, 0.5, 1.5]), "isoforms": rng.choice([[], ["t1"], ["t2"], ["t1", "t2"]]),
            "genes": rng.choice([[], ["g1"], ["g2"]])}


def _gen_fd(rng, n):
    for _ in range(n):
        k = rng.randint(0, 5)
        L = [_bra(rng) for _ in range(k)]
        idx = list(range(k))
        rng.shuffle(idx)
        yield {"assignment_list": L, "assignment_indices": sorted(idx[:rng.randint(0, k)]) if rng.random() < .7 else idx[:rng.randint(0, k)]}


contract(M + "MultimapResolver.find_duplicates", {"assignment_list": BRAS, "assignment_indices": "list[int]"},
         returns="list[int]", props=["C08", "C05"], locals={"selected_assignments": "list[int]", "discarded_duplicates": "set[int]"},
         requires=["all(0 <= assignment_indices[j] < len(assignment_list) for j in range(len(assignment_indices)))",
                   "all(assignment_indices[a] != assignment_indices[b] for a in range(len(assignment_indices)) for b in range(a + 1, len(assignment_indices)))"],
         ensures=[
             # a sub-selection of the given indices ...
             "all(any(result[r] == assignment_indices[j] for j in range(len(assignment_indices))) for r in range(len(result)))",
             # ... that never yields two identical records ...
             "all(a == b or not same(assignment_list[result[a]], assignment_list[result[b]]) for a in range(len(result)) for b in range(len(result)))",
             # ... and drops an index only when an identical record is kept
             "all(any(same(assignment_list[result[r]], assignment_list[assignment_indices[j]]) for r in range(len(result))) "
             "for j in range(len(assignment_indices)))",
             "len(assignment_indices) == 0 or len(result) >= 1",
             "len(result) <= len(assignment_indices)"],
         modifies=[], gen=_gen_fd, bounded_only=True,
         note="nested loop with a discarded-set: the invariant did not close in the time spent; checked natively only (bounded)")


@spec("list[int], int -> bool")
def inl(K, x):
    return any(K[j] == x for j in range(len(K)))


SUSP = "ReadAssignmentType.suspended"


def _gen_filter(rng, n):
    for _ in range(n):
        k = rng.randint(1, 5)
        L = [_bra(rng) for _ in range(k)]
        for r in L:
            if rng.random() < .5:
                r["isoforms"] = ["t1"]; r["start"] = 10; r["end"] = 90; r["chr_id"] = "chr1"
        idx = [i for i in range(k) if rng.random() < .6]
        yield {"assignment_list": L, "assignments_to_keep": idx}


contract(M + "MultimapResolver.filter_assignments", {"assignment_list": BRAS, "assignments_to_keep": "list[int]"},
         returns=BRAS, props=["C08"], modifies=["assignment_list"],
         locals={"all_genes": "set[str]", "all_isoforms": "set[str]"},
         requires=["all(0 <= assignments_to_keep[j] < len(assignment_list) for j in range(len(assignments_to_keep)))",
                   "all(assignments_to_keep[a] != assignments_to_keep[b] for a in range(len(assignments_to_keep)) for b in range(a + 1, len(assignments_to_keep)))",
                   "all(assignment_list[assignments_to_keep[j]].assignment_type != %s for j in range(len(assignments_to_keep)))" % SUSP],
         ensures=[
             "result == assignment_list",
             # frame: only the two type fields and the multimapper flag of list elements may change
             "len(assignment_list) == len(old(assignment_list))",
             "all(unchanged_except(assignment_list[i], old(assignment_list)[i], 'assignment_type', 'gene_assignment_type', 'multimapper') for i in range(len(assignment_list)))",
             # the losers are suppressed in both type fields
             "all(inl(assignments_to_keep, i) or (assignment_list[i].assignment_type == %s and assignment_list[i].gene_assignment_type == %s) "
             "for i in range(len(assignment_list)))" % (SUSP, SUSP),
             # a record that survives keeps its type or becomes the ambiguous variant of it
             "all(assignment_list[i].assignment_type == %s or assignment_list[i].assignment_type == old(assignment_list)[i].assignment_type "
             "or assignment_list[i].assignment_type == amb(old(assignment_list)[i].assignment_type) for i in range(len(assignment_list)))" % SUSP,
             "all(assignment_list[i].assignment_type == %s or assignment_list[i].gene_assignment_type == old(assignment_list)[i].gene_assignment_type "
             "or assignment_list[i].gene_assignment_type == amb(old(assignment_list)[i].assignment_type) for i in range(len(assignment_list)))" % SUSP,
             # at least one record is kept
             "len(assignments_to_keep) == 0 or any(assignment_list[assignments_to_keep[j]].assignment_type != %s for j in range(len(assignments_to_keep)))" % SUSP,
             # no two identical records are kept, and a dropped candidate has a kept identical twin
             "all(assignment_list[a].assignment_type == %s or assignment_list[b].assignment_type == %s or a == b or "
             "not same(old(assignment_list)[a], old(assignment_list)[b]) "
             "for a in range(len(assignment_list)) for b in range(len(assignment_list)))" % (SUSP, SUSP),
             "all(any(assignment_list[i].assignment_type != %s and same(old(assignment_list)[i], old(assignment_list)[assignments_to_keep[j]]) for i in range(len(assignment_list))) "
             "for j in range(len(assignments_to_keep)))" % SUSP,
             # several assigned loci tie (more than one isoform among the kept records): the read is kept on all of them, flagged ambiguous
             "not any(assignment_list[a].assignment_type != %s and assignment_list[b].assignment_type != %s and "
             "any(old(assignment_list)[a].isoforms[p] != old(assignment_list)[b].isoforms[q] for p in range(len(old(assignment_list)[a].isoforms)) for q in range(len(old(assignment_list)[b].isoforms))) "
             "for a in range(len(assignment_list)) for b in range(len(assignment_list))) or "
             "all(assignment_list[i].assignment_type == %s or (assignment_list[i].assignment_type == amb(old(assignment_list)[i].assignment_type) and assignment_list[i].multimapper) "
             "for i in range(len(assignment_list)))" % (SUSP, SUSP, SUSP),
             # exactly one isoform (or none) among the kept records: they keep their transcript-level types
             "any(assignment_list[a].assignment_type != %s and assignment_list[b].assignment_type != %s and "
             "any(old(assignment_list)[a].isoforms[p] != old(assignment_list)[b].isoforms[q] for p in range(len(old(assignment_list)[a].isoforms)) for q in range(len(old(assignment_list)[b].isoforms))) "
             "for a in range(len(assignment_list)) for b in range(len(assignment_list))) or "
             "all(assignment_list[i].assignment_type == %s or assignment_list[i].assignment_type == old(assignment_list)[i].assignment_type "
             "for i in range(len(assignment_list)))" % (SUSP, SUSP, SUSP),
         ],
         loops={0: {"inv": [
                    "all(any(any(assignment_list[assignments_to_keep[j]].isoforms[q] == s for q in range(len(assignment_list[assignments_to_keep[j]].isoforms))) for j in range(_k0)) for s in all_isoforms)",
                    "all(assignment_list[assignments_to_keep[j]].isoforms[q] in all_isoforms for j in range(_k0) for q in range(len(assignment_list[assignments_to_keep[j]].isoforms)))",
                    "all(any(any(assignment_list[assignments_to_keep[j]].genes[q] == s for q in range(len(assignment_list[assignments_to_keep[j]].genes))) for j in range(_k0)) for s in all_genes)",
                    "all(assignment_list[assignments_to_keep[j]].genes[q] in all_genes for j in range(_k0) for q in range(len(assignment_list[assignments_to_keep[j]].genes)))",
                    "len(assignment_list) == len(old(assignment_list))",
                    "all(unchanged_except(assignment_list[i], old(assignment_list)[i]) for i in range(len(assignment_list)))"]},
                1: {"inv": [
                    "len(assignments_to_keep) == 0 or inl(assignments_to_keep, assignments_to_keep[0])",
                    "len(assignment_list) == len(old(assignment_list))",
                    "all(unchanged_except(assignment_list[i], old(assignment_list)[i], 'assignment_type', 'gene_assignment_type', 'multimapper') for i in range(len(assignment_list)))",
                    "all(unchanged_except(assignment_list[i], old(assignment_list)[i]) for i in range(_k1, len(assignment_list)))",
                    "all(inl(assignments_to_keep, i) == (assignment_list[i].assignment_type != %s) for i in range(_k1))" % SUSP,
                    "all(inl(assignments_to_keep, i) or assignment_list[i].gene_assignment_type == %s for i in range(_k1))" % SUSP,
                    "all(assignment_list[i].assignment_type == %s or assignment_list[i].assignment_type == old(assignment_list)[i].assignment_type "
                    "or assignment_list[i].assignment_type == amb(old(assignment_list)[i].assignment_type) for i in range(_k1))" % SUSP,
                    "all(assignment_list[i].assignment_type == %s or assignment_list[i].gene_assignment_type == old(assignment_list)[i].gene_assignment_type "
                    "or assignment_list[i].gene_assignment_type == amb(old(assignment_list)[i].assignment_type) for i in range(_k1))" % SUSP,
                    # kept records: retyped all together or not at all
                    "all(assignment_list[i].assignment_type == %s or (assignment_list[i].assignment_type == "
                    "(amb(old(assignment_list)[i].assignment_type) if change_transcript_assignment_type else old(assignment_list)[i].assignment_type) "
                    "and (not change_transcript_assignment_type or assignment_list[i].multimapper)) for i in range(_k1))" % SUSP,
                    "all(assignment_list[i].assignment_type == %s or (assignment_list[i].gene_assignment_type == "
                    "(amb(old(assignment_list)[i].assignment_type) if change_gene_assignment_type else old(assignment_list)[i].gene_assignment_type) "
                    "and (not change_gene_assignment_type or assignment_list[i].multimapper)) for i in range(_k1))" % SUSP,
                ]}},
         gen=_gen_filter, shards=8, timeout=30000)
