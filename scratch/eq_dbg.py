import sys, json, random
sys.path.insert(0,'/verif')
from pyvc import run, native
run.load_contracts()
from contracts import pipeline_harness as H
seed=int(sys.argv[1])
rng = random.Random(seed)
params = H.make_params(rng.choice(["default_ont", "all", "none"]), rng.choice(["default", "precise"]))
isoforms = H.make_gene(rng)
tid, strand, exons = rng.choice(isoforms)
kind = rng.choice(H.READ_KINDS)
read = H.derive_read(rng, exons, kind, params.delta)
for t in isoforms: print(t)
print("read", read, "delta", params.delta, kind)
def run1(isos, rd):
    gi = H.gene_info_of(isos, params.delta)
    ra, info = H.assign(gi, params, rd)
    for m in ra.isoform_matches:
        print("  ", ra.assignment_type.name, m.assigned_transcript, m.penalty_score, [(e.event_type.name, e.isoform_region, e.read_region) for e in m.match_subclassifications])
run1(isoforms, read)
C = max(e[-1][1] for _, _, e in isoforms) + max(r[1] for r in read) + 1000
mi = lambda ex: [(C - b, C - a) for a, b in reversed(ex)]
flip = {"+": "-", "-": "+"}
print("mirrored", [ (t, mi(e)) for t,s,e in isoforms], mi(read))
run1([(t, flip[s], mi(e)) for t, s, e in isoforms], mi(read))
