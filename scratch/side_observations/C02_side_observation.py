#!/usr/bin/env python3
# Side observation at baseline (independent of the seeded change): a read with two kept
# alignments (e.g. primary + supplementary, or two secondary ones) to two different
# transcripts/genes is marked "ambiguous" by the real MultimapResolver, but each location is
# counted separately with a one-element feature set, for which
# ReadWeightCounter.process_ambiguous(1) returns 1.0 -- so the read contributes 2.0 in total
# (and under unique_only, where ambiguous reads are documented to weigh 0), and the
# __ambiguous line counts it twice.
# Run: cd /tmp/seedf_C02 && /venv/bin/python _seed/side_observation.py   (prints the table; exit 1 = reproduced)
import os, shutil, sys, tempfile
sys.path.insert(0, os.getcwd())
from src.gene_info import GeneInfo, TranscriptModel, TranscriptModelType
from src.isoform_assignment import (ReadAssignment, ReadAssignmentType, IsoformMatch, MatchClassification,
                                    BasicReadAssignment)
from src.multimap_resolver import MultimapResolver, MultimapResolvingStrategy
from src.long_read_counter import create_transcript_counter, create_gene_counter


def mk(gene_info, chr_id, read_id, t, g, exons):
    ra = ReadAssignment(read_id, ReadAssignmentType.unique,
                        IsoformMatch(MatchClassification.full_splice_match, g, t, transcript_strand="+"))
    ra.exons = ra.corrected_exons = exons
    ra.corrected_introns = [(exons[i][1] + 1, exons[i + 1][0] - 1) for i in range(len(exons) - 1)]
    ra.chr_id = chr_id
    ra.gene_info = gene_info
    ra.genomic_region = (1, 5000)
    return ra


gi1 = GeneInfo.from_models([TranscriptModel("chr1", "+", "TA", "GA", [(100, 200), (300, 400), (500, 600)],
                                            TranscriptModelType.known)])
gi2 = GeneInfo.from_models([TranscriptModel("chr2", "+", "TB", "GB", [(100, 200), (300, 400), (500, 600)],
                                            TranscriptModelType.known)])
ex = [(100, 200), (300, 400), (500, 600)]
# one ordinary unique read per transcript (confirms it) ...
u1, u2 = mk(gi1, "chr1", "u1", "TA", "GA", ex), mk(gi2, "chr2", "u2", "TB", "GB", ex)
# ... and read "m" aligned to both paralogs (neither alignment is flagged secondary)
m1, m2 = mk(gi1, "chr1", "m", "TA", "GA", ex), mk(gi2, "chr2", "m", "TB", "GB", ex)

resolved = MultimapResolver(MultimapResolvingStrategy.take_best).resolve([BasicReadAssignment(m1), BasicReadAssignment(m2)])
for full, res in zip((m1, m2), resolved):
    # what ReadAssignmentLoader.get_next does with the resolved record
    full.assignment_type = res.assignment_type
    full.gene_assignment_type = res.gene_assignment_type
    full.multimapper = res.multimapper
print("resolved types for read m:", [(r.assignment_type.name, r.gene_assignment_type.name) for r in resolved])

tmp = tempfile.mkdtemp()
bad = False
try:
    for strategy in ("unique_only", "with_ambiguous"):
        tc = create_transcript_counter(os.path.join(tmp, "t_" + strategy), strategy, ["TA", "TB"])
        gc = create_gene_counter(os.path.join(tmp, "g_" + strategy), strategy, ["GA", "GB"])
        for c in (tc, gc):
            for ra in (u1, m1, u2, m2):
                c.add_read_info(ra)
            c.dump()
            table = {l.split()[0]: float(l.split()[1]) for l in open(c.output_counts_file_name) if not l.startswith("#")}
            stats = dict(l.split() for l in open(c.output_stats_file_name))
            total = sum(table.values())
            print(strategy, table, "__ambiguous", stats["__ambiguous"])
            # three reads exist (u1, u2, m); m may weigh at most 1 (0 under unique_only)
            limit = 2.0 + (1.0 if strategy == "with_ambiguous" else 0.0)
            if total > limit + 1e-9 or int(stats["__ambiguous"]) != 1:
                bad = True
finally:
    shutil.rmtree(tmp, ignore_errors=True)
print("REPRODUCED: read m contributes 2.0 in total and is counted twice in __ambiguous" if bad else "not reproduced")
sys.exit(1 if bad else 0)
