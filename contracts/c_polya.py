"""C11 (mirrored twins of src/polya_verification.py): the polyA-side and polyT-side procedures get the SAME contract read through the
reflection p -> C - p (last exon <-> first exon, exon start <-> exon end, intron j <-> intron n-2-j, *_right <-> *_left).  Both contracts
share one spec function for the decision, so a change to one side only (or to both sides in a way the property does not allow) fails a
named postcondition."""
import ast
import copy

from pyvc.api import contract, spec, lemma, record, enum_from_repo
from pyvc import native, front

PV = "src/polya_verification.py:"
CLASS_HOME = {"PolyAVerifier": "src/polya_verification.py"}
IVS = "list[tuple[int,int]]"
enum_from_repo("src/isoform_assignment.py", "MatchEventSubtype")
EV = "tuple[enum:MatchEventSubtype,tuple[int,int]]"

record("PolyAVerParams", {"max_fake_terminal_exon_len": "int", "max_missed_exon_len": "int", "delta": "int", "apa_delta": "int"})
record("PolyAVerifier", {"params": "rec:PolyAVerParams"})
native.RECORD_CLASSES["PolyAVerifier"] = ("src/polya_verification.py", "PolyAVerifier")
native.RECORD_CLASSES["PolyAVerParams"] = ("builtin", "namespace")


class _EventToPair(ast.NodeTransformer):
    def visit_Call(self, node):
        self.generic_visit(node)
        if isinstance(node.func, ast.Name) and node.func.id == "MatchEvent" and len(node.args) == 2 and not node.keywords:
            return ast.Tuple(elts=list(node.args), ctx=ast.Load())
        return node


def _events_as_pairs(fdef):
    """the whole function with every `MatchEvent(type, isoform_region)` constructor call replaced by the pair `(type, isoform_region)`
    (the two remaining fields of MatchEvent keep their defaults in these calls); nothing else is dropped"""
    return ast.fix_missing_locations(_EventToPair().visit(copy.deepcopy(fdef)))


@spec("int, int, int, int, int, int -> bool")
def missed_terminal_exons_ok(term_len, d_ext, d_int, max_fake, max_missed, delta):
    # the isoform's unaligned terminal exons are short and the CLOSER of the two tail positions is near them (fake-length rule), or
    # they are short enough to be missed and the closer tail position is exactly their total length away (up to delta)
    return (term_len <= max_fake and min(d_ext, d_int) <= max_fake) or \
        (term_len <= max_missed and -delta <= term_len - min(d_ext, d_int) <= delta)


lemma("slen_of_prefix", {"L": IVS, "m": "int", "j": "int"}, props=["C11"],
      requires=["0 <= j <= m <= len(L)"], ensures=["slen(L[:m], j) == slen(L, j)"], induct="j", base="0")

lemma("slen_of_suffix", {"L": IVS, "a": "int", "j": "int"}, props=["C11"],
      requires=["0 <= a", "0 <= j", "a + j <= len(L)"], ensures=["slen(L[a:], j) == slen(L, a + j) - slen(L, a)"], induct="j", base="0")


_PAIR_EVENT = [None]


def _real_events(am):
    m = native.repo_import("src/isoform_assignment.py")
    if _PAIR_EVENT[0] is None:
        # a real MatchEvent that can also be read as the pair (event_type, isoform_region) the contracts speak about
        class PairEvent(m.MatchEvent):
            def __getitem__(self, k):
                return (self.event_type, self.isoform_region)[k]
        _PAIR_EVENT[0] = PairEvent
    am["matching_events"] = [_PAIR_EVENT[0](t, r) for t, r in am["matching_events"]]
    return am


def _gen_twins(side):
    def gen(rng, n):
        for _ in range(n):
            k = rng.randint(1, 5)
            ex, p = [], rng.randint(0, 50)
            for _i in range(k):
                a = p + rng.randint(1, 120)
                b = a + rng.randint(0, 90)
                ex.append((a, b))
                p = b
            pts = [-1] + [e[j] + d for e in ex for j in (0, 1) for d in (-1, 0, 1)] + [rng.randint(0, p + 50)]
            yield {"self": {"__rec__": "PolyAVerifier", "params": {"__rec__": "PolyAVerParams", "max_fake_terminal_exon_len": rng.choice([0, 20, 100]),
                                                                   "max_missed_exon_len": rng.choice([0, 40, 200]), "delta": rng.choice([0, 6]),
                                                                   "apa_delta": 50}},
                   "isoform_exons": ex, "external_poly%s_pos" % side: rng.choice(pts), "internal_poly%s_pos" % side: rng.choice(pts),
                   "matching_events": []}
    return gen


_PAIRS = "[(e.event_type, e.isoform_region) for e in %s]"

# ---- polyT side: leading isoform exons that lie before the tail position -------------------------------------------------------------------
_Lt, _xt, _it = "isoform_exons", "external_polyt_pos", "internal_polyt_pos"
_pt = "(%s if %s != -1 else %s)" % (_it, _it, _xt)
_shift_t = "len(result[0]) > len(old(matching_events))"
_ens_t = lambda res0, old: [
    # no change unless events are appended; appended events are the left misalignments of introns 0 .. c-1, in that order
    "(%s) or (%s == %s and result[1] == %s and result[2] == %s)" % (_shift_t.replace("result[0]", res0).replace("old(matching_events)", old), res0, old, _xt, _it),
    "%s[:len(%s)] == %s" % (res0, old, old),
    "all(%s[len(%s) + j] == (MatchEventSubtype.terminal_exon_misalignment_left, (j, j)) for j in range(len(%s) - len(%s)))" % (res0, old, res0, old),
    "not (%s) or (result[1] == isoform_exons[0][0] and result[2] == isoform_exons[0][0] and len(%s) - len(%s) < len(isoform_exons))"
    % (_shift_t.replace("result[0]", res0).replace("old(matching_events)", old), res0, old),
    # c is the number of leading exons that end at or before the tail position (the exons the read did not reach)
    "not (%s) or (isoform_exons[len(%s) - len(%s) - 1][1] <= %s < isoform_exons[len(%s) - len(%s)][1])"
    % (_shift_t.replace("result[0]", res0).replace("old(matching_events)", old), res0, old, _pt, res0, old),
    # the decision, for the unique boundary k: shared with the polyA side
    "all(not (isoform_exons[k - 1][1] <= %s < isoform_exons[k][1]) or ((%s) == missed_terminal_exons_ok(slen(isoform_exons, k), "
    "abs(isoform_exons[k][0] - %s), abs(isoform_exons[k][0] - %s), self.params.max_fake_terminal_exon_len, "
    "self.params.max_missed_exon_len, self.params.delta)) for k in range(1, len(isoform_exons)))"
    % (_pt, _shift_t.replace("result[0]", res0).replace("old(matching_events)", old), _xt, _it),
    "not (isoform_exons[0][1] > %s or isoform_exons[len(isoform_exons) - 1][1] <= %s) or not (%s)"
    % (_pt, _pt, _shift_t.replace("result[0]", res0).replace("old(matching_events)", old)),
]
contract(PV + "PolyAVerifier.detect_reference_exons_before_polyt",
         {"self": "rec:PolyAVerifier", "isoform_exons": IVS, _xt: "int", _it: "int", "matching_events": "list[%s]" % EV},
         returns="tuple[list[%s],int,int]" % EV, props=["C11"], extract=_events_as_pairs,
         requires=["len(isoform_exons) >= 1", "WF(isoform_exons)", "self.params.delta >= 0"], modifies=["matching_events"],
         ensures=_ens_t("result[0]", "old(matching_events)"),
         native_ensures=_ens_t(_PAIRS % "result[0]", "old(%s)" % (_PAIRS % "matching_events")),
         native_args=_real_events, gen=_gen_twins("t"), timeout=40000,
         loops={0: {"inv": ["0 <= terminal_exon_count <= len(isoform_exons)",
                            "all(isoform_exons[j][1] <= polyt_pos for j in range(terminal_exon_count))"]},
                1: {"inv": ["len(matching_events) == len(old(matching_events)) + _k1", "matching_events[:len(old(matching_events))] == old(matching_events)",
                            "all(matching_events[len(old(matching_events)) + j] == (MatchEventSubtype.terminal_exon_misalignment_left, (j, j)) for j in range(_k1))"]}},
         hints={"after:isoform_terminal_exon_length": ["slen_of_prefix(isoform_exons, terminal_exon_count, terminal_exon_count)"]},
         canary="result[1] == external_polyt_pos")

# ---- polyA side: the mirror image -------------------------------------------------------------------------------------------------------------
_xa, _ia = "external_polya_pos", "internal_polya_pos"
_pa = "(%s if %s != -1 else %s)" % (_ia, _ia, _xa)
_N = "len(isoform_exons)"
_ens_a = lambda res0, old: [
    "(%s) or (%s == %s and result[1] == %s and result[2] == %s)" % (_shift_t.replace("result[0]", res0).replace("old(matching_events)", old), res0, old, _xa, _ia),
    "%s[:len(%s)] == %s" % (res0, old, old),
    "all(%s[len(%s) + j] == (MatchEventSubtype.terminal_exon_misalignment_right, (%s - 2 - j, %s - 2 - j)) for j in range(len(%s) - len(%s)))"
    % (res0, old, _N, _N, res0, old),
    "not (%s) or (result[1] == isoform_exons[%s - 1][1] and result[2] == isoform_exons[%s - 1][1] and len(%s) - len(%s) < %s)"
    % (_shift_t.replace("result[0]", res0).replace("old(matching_events)", old), _N, _N, res0, old, _N),
    "not (%s) or (isoform_exons[%s - (len(%s) - len(%s)) - 1][0] < %s <= isoform_exons[%s - (len(%s) - len(%s))][0])"
    % (_shift_t.replace("result[0]", res0).replace("old(matching_events)", old), _N, res0, old, _pa, _N, res0, old),
    "all(not (isoform_exons[%s - k - 1][0] < %s <= isoform_exons[%s - k][0]) or ((%s) == missed_terminal_exons_ok(slen(isoform_exons, %s) - slen(isoform_exons, %s - k), "
    "abs(isoform_exons[%s - k - 1][1] - %s), abs(isoform_exons[%s - k - 1][1] - %s), self.params.max_fake_terminal_exon_len, "
    "self.params.max_missed_exon_len, self.params.delta)) for k in range(1, %s))"
    % (_N, _pa, _N, _shift_t.replace("result[0]", res0).replace("old(matching_events)", old), _N, _N, _N, _xa, _N, _ia, _N),
    "not (isoform_exons[%s - 1][0] < %s or isoform_exons[0][0] >= %s) or not (%s)"
    % (_N, _pa, _pa, _shift_t.replace("result[0]", res0).replace("old(matching_events)", old)),
]
contract(PV + "PolyAVerifier.detect_reference_exons_beyond_polya",
         {"self": "rec:PolyAVerifier", "isoform_exons": IVS, _xa: "int", _ia: "int", "matching_events": "list[%s]" % EV},
         returns="tuple[list[%s],int,int]" % EV, props=["C11"], extract=_events_as_pairs,
         requires=["len(isoform_exons) >= 1", "WF(isoform_exons)", "self.params.delta >= 0"], modifies=["matching_events"],
         ensures=_ens_a("result[0]", "old(matching_events)"),
         native_ensures=_ens_a(_PAIRS % "result[0]", "old(%s)" % (_PAIRS % "matching_events")),
         native_args=_real_events, gen=_gen_twins("a"), timeout=40000,
         loops={0: {"inv": ["0 <= terminal_exon_count <= len(isoform_exons)",
                            "all(isoform_exons[len(isoform_exons) - 1 - j][0] >= polya_pos for j in range(terminal_exon_count))"]},
                1: {"inv": ["len(matching_events) == len(old(matching_events)) + _k1", "matching_events[:len(old(matching_events))] == old(matching_events)",
                            "all(matching_events[len(old(matching_events)) + j] == (MatchEventSubtype.terminal_exon_misalignment_right, "
                            "(len(isoform_exons) - 2 - j, len(isoform_exons) - 2 - j)) for j in range(_k1))"]}},
         hints={"after:isoform_terminal_exon_length": ["slen_of_suffix(isoform_exons, len(isoform_exons) - terminal_exon_count, terminal_exon_count)"]},
         canary="result[1] == external_polya_pos")


# ---- shift_polya / shift_polyt: the tail position recomputed when the read's terminal exons are fake ------------------------------------------
@spec("list[tuple[int,int]], int, int -> int")
def pa_dist(L, i, p):
    # walking over the last i exons from the outside in: exons lying entirely beyond the polyA position add nothing, the first one reached
    # adds the part up to the position, every further one its whole length
    return 0 if i <= 0 else (pa_dist(L, i - 1, p) if L[len(L) - i][0] > p else
                             (p - L[len(L) - i][0] if pa_dist(L, i - 1, p) == 0 else pa_dist(L, i - 1, p) + (L[len(L) - i][1] - L[len(L) - i][0] + 1)))


@spec("list[tuple[int,int]], int, int -> int")
def pt_dist(L, i, p):
    # the mirror image: the first i exons, exon ends instead of exon starts
    return 0 if i <= 0 else (pt_dist(L, i - 1, p) if L[i - 1][1] < p else
                             (L[i - 1][1] - p if pt_dist(L, i - 1, p) == 0 else pt_dist(L, i - 1, p) + (L[i - 1][1] - L[i - 1][0] + 1)))


# the reflection statement itself: for M the mirror image of L about c, the polyT-side distance of M equals the polyA-side distance of L
lemma("shift_dist_mirror", {"L": IVS, "M": IVS, "c": "int", "i": "int", "p": "int"}, props=["C11"],
      requires=["len(M) == len(L)", "0 <= i <= len(L)",
                "all(M[j][0] == c - L[len(L) - 1 - j][1] and M[j][1] == c - L[len(L) - 1 - j][0] for j in range(len(L)))"],
      ensures=["pt_dist(M, i, c - p) == pa_dist(L, i, p)"], induct="i", base="0")


def _gen_shift(rng, n):
    for _ in range(n):
        k = rng.randint(1, 5)
        ex, p = [], rng.randint(0, 20)
        for _i in range(k):
            a = p + rng.randint(1, 30)
            b = a + rng.randint(0, 30)
            ex.append((a, b))
            p = b
        pts = [-1] + [e[j] + d for e in ex for j in (0, 1) for d in (-1, 0, 1)]
        yield {"read_exons": ex, "exon_count": rng.randint(0, k), "polya_pos": rng.choice(pts), "polyt_pos": rng.choice(pts)}


contract(PV + "shift_polya", {"read_exons": IVS, "exon_count": "int", "polya_pos": "int"}, returns="int", props=["C11", "C16"],
         requires=["len(read_exons) >= 1", "0 <= exon_count <= len(read_exons)"],
         ensures=["result == (polya_pos if exon_count == 0 or exon_count == len(read_exons) or polya_pos == -1 else "
                  "read_exons[len(read_exons) - exon_count - 1][1] + pa_dist(read_exons, exon_count, polya_pos))"],
         loops={0: {"inv": ["dist_to_polya == pa_dist(read_exons, _k0, polya_pos)"]}},
         gen=lambda rng, n: ({k: v for k, v in d.items() if k != "polyt_pos"} for d in _gen_shift(rng, n)),
         canary="result == polya_pos")

contract(PV + "shift_polyt", {"read_exons": IVS, "exon_count": "int", "polyt_pos": "int"}, returns="int", props=["C11", "C16"],
         requires=["len(read_exons) >= 1", "0 <= exon_count <= len(read_exons)"],
         ensures=["result == (polyt_pos if exon_count == 0 or exon_count == len(read_exons) or polyt_pos == -1 else "
                  "read_exons[exon_count][0] - pt_dist(read_exons, exon_count, polyt_pos))"],
         loops={0: {"inv": ["dist_to_polya == pt_dist(read_exons, _k0, polyt_pos)"]}},
         gen=lambda rng, n: ({k: v for k, v in d.items() if k != "polya_pos"} for d in _gen_shift(rng, n)),
         canary="result == polyt_pos")


# ---- verify_polya / verify_polyt: which events the tail check may remove -------------------------------------------------------------------
def _undef_region():
    ia = native.repo_import("src/isoform_assignment.py")
    return tuple(ia.SupplementaryMatchConstants.undefined_region)


class _EventsAsPairsFull(ast.NodeTransformer):
    """MatchEvent(t, region) -> (t, region); MatchEvent(t, event_info=x) / MatchEvent(t) -> (t, <undefined_region>) (the constructor's default
    for isoform_region, read from SupplementaryMatchConstants at extraction time); e.event_type -> e[0]; e.isoform_region -> e[1]"""

    def visit_Call(self, node):
        self.generic_visit(node)
        if isinstance(node.func, ast.Name) and node.func.id == "MatchEvent":
            kws = {k.arg: k.value for k in node.keywords}
            if len(node.args) == 2 and not kws:
                return ast.Tuple(elts=list(node.args), ctx=ast.Load())
            if len(node.args) == 1 and set(kws) <= {"event_info", "isoform_region"}:
                reg = kws.get("isoform_region")
                if reg is None:
                    u = _undef_region()
                    reg = ast.Tuple(elts=[ast.Constant(value=u[0]), ast.Constant(value=u[1])], ctx=ast.Load())
                return ast.Tuple(elts=[node.args[0], reg], ctx=ast.Load())
        return node

    def visit_Attribute(self, node):
        self.generic_visit(node)
        if node.attr == "event_type" and isinstance(node.value, ast.Name) and node.value.id == "event":
            return ast.Subscript(value=node.value, slice=ast.Constant(value=0), ctx=node.ctx)
        if node.attr == "isoform_region" and isinstance(node.value, ast.Name) and node.value.id == "event":
            return ast.Subscript(value=node.value, slice=ast.Constant(value=1), ctx=node.ctx)
        return node


def _events_as_pairs_full(fdef):
    """the whole function with MatchEvent objects read as (event_type, isoform_region) pairs (read_region and event_info, which these
    functions only ever set, are dropped); nothing else is changed"""
    return ast.fix_missing_locations(_EventsAsPairsFull().visit(copy.deepcopy(fdef)))


EVS = "list[%s]" % EV
record("PolyAInfoV", {"external_polya_pos": "int", "external_polyt_pos": "int", "internal_polya_pos": "int", "internal_polyt_pos": "int"})

contract(PV + "PolyAVerifier.check_if_close",
         {"self": "rec:PolyAVerifier", "isoform_end": "int", "external_polya_pos": "int", "internal_polya_pos": "int", "matching_events": EVS,
          "event_type": "enum:MatchEventSubtype"},
         returns="opt[%s]" % EVS, props=["C11", "C01"], extract=_events_as_pairs_full, native=False, modifies=["matching_events"],
         # coordinates and tolerances are genomic quantities (far below 2**40); math.inf stands for "no such tail"
         requires=["0 <= self.params.apa_delta < 2 ** 40", "0 <= isoform_end < 2 ** 40", "-1 <= external_polya_pos < 2 ** 40", "-1 <= internal_polya_pos < 2 ** 40"],
         ensures=["result is not None or matching_events == old(matching_events)",
                  "result is None or (result == matching_events and len(matching_events) == len(old(matching_events)) + 1 and "
                  "matching_events[:len(old(matching_events))] == old(matching_events) and matching_events[len(matching_events) - 1][0] == event_type)",
                  # close = some tail position within apa_delta of the isoform end; depends on distances only (mirror and shift invariant)
                  "(result is not None) == ((internal_polya_pos != -1 and abs(isoform_end - internal_polya_pos) <= self.params.apa_delta) or "
                  "(external_polya_pos != -1 and abs(isoform_end - external_polya_pos) <= self.params.apa_delta))"])

# the same function, read only for what it does to the event list (holds whatever the distance comparisons decide, so no bound on the
# coordinates is needed for the math.inf model)
contract(PV + "PolyAVerifier.check_if_close#frame",
         {"self": "rec:PolyAVerifier", "isoform_end": "int", "external_polya_pos": "int", "internal_polya_pos": "int", "matching_events": EVS,
          "event_type": "enum:MatchEventSubtype"},
         returns="opt[%s]" % EVS, props=["C11", "C01"], extract=_events_as_pairs_full, native=False, modifies=["matching_events"],
         ensures=["result is not None or matching_events == old(matching_events)",
                  "result is None or (result == matching_events and len(matching_events) == len(old(matching_events)) + 1 and "
                  "matching_events[:len(old(matching_events))] == old(matching_events) and matching_events[len(matching_events) - 1][0] == event_type)"])


@spec("list[tuple[enum:MatchEventSubtype,tuple[int,int]]], int, enum:MatchEventSubtype -> int")
def nev(E, n, t):
    # number of events of type t among the first n
    return 0 if n <= 0 else nev(E, n - 1, t) + (1 if E[n - 1][0] == t else 0)


lemma("nev_bounds", {"E": EVS, "n": "int", "t": "enum:MatchEventSubtype"}, props=["C01", "C11"],
      requires=["0 <= n <= len(E)"], ensures=["0 <= nev(E, n, t) <= n"], induct="n", base="0")


native.RECORD_CLASSES["PolyAInfoV"] = ("builtin", "namespace")


def _gen_verify(side, tail):
    def gen(rng, n):
        names = ["major_exon_elongation_left", "major_exon_elongation_right", "exon_elongation_left", "exon_elongation_right",
                 "fake_terminal_exon_left", "fake_terminal_exon_right", "terminal_exon_misalignment_left", "terminal_exon_misalignment_right",
                 "intron_retention", "exon_skipping_known", "terminal_site_match_left", "terminal_site_match_right", "fsm", "ism_left", "ism_right"]
        for _ in range(n):
            k = rng.randint(1, 4)
            ex, p = [], rng.randint(10, 50)
            for _i in range(k):
                a = p + rng.randint(5, 120)
                b = a + rng.randint(3, 90)
                ex.append((a, b))
                p = b
            rd = [(a + rng.randint(-3, 3), b) for a, b in ex[rng.randint(0, k - 1):]] if rng.random() < .5 else list(ex)
            rd = [(a, max(a, b)) for a, b in rd]
            end = ex[-1][1] if side == "right" else ex[0][0]
            pos = lambda: rng.choice([-1, end, end + rng.randint(-60, 60), rng.randint(1, p + 60)])
            e_pos, i_pos = pos(), pos()
            if e_pos == -1 and i_pos == -1:
                e_pos = end
            info = {"__rec__": "PolyAInfoV", "external_polya_pos": -1, "external_polyt_pos": -1, "internal_polya_pos": -1, "internal_polyt_pos": -1}
            info["external_poly%s_pos" % tail], info["internal_poly%s_pos" % tail] = e_pos, i_pos
            evs = [(("enum", "MatchEventSubtype", rng.choice(names)), (rng.randint(0, 3),) * 2) for _e in range(rng.randint(0, 4))]
            # never as many fake terminal exons as read exons (the assigner's own invariant)
            while sum(1 for t, _r in evs if t[2] == "fake_terminal_exon_" + side) >= len(rd):
                evs = [e for e in evs if e[0][2] != "fake_terminal_exon_" + side]
            yield {"self": {"__rec__": "PolyAVerifier", "params": {"__rec__": "PolyAVerParams", "max_fake_terminal_exon_len": rng.choice([0, 20, 100]),
                                                                   "max_missed_exon_len": rng.choice([0, 40, 200]), "delta": rng.choice([0, 6]),
                                                                   "apa_delta": rng.choice([0, 50])}},
                   "isoform_exons": ex, "read_exons": rd, "polya_info": info, "matching_events": evs}
    return gen


def _verify_contract(side, tail, other):
    """side: 'right' for verify_polya (3' end of a '+' isoform), 'left' for verify_polyt; the two contracts are mirror images"""
    MS = "MatchEventSubtype."
    ER = "(%(o)s[j][0] == " + MS + "major_exon_elongation_%s or %%(o)s[j][0] == " % side + MS + "exon_elongation_%s)" % side
    ER = ER % {"o": "old(matching_events)"}
    ext, inn = "polya_info.external_poly%s_pos" % tail, "polya_info.internal_poly%s_pos" % tail
    ENS = [
        # the tail check replaces only the elongation event of its OWN side: every other event the assigner found - in particular an
        # elongation or any inconsistency at the opposite end - is still reported, in the same order
        "all(%s or result[j] == old(matching_events)[j] or (j >= 1 and result[j - 1] == old(matching_events)[j]) "
        "for j in range(len(old(matching_events))))" % ER,
        "len(result) >= len(old(matching_events))",
        # and it always says what it concluded about the tail
        "result[len(result) - 1][0] == %scorrect_polya_site_%s or result[len(result) - 1][0] == %salternative_polya_site_%s"
        % (MS, side, MS, side)]
    NATIVE_ENS = [e.replace("old(matching_events)", "old(%s)" % (_PAIRS % "matching_events")).replace("result", "(%s)" % (_PAIRS % "result"))
                  for e in ENS]
    contract(PV + "PolyAVerifier.verify_poly" + tail,
             {"self": "rec:PolyAVerifier", "isoform_exons": IVS, "read_exons": IVS, "polya_info": "rec:PolyAInfoV", "matching_events": EVS},
             returns=EVS, props=["C01", "C11"], extract=_events_as_pairs_full, modifies=["matching_events"],
             bind={"call:check_if_close": PV + "PolyAVerifier.check_if_close#frame"},
             native_args=_real_events, gen=_gen_verify(side, tail), native_ensures=NATIVE_ENS,
             requires=["len(isoform_exons) >= 1", "WF(isoform_exons)", "len(read_exons) >= 1", "self.params.delta >= 0",
                       "%s != -1 or %s != -1" % (ext, inn),
                       # the assigner reports at most one fake terminal exon per read exon it removes, never all of them
                       "nev(matching_events, len(matching_events), %sfake_terminal_exon_%s) < len(read_exons)" % (MS, side)],
             ensures=ENS,
             loops={0: {"inv": ["event_to_remove == -1 or (0 <= event_to_remove < _k0 and "
                                "(matching_events[event_to_remove][0] == %smajor_exon_elongation_%s or matching_events[event_to_remove][0] == %sexon_elongation_%s))"
                                % (MS, side, MS, side),
                                "fake_terminal_exon_count == nev(matching_events, _k0, %sfake_terminal_exon_%s)" % (MS, side),
                                "terminal_exon_misaligned >= 0"],
                        "exit_hints": ["nev_bounds(matching_events, len(matching_events), %sfake_terminal_exon_%s)" % (MS, side)]}},
             timeout=40000)


_verify_contract("right", "a", "t")
_verify_contract("left", "t", "a")
