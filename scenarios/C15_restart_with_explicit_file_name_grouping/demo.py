#!/usr/bin/env python
# Side observation at baseline (C15, last sentence): as demo.py, but BOTH runs are given the same explicit
# option "--read_group file_name".  The saving run (two BAM files in the experiment) requires novel models to be
# supported by both technical replicas; the restarted run has a single "file" (the save prefix), switches the
# replica check off and does not take the saved flag because --read_group was given explicitly.
import glob
import gzip
import os
import shutil
import subprocess
import sys
import tempfile

import pysam

ROOT = os.path.dirname(os.path.dirname(os.path.abspath(__file__)))
DATA = os.path.join(ROOT, "tests", "simple_data")
SRC_BAM = os.path.join(DATA, "chr9.4M.ont.sim.polya.bam")
REF = os.path.join(DATA, "chr9.4M.fa.gz")
GTF = os.path.join(DATA, "chr9.4M.gtf.gz")


def split_bam(tmp):
    """left half of the chromosome -> rep1.bam, right half -> rep2.bam"""
    with pysam.AlignmentFile(SRC_BAM, "rb") as inb:
        reads = [r for r in inb if not r.is_unmapped]
        starts = sorted(r.reference_start for r in reads)
        middle = starts[len(starts) // 2]
        paths = [os.path.join(tmp, "rep1.bam"), os.path.join(tmp, "rep2.bam")]
        outs = [pysam.AlignmentFile(p, "wb", template=inb) for p in paths]
        n = [0, 0]
        for r in reads:
            i = 0 if r.reference_start < middle else 1
            outs[i].write(r)
            n[i] += 1
        for o in outs:
            o.close()
    for p in paths:
        pysam.index(p)
    return paths, n


def run_isoquant(tmp, home, extra, out):
    cmd = [sys.executable, os.path.join(ROOT, "isoquant.py"), "--reference", REF, "--genedb", GTF,
           "--complete_genedb", "-d", "nanopore", "-t", "1", "-o", out] + extra
    env = dict(os.environ, HOME=home)
    res = subprocess.run(cmd, cwd=tmp, env=env, stdout=subprocess.PIPE, stderr=subprocess.STDOUT, text=True)
    if res.returncode != 0:
        print(res.stdout[-3000:])
        raise RuntimeError("isoquant.py failed: " + " ".join(cmd))


def sample_dir(out):
    dirs = [d for d in glob.glob(os.path.join(out, "*")) if os.path.isdir(os.path.join(d, "aux"))]
    assert len(dirs) == 1, dirs
    return dirs[0]


def outputs(sdir):
    """suffix -> sorted data lines (header/comment lines carry the command line and are left out)"""
    prefix = os.path.basename(sdir)
    res = {}
    for f in sorted(glob.glob(os.path.join(sdir, prefix + ".*"))):
        if os.path.isdir(f):
            continue
        suffix = os.path.basename(f)[len(prefix):]
        opener = gzip.open if f.endswith(".gz") else open
        with opener(f, "rt") as inf:
            res[suffix] = sorted(l.rstrip("\n") for l in inf if not l.startswith("#"))
    return res


def novel_ids(lines):
    ids = set()
    for l in lines:
        f = l.split("\t")
        if len(f) > 8 and f[2] == "transcript" and 'transcript_id "' in f[8]:
            tid = f[8].split('transcript_id "')[1].split('"')[0]
            if ".nic" in tid or ".nnic" in tid:
                ids.add(tid)
    return ids


def main():
    tmp = tempfile.mkdtemp(prefix="c15_side_")
    try:
        home = os.path.join(tmp, "home")
        os.makedirs(home)
        # work on copies: the pipeline writes index files next to the reference
        global REF, GTF
        REF = shutil.copy(REF, tmp)
        GTF = shutil.copy(GTF, tmp)
        bams, n = split_bam(tmp)
        print("replica files: %d + %d alignments" % (n[0], n[1]))
        assert min(n) > 0

        out1 = os.path.join(tmp, "saving_run")
        run_isoquant(tmp, home, ["--bam"] + bams + ["--keep_tmp", "--read_group", "file_name"], out1)
        sdir1 = sample_dir(out1)
        saves = os.path.join(sdir1, "aux", os.path.basename(sdir1) + ".save")
        assert os.path.exists(saves + "_info"), "no saved assignments"

        out2 = os.path.join(tmp, "restarted_run")
        run_isoquant(tmp, home, ["--read_assignments", saves, "--read_group", "file_name"], out2)
        sdir2 = sample_dir(out2)

        o1, o2 = outputs(sdir1), outputs(sdir2)
        problems = []
        if set(o1) != set(o2):
            problems.append("output files differ: only in saving run %s, only in restarted run %s" %
                            (sorted(set(o1) - set(o2)), sorted(set(o2) - set(o1))))
        for suffix in sorted(set(o1) & set(o2)):
            if o1[suffix] != o2[suffix]:
                a, b = set(o1[suffix]), set(o2[suffix])
                problems.append("%s: %d lines only in the saving run, %d lines only in the restarted run" %
                                (suffix, len(a - b), len(b - a)))
        if problems:
            print("FAIL: the run restarted from the saved assignments does not reproduce the saving run")
            for p in problems:
                print("  " + p)
            g = ".transcript_models.gtf"
            if g in o1 and g in o2:
                print("  novel models, saving run   : %s" % sorted(novel_ids(o1[g])))
                print("  novel models, restarted run: %s" % sorted(novel_ids(o2[g])))
            return 1
        print("compared %d output files: %s" % (len(o1), ", ".join(sorted(o1))))
        print("PASS")
        return 0
    finally:
        shutil.rmtree(tmp, ignore_errors=True)


if __name__ == "__main__":
    sys.exit(main())
