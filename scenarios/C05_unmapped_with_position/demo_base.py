#!/usr/bin/env python
"""
C05 demo: every aligned read is accounted for exactly once; an alignment that is processed in more than
one region never yields two identical records.

Builds a small reference, an annotation and a coordinate-sorted BAM whose chr1 holds ONE contiguous cluster
(> 1024 reads, > 32 kb) that IsoQuant cuts at a coverage valley; a handful of reads (a chain read and five
spliced reads of an annotated gene) lie across the cut, so they are processed in both pieces.
Runs the real pipeline (isoquant.py of the current directory) in {default, --high_memory} x {without, with
annotation} and recounts everything from the input BAM:
  * distinct read ids in corrected_reads.bed (and read_assignments.tsv) == primary alignments passing the filters
  * no output file contains two identical records, and no read has more records than it has
    (non-supplementary) alignment records in the input
  * alignment statistics of the log == per-category record counts of the BAM
Exit 0 + PASS if all holds, exit 1 otherwise.
"""
import collections
import gzip
import os
import random
import re
import shutil
import subprocess
import sys
import tempfile

import pysam

ROOT = os.path.dirname(os.path.dirname(os.path.abspath(__file__)))
CHROMS = [("chr1", 90000), ("chr2", 20000)]


def make_reference(path):
    rnd = random.Random(7)
    seqs = {}
    with open(path, "w") as f:
        for name, length in CHROMS:
            s = "".join(rnd.choice("ACGT") for _ in range(length))
            seqs[name] = s
            f.write(">%s\n" % name)
            for i in range(0, length, 80):
                f.write(s[i:i + 80] + "\n")
    return seqs


def make_annotation(path):
    # G1: mono-exonic gene under the big pile; G2: three-exon gene lying across the coverage valley
    genes = [("G1", "chr1", "+", [(1001, 4000)]),
             ("G2", "chr1", "+", [(30001, 30500), (35501, 35800), (37801, 38200)]),
             ("G3", "chr2", "+", [(1001, 3500)])]
    with open(path, "w") as f:
        for gid, chrom, strand, exons in genes:
            tid = gid + ".t1"
            ga = 'gene_id "%s";' % gid
            ta = 'gene_id "%s"; transcript_id "%s";' % (gid, tid)
            f.write("\t".join([chrom, "demo", "gene", str(exons[0][0]), str(exons[-1][1]), ".", strand, ".", ga]) + "\n")
            f.write("\t".join([chrom, "demo", "transcript", str(exons[0][0]), str(exons[-1][1]), ".", strand, ".", ta]) + "\n")
            for s, e in exons:
                f.write("\t".join([chrom, "demo", "exon", str(s), str(e), ".", strand, ".", ta]) + "\n")


def segment(header, seqs, name, chrom, start, blocks, mapq=60, flag=0):
    # blocks: [(aligned length, intron length after it)]
    a = pysam.AlignedSegment(header)
    a.query_name = name
    a.reference_id = header.get_tid(chrom)
    a.reference_start = start
    cigar, query, pos = [], [], start
    for i, (length, gap) in enumerate(blocks):
        cigar.append((0, length))
        query.append(seqs[chrom][pos:pos + length])
        pos += length
        if gap and i + 1 < len(blocks):
            cigar.append((3, gap))
            pos += gap
    a.cigartuples = cigar
    a.query_sequence = "".join(query)
    a.query_qualities = pysam.qualitystring_to_array("I" * len(a.query_sequence))
    a.mapping_quality = mapq
    a.flag = flag
    return a


def make_bam(path, seqs):
    header = pysam.AlignmentHeader.from_dict(
        {"HD": {"VN": "1.6", "SO": "coordinate"}, "SQ": [{"SN": n, "LN": l} for n, l in CHROMS]})
    rnd = random.Random(11)
    recs = []
    # deep pile (1100 reads) at the beginning of the cluster
    for i in range(1100):
        recs.append(segment(header, seqs, "pileA_%d" % i, "chr1", rnd.randint(1000, 2500), [(rnd.randint(300, 1500), 0)]))
    # thin chain of overlapping reads keeps the cluster contiguous for ~57 kb (coverage 1-2: a valley)
    pos, k = 3500, 0
    while pos < 60000:
        recs.append(segment(header, seqs, "chain_%d" % k, "chr1", pos, [(1000, 0)]))
        pos += 800
        k += 1
    # spliced reads of gene G2, 30.0-38.2 kb: they lie across the first place where the cluster may be cut
    for i in range(5):
        recs.append(segment(header, seqs, "spliced_%d" % i, "chr1", 30000 + 50 * i,
                            [(500 - 50 * i, 5000), (300, 2000), (400, 0)]))
    # second pile and a few short reads at the very tail of the cluster
    for i in range(300):
        recs.append(segment(header, seqs, "pileB_%d" % i, "chr1", rnd.randint(60500, 62000), [(rnd.randint(200, 900), 0)]))
    for i in range(5):
        recs.append(segment(header, seqs, "tail_%d" % i, "chr1", 62850 + 3 * i, [(40, 0)]))
    for i in range(20):
        recs.append(segment(header, seqs, "other_%d" % i, "chr2", 1000 + 100 * i, [(500, 0)]))
    # records that must NOT be reported: a supplementary and a secondary alignment, an unmapped read
    recs.append(segment(header, seqs, "pileA_3", "chr2", 9000, [(500, 0)], flag=2048))
    recs.append(segment(header, seqs, "pileA_4", "chr2", 12000, [(500, 0)], flag=256, mapq=0))
    un = pysam.AlignedSegment(header)
    un.query_name, un.flag, un.reference_id, un.reference_start = "nowhere", 4, -1, -1
    un.query_sequence = "ACGT" * 50
    un.query_qualities = pysam.qualitystring_to_array("I" * 200)
    recs.append(un)
    recs.sort(key=lambda r: (r.reference_id if r.reference_id >= 0 else 1 << 30, r.reference_start))
    with pysam.AlignmentFile(path, "wb", header=header) as out:
        for r in recs:
            out.write(r)
    pysam.index(path)


def recount_input(bam_path, min_simple_mapq):
    """what the property expects, recomputed from the BAM alone"""
    stats = collections.Counter()
    expected = set()
    records_per_read = collections.Counter()
    with pysam.AlignmentFile(bam_path, "rb") as bam:
        for r in bam.fetch(until_eof=True):
            if r.is_unmapped:
                stats["unaligned"] += 1
                continue
            if r.is_secondary:
                stats["secondary"] += 1
            elif r.is_supplementary:
                stats["supplementary"] += 1
            else:
                stats["primary"] += 1
            if r.is_supplementary:
                continue
            records_per_read[r.query_name] += 1
            if not r.is_secondary and r.mapping_quality >= min_simple_mapq:
                expected.add(r.query_name)
    return stats, expected, records_per_read


def read_table(path, column):
    lines = []
    with gzip.open(path, "rt") as f:
        for line in f:
            if not line.startswith("#"):
                lines.append(line.rstrip("\n"))
    names = collections.Counter(l.split("\t")[column] for l in lines)
    return names, collections.Counter(lines)


def check_output(label, path, column, expected, records_per_read, problems):
    names, lines = read_table(path, column)
    missing = sorted(expected - set(names))
    extra = sorted(set(names) - expected)
    if len(names) != len(expected) or missing or extra:
        problems.append("%s: %d distinct reads reported, %d input reads pass the filters (missing %s, unexpected %s)"
                        % (label, len(names), len(expected), missing[:5], extra[:5]))
    identical = sorted((l for l, c in lines.items() if c > 1))
    if identical:
        problems.append("%s: %d records occur more than once, e.g. %dx '%s'"
                        % (label, len(identical), lines[identical[0]], identical[0][:90]))
    too_many = sorted(n for n, c in names.items() if c > records_per_read.get(n, 0))
    if too_many:
        problems.append("%s: %d reads have more records than alignments in the input, e.g. %s: %d records, %d alignment(s)"
                        % (label, len(too_many), too_many[0], names[too_many[0]], records_per_read.get(too_many[0], 0)))


def main():
    tmp = tempfile.mkdtemp(prefix="c05_demo_")
    problems = []
    try:
        ref = os.path.join(tmp, "ref.fa")
        seqs = make_reference(ref)
        gtf = os.path.join(tmp, "genes.gtf")
        make_annotation(gtf)
        bam = os.path.join(tmp, "reads.bam")
        make_bam(bam, seqs)
        stats, expected, records_per_read = recount_input(bam, 1)
        print("input: %s; %d primary alignments pass the filters" % (dict(stats), len(expected)))

        env = dict(os.environ, HOME=tmp)
        for annotated in (False, True):
            for high_memory in (False, True):
                label = "%s/%s" % ("annotation" if annotated else "no annotation",
                                   "--high_memory" if high_memory else "default")
                out = os.path.join(tmp, "out_%d_%d" % (annotated, high_memory))
                cmd = [sys.executable, os.path.join(ROOT, "isoquant.py"), "--reference", ref, "--bam", bam,
                       "--data_type", "nanopore", "-o", out, "--prefix", "S", "--threads", "1"]
                if annotated:
                    cmd += ["--genedb", gtf, "--complete_genedb"]
                if high_memory:
                    cmd += ["--high_memory"]
                run = subprocess.run(cmd, cwd=ROOT, env=env, stdout=subprocess.PIPE, stderr=subprocess.STDOUT, text=True)
                if run.returncode != 0:
                    problems.append("%s: pipeline failed\n%s" % (label, run.stdout[-1500:]))
                    continue
                check_output(label + " corrected_reads.bed", os.path.join(out, "S", "S.corrected_reads.bed.gz"), 3,
                             expected, records_per_read, problems)
                if annotated:
                    check_output(label + " read_assignments.tsv", os.path.join(out, "S", "S.read_assignments.tsv.gz"), 0,
                                 expected, records_per_read, problems)
                with open(os.path.join(out, "isoquant.log")) as log:
                    logged = {m.group(1): int(m.group(2)) for m in
                              re.finditer(r" - INFO - (primary|secondary|supplementary|unaligned): (\d+)", log.read())}
                for category in ("primary", "secondary", "supplementary", "unaligned"):
                    if logged.get(category, 0) != stats[category]:
                        problems.append("%s: log says %s: %d, the input has %d" %
                                        (label, category, logged.get(category, 0), stats[category]))
                print("checked", label)
    finally:
        shutil.rmtree(tmp, ignore_errors=True)

    if problems:
        print("FAIL")
        for p in problems:
            print("  " + p)
        return 1
    print("PASS")
    return 0


if __name__ == "__main__":
    sys.exit(main())
