"""Contracts for src/long_read_counter.py: weights and accumulators (C02), grouped/ungrouped agreement (C09)."""
from pyvc.api import contract, spec, lemma, record, finite, bounded, enum_from_repo
from pyvc import native

L = "src/long_read_counter.py:"
IA = "src/isoform_assignment.py:"
CLASS_HOME = {"ReadAssignmentType": "src/isoform_assignment.py", "CountingStrategy": "src/long_read_counter.py",
              "ReadWeightCounter": "src/long_read_counter.py", "IncrementalDict": "src/long_read_counter.py",
              "CountingStrategyFlags": "src/long_read_counter.py"}
enum_from_repo("src/isoform_assignment.py", "ReadAssignmentType")
enum_from_repo("src/long_read_counter.py", "CountingStrategy")
RAT = "enum:ReadAssignmentType"

# ---- assignment-type classes (used by C01, C02, C08) ----------------------------------------------------------------------
for name, members in [("is_inconsistent", ["inconsistent", "inconsistent_ambiguous", "inconsistent_non_intronic"]),
                      ("is_consistent", ["unique", "unique_minor_difference", "ambiguous"]),
                      ("is_unassigned", ["noninformative", "intergenic"]),
                      ("is_unique", ["unique_minor_difference", "unique"]),
                      ("is_ambiguous", ["ambiguous", "inconsistent_ambiguous"])]:
    contract(IA + "ReadAssignmentType." + name, {"self": RAT}, returns="bool", transparent=True, props=["C02", "C08", "C01"],
             ensures=["result == (" + " or ".join("self == ReadAssignmentType.%s" % m for m in members) + ")"],
             native=False)

record("CountingStrategyFlags", {"use_ambiguous": "bool", "use_inconsistent_minor": "bool", "use_inconsistent": "bool"})
record("ReadWeightCounter", {"strategy": "enum:CountingStrategy", "strategy_flags": "rec:CountingStrategyFlags"})
record("IncrementalDict", {"data": "dict[int,real]", "default_type": "any"})
native.RECORD_CLASSES["ReadWeightCounter"] = ("src/long_read_counter.py", "ReadWeightCounter")
native.RECORD_CLASSES["CountingStrategyFlags"] = ("src/long_read_counter.py", "CountingStrategyFlags")


def _rwc(rng):
    return {"__rec__": "ReadWeightCounter", "strategy": ("enum", "CountingStrategy", "all"),
            "strategy_flags": {"__rec__": "CountingStrategyFlags", "use_ambiguous": rng.random() < .5,
                               "use_inconsistent_minor": rng.random() < .5, "use_inconsistent": rng.random() < .5}}


contract(L + "ReadWeightCounter.process_ambiguous", {"self": "rec:ReadWeightCounter", "feature_count": "int"}, returns="real",
         props=["C02", "C08"], requires=["feature_count >= 0"],
         # 1 for a read on one feature, 1/k for a read shared by k features when ambiguous reads are enabled, 0 otherwise
         ensures=["result == (0 if feature_count == 0 else 1 if feature_count == 1 else "
                  "(1 / feature_count if self.strategy_flags.use_ambiguous else 0))",
                  "feature_count * result <= 1", "result >= 0"],
         canary="result == (0 if feature_count == 0 else 1 / feature_count)",
         gen=lambda rng, n: ({"self": _rwc(rng), "feature_count": rng.randint(0, 6)} for _ in range(n)))

contract(L + "ReadWeightCounter.process_inconsistent",
         {"self": "rec:ReadWeightCounter", "assignment_type": RAT, "feature_count": "int"}, returns="real", props=["C02"],
         requires=["feature_count >= 1",
                   "assignment_type == ReadAssignmentType.inconsistent or assignment_type == ReadAssignmentType.inconsistent_ambiguous "
                   "or assignment_type == ReadAssignmentType.inconsistent_non_intronic"],
         ensures=["result == ("
                  "(1 / feature_count if (self.strategy_flags.use_ambiguous and self.strategy_flags.use_inconsistent) else 0) "
                  "if (assignment_type == ReadAssignmentType.inconsistent_ambiguous or feature_count > 1) else "
                  "(1 if (self.strategy_flags.use_inconsistent or (self.strategy_flags.use_inconsistent_minor and "
                  "assignment_type == ReadAssignmentType.inconsistent_non_intronic)) else 0))",
                  # inconsistent reads only under strategies that admit them; never more than weight 1 in total
                  "self.strategy_flags.use_inconsistent or self.strategy_flags.use_inconsistent_minor or result == 0",
                  "feature_count * result <= 1", "result >= 0"],
         canary="result == 0",
         gen=lambda rng, n: ({"self": _rwc(rng), "feature_count": rng.randint(1, 5),
                              "assignment_type": ("enum", "ReadAssignmentType", rng.choice(["inconsistent", "inconsistent_ambiguous", "inconsistent_non_intronic"]))}
                             for _ in range(n)))

contract(L + "IncrementalDict.inc", {"self": "rec:IncrementalDict", "key": "int", "value": "real"}, returns="none",
         props=["C02", "C09"], modifies=["self.data"], bind={"IncrementalDict.default_type": "builtin:float"},
         ensures=["key in self.data", "self.data[key] == (old(self.data)[key] if key in old(self.data) else 0) + value",
                  "all(k in self.data and self.data[k] == old(self.data)[k] for k in old(self.data) if k != key)",
                  "all(k in old(self.data) or k == key for k in self.data)"],
         native=False, canary="self.data[key] == value",
         assumes=["IncrementalDict.default_type is float (set by the constructor default; every construction site uses it)"])

contract(L + "IncrementalDict.get", {"self": "rec:IncrementalDict", "key": "int"}, returns="real", props=["C02", "C09"],
         ensures=["result == (self.data[key] if key in self.data else 0)"], native=False,
         bind={"IncrementalDict.default_type": "builtin:float"})


@finite("C02.strategy_table", ["C02"], note="the five quantification strategies against the table in docs/cmd.md: which of "
        "ambiguous / inconsistent_non_intronic / any inconsistent reads each strategy admits (real ReadWeightCounter objects)")
def c02_strategies(tier, rng):
    lrc = native.repo_import("src/long_read_counter.py")
    documented = {  # strategy: (ambiguous split, non-intronic inconsistent, any inconsistent)
        "unique_only": (False, False, False),
        "with_ambiguous": (True, False, False),
        "unique_splicing_consistent": (False, True, False),
        "unique_inconsistent": (False, True, True),
        "all": (True, True, True),
    }
    obl = dis = 0
    viol = []
    names = [s.name for s in lrc.CountingStrategy]
    obl += 1
    if sorted(names) == sorted(documented) and sorted(lrc.COUNTING_STRATEGIES) == sorted(documented):
        dis += 1
    else:
        viol.append({"obligation": "C02.strategy_names", "inputs": None, "observed": names, "required": sorted(documented)})
    for s, want in documented.items():
        obl += 1
        try:
            f = lrc.ReadWeightCounter(s).strategy_flags
            got = (f.use_ambiguous, f.use_inconsistent_minor, f.use_inconsistent)
        except Exception as e:
            got = repr(e)
        if got == want:
            dis += 1
        else:
            viol.append({"obligation": "C02.strategy_flags.%s" % s, "inputs": {"strategy": s}, "observed": got, "required": want})
    return {"obligations": obl, "discharged": dis, "violations": viol, "cases": obl, "exhaustive": True,
            "bound": "all 5 strategies", "samples": [{"strategy": "all", "flags": documented["all"]}]}


# ---- AssignedFeatureCounter.add_read_info: one record -> accumulators -------------------------------------------------------
IV = "tuple[int,int]"
record("IsoformMatchC", {"assigned_gene": "opt[str]", "assigned_transcript": "opt[str]"})
record("GeneInfoC", {"all_isoforms_introns": "dict[str,list[tuple[int,int]]]"})
record("ReadAssignmentC", {"assignment_type": RAT, "gene_assignment_type": RAT, "isoform_matches": "list[rec:IsoformMatchC]",
                           "read_group": "str", "read_id": "str", "corrected_exons": "list[tuple[int,int]]",
                           "gene_info": "rec:GeneInfoC"})
record("AssignedFeatureCounter", {
    "assignment_extractor": "any", "ignore_read_groups": "bool", "group_numeric_ids": "dict[str,int]",
    "read_counter": "rec:ReadWeightCounter", "reads_for_tpm": "int", "ambiguous_reads": "int", "not_assigned_reads": "int",
    "not_aligned_reads": "int", "feature_counter": "defaultdict[str,rec:IncrementalDict,'new']",
    "confirmed_features": "set[str]", "all_features": "set[str]"})
CLASS_HOME.update({"GeneAssignmentExtractor": "src/long_read_counter.py", "TranscriptAssignmentExtractor": "src/long_read_counter.py",
                   "AssignedFeatureCounter": "src/long_read_counter.py", "AbstractReadGrouper": "src/read_groups.py"})

@spec("list[rec:IsoformMatchC], int -> int")
def dgenes(M, n):
    # number of distinct non-empty gene ids among the first n matches (a match counts when no earlier match names the same gene)
    return 0 if n <= 0 else dgenes(M, n - 1) + (1 if (M[n - 1].assigned_gene is not None and len(M[n - 1].assigned_gene) > 0 and
                                                      not any(M[i].assigned_gene == M[n - 1].assigned_gene for i in range(n - 1))) else 0)


@spec("list[rec:IsoformMatchC], int -> int")
def dtrans(M, n):
    return 0 if n <= 0 else dtrans(M, n - 1) + (1 if (M[n - 1].assigned_transcript is not None and len(M[n - 1].assigned_transcript) > 0 and
                                                      not any(M[i].assigned_transcript == M[n - 1].assigned_transcript for i in range(n - 1))) else 0)


contract(L + "GeneAssignmentExtractor.get_features", {"read_assignment": "rec:ReadAssignmentC"}, returns="set[str]",
         props=["C02"], locals={"gene_set": "set[str]"},
         ensures=["all((s in result) == any(read_assignment.isoform_matches[j].assigned_gene == s for j in range(len(read_assignment.isoform_matches))) "
                  "for s in result)",
                  "all(read_assignment.isoform_matches[j].assigned_gene is None or len(read_assignment.isoform_matches[j].assigned_gene) == 0 "
                  "or read_assignment.isoform_matches[j].assigned_gene in result for j in range(len(read_assignment.isoform_matches)))",
                  "len(result) <= len(read_assignment.isoform_matches)",
                  "len(result) >= 1 or not any(m.assigned_gene is not None and len(m.assigned_gene) > 0 for m in read_assignment.isoform_matches)",
                  # k of the 1/k rule: the number of DISTINCT genes named by the matches
                  "len(result) == dgenes(read_assignment.isoform_matches, len(read_assignment.isoform_matches))"],
         loops={0: {"inv": ["all(any(read_assignment.isoform_matches[j].assigned_gene == s for j in range(_k0)) for s in gene_set)",
                            "all(read_assignment.isoform_matches[j].assigned_gene is None or len(read_assignment.isoform_matches[j].assigned_gene) == 0 "
                            "or read_assignment.isoform_matches[j].assigned_gene in gene_set for j in range(_k0))",
                            "len(gene_set) <= _k0", "len(gene_set) == dgenes(read_assignment.isoform_matches, _k0)",
                            "len(gene_set) >= 1 or not any(read_assignment.isoform_matches[j].assigned_gene is not None and len(read_assignment.isoform_matches[j].assigned_gene) > 0 for j in range(_k0))"]}},
         native=False)
contract(L + "TranscriptAssignmentExtractor.get_features", {"read_assignment": "rec:ReadAssignmentC"}, returns="set[str]",
         props=["C02"], locals={"transcript_set": "set[str]"},
         ensures=["all(any(read_assignment.isoform_matches[j].assigned_transcript == s for j in range(len(read_assignment.isoform_matches))) "
                  "for s in result)",
                  "all(read_assignment.isoform_matches[j].assigned_transcript is None or len(read_assignment.isoform_matches[j].assigned_transcript) == 0 "
                  "or read_assignment.isoform_matches[j].assigned_transcript in result for j in range(len(read_assignment.isoform_matches)))",
                  "len(result) <= len(read_assignment.isoform_matches)",
                  "len(result) >= 1 or not any(m.assigned_transcript is not None and len(m.assigned_transcript) > 0 for m in read_assignment.isoform_matches)",
                  "len(result) == dtrans(read_assignment.isoform_matches, len(read_assignment.isoform_matches))"],
         loops={0: {"inv": ["all(any(read_assignment.isoform_matches[j].assigned_transcript == s for j in range(_k0)) for s in transcript_set)",
                            "all(read_assignment.isoform_matches[j].assigned_transcript is None or len(read_assignment.isoform_matches[j].assigned_transcript) == 0 "
                            "or read_assignment.isoform_matches[j].assigned_transcript in transcript_set for j in range(_k0))",
                            "len(transcript_set) <= _k0", "len(transcript_set) == dtrans(read_assignment.isoform_matches, _k0)",
                            "len(transcript_set) >= 1 or not any(read_assignment.isoform_matches[j].assigned_transcript is not None and len(read_assignment.isoform_matches[j].assigned_transcript) > 0 for j in range(_k0))"]}},
         native=False)
contract(L + "GeneAssignmentExtractor.get_assignment_type", {"read_assignment": "rec:ReadAssignmentC"}, returns=RAT,
         transparent=True, props=["C02"], ensures=["result == read_assignment.gene_assignment_type"], native=False)
contract(L + "TranscriptAssignmentExtractor.get_assignment_type", {"read_assignment": "rec:ReadAssignmentC"}, returns=RAT,
         transparent=True, props=["C02"], ensures=["result == read_assignment.assignment_type"], native=False)
contract(L + "GeneAssignmentExtractor.confirms_feature", {"read_assignment": "rec:ReadAssignmentC"}, returns="bool",
         transparent=True, props=["C02"],
         ensures=["result == (read_assignment.gene_assignment_type == ReadAssignmentType.unique or "
                  "read_assignment.gene_assignment_type == ReadAssignmentType.unique_minor_difference)"], native=False)
contract(L + "TranscriptAssignmentExtractor.confirms_feature", {"read_assignment": "rec:ReadAssignmentC"}, returns="bool",
         transparent=True, props=["C02"],
         requires=["len(read_assignment.isoform_matches) > 0", "read_assignment.isoform_matches[0].assigned_transcript is not None",
                   "read_assignment.isoform_matches[0].assigned_transcript in read_assignment.gene_info.all_isoforms_introns"],
         # a uniquely assigned read confirms its transcript when the transcript is mono-exonic or the corrected alignment is spliced
         ensures=["result == ((read_assignment.assignment_type == ReadAssignmentType.unique or "
                  "read_assignment.assignment_type == ReadAssignmentType.unique_minor_difference) and "
                  "(len(read_assignment.gene_info.all_isoforms_introns[read_assignment.isoform_matches[0].assigned_transcript]) == 0 "
                  "or len(read_assignment.corrected_exons) > 1))"], native=False)


@spec("defaultdict[str,rec:IncrementalDict,'new'], str, int -> real")
def cnt(fc, f, g):
    return fc[f].data[g] if (f in fc and g in fc[f].data) else 0


def _gen_ari(tag):
    def gen(rng, n):
        lrc = native.repo_import("src/long_read_counter.py")
        ia = native.repo_import("src/isoform_assignment.py")
        from collections import defaultdict
        for _ in range(n):
            c = lrc.AssignedFeatureCounter.__new__(lrc.AssignedFeatureCounter)
            c.assignment_extractor = lrc.GeneAssignmentExtractor if tag == "gene" else lrc.TranscriptAssignmentExtractor
            groups = rng.choice([[], ["a", "b"], ["NA", "g1", "g2"], ["HEK", "NA", "b"], ["0", "B", "NA"]])
            c.ignore_read_groups = not groups
            c.group_numeric_ids = {g: i for i, g in enumerate(sorted(groups))} if groups else {"NA": 0}
            c.read_counter = lrc.ReadWeightCounter(rng.choice(lrc.COUNTING_STRATEGIES))
            c.reads_for_tpm, c.ambiguous_reads, c.not_assigned_reads, c.not_aligned_reads = [rng.randint(0, 3) for _ in range(4)]
            c.feature_counter = defaultdict(lrc.IncrementalDict)
            for f in rng.sample(["t1", "t2", "g1", "g2"], rng.randint(0, 2)):
                c.feature_counter[f].inc(rng.randrange(max(1, len(groups))), rng.choice([1.0, 0.5]))
            c.confirmed_features = set(rng.sample(["t1", "g1"], rng.randint(0, 1)))
            c.all_features = set(c.feature_counter.keys())
            if rng.random() < 0.1:
                yield {"self": c, "read_assignment": None}
                continue
            k = rng.randint(0, 3)
            t = rng.choice(list(ia.ReadAssignmentType))
            ms = [ia.IsoformMatch(ia.MatchClassification.undefined, rng.choice(["g1", "g2"]), rng.choice(["t1", "t2", "t3"]))
                  for _ in range(k)]
            if t.is_unique() and ms:
                ms = ms[:1]
            ra = ia.ReadAssignment("r", t, ms)
            ra.gene_assignment_type = t if rng.random() < .7 else rng.choice(list(ia.ReadAssignmentType))
            if ra.gene_assignment_type.is_unique() and len({m.assigned_gene for m in ms}) > 1:
                ra.gene_assignment_type = ia.ReadAssignmentType.ambiguous
            ra.read_group = rng.choice(groups) if groups else "NA"
            ra.corrected_exons = [(1, 5), (9, 12)][:rng.randint(1, 2)]
            gi = type("GI", (), {})()
            gi.all_isoforms_introns = {"t1": [], "t2": [(6, 8)], "t3": [(6, 8)]}
            ra.gene_info = gi
            yield {"self": c, "read_assignment": ra}
    return gen


def _ari(tag, extractor, type_field):
    T = "read_assignment.%s" % type_field
    FA = "assigned_gene" if tag == "gene" else "assigned_transcript"
    DCNT = "dgenes" if tag == "gene" else "dtrans"
    contract(L + "AssignedFeatureCounter.add_read_info#" + tag,
             {"self": "rec:AssignedFeatureCounter", "read_assignment": "opt[rec:ReadAssignmentC]"}, returns="none",
             props=["C02", "C09"], bind={"AssignedFeatureCounter.assignment_extractor": "class:" + extractor},
             modifies=["self.reads_for_tpm", "self.ambiguous_reads", "self.not_assigned_reads", "self.not_aligned_reads",
                       "self.feature_counter", "self.confirmed_features", "self.all_features"],
             requires=["read_assignment is None or self.ignore_read_groups or read_assignment.read_group in self.group_numeric_ids",
                       "not self.ignore_read_groups or 'NA' in self.group_numeric_ids",
                       "read_assignment is None or len(read_assignment.isoform_matches) == 0 or "
                       "read_assignment.isoform_matches[0].assigned_transcript is None or "
                       "read_assignment.isoform_matches[0].assigned_transcript in read_assignment.gene_info.all_isoforms_introns",
                       # assigned records name at least one feature (a unique record exactly one would be the assigner's post)
                       "read_assignment is None or %s == ReadAssignmentType.noninformative or %s == ReadAssignmentType.intergenic or "
                       "len(read_assignment.isoform_matches) == 0 or any(m.%s is not None and len(m.%s) > 0 for m in read_assignment.isoform_matches)"
                       % ("read_assignment.assignment_type", "read_assignment.assignment_type",
                          "assigned_gene" if tag == "gene" else "assigned_transcript", "assigned_gene" if tag == "gene" else "assigned_transcript")],
             ensures=[
                 # exactly one of the tallies moves, by one
                 "(self.not_aligned_reads - old(self.not_aligned_reads)) + (self.not_assigned_reads - old(self.not_assigned_reads)) + "
                 "(self.reads_for_tpm - old(self.reads_for_tpm)) == 1",
                 "self.not_aligned_reads - old(self.not_aligned_reads) == (1 if read_assignment is None else 0)",
                 "read_assignment is None or self.not_assigned_reads - old(self.not_assigned_reads) == "
                 "(1 if (read_assignment.assignment_type == ReadAssignmentType.noninformative or "
                 "read_assignment.assignment_type == ReadAssignmentType.intergenic or len(read_assignment.isoform_matches) == 0 "
                 "or read_assignment.isoform_matches[0].assigned_transcript is None) else 0)",
                 "0 <= self.ambiguous_reads - old(self.ambiguous_reads) <= self.reads_for_tpm - old(self.reads_for_tpm)",
                 "read_assignment is None or self.reads_for_tpm == old(self.reads_for_tpm) or "
                 "(self.ambiguous_reads - old(self.ambiguous_reads) == 1) == (%s == ReadAssignmentType.ambiguous)" % T,
                 # nothing is ever taken away, no counter of a record that is not counted changes
                 "all(f in self.feature_counter for f in old(self.feature_counter))",
                 "self.reads_for_tpm > old(self.reads_for_tpm) or "
                 "all(cnt(self.feature_counter, f, h) == cnt(old(self.feature_counter), f, h) for f in self.feature_counter for h in self.feature_counter[f].data)",
                 "all(cnt(self.feature_counter, f, h) >= cnt(old(self.feature_counter), f, h) for f in old(self.feature_counter) for h in old(self.feature_counter)[f].data)",
                 "all(f in self.confirmed_features for f in old(self.confirmed_features))",
                 # a uniquely assigned read adds exactly 1 to (one of) its feature(s), under its own group
                 "read_assignment is None or self.reads_for_tpm == old(self.reads_for_tpm) or not (%s == ReadAssignmentType.unique or %s == ReadAssignmentType.unique_minor_difference) or "
                 "any(m.%s is not None and m.%s in self.all_features and "
                 "cnt(self.feature_counter, m.%s, self.group_numeric_ids['NA' if self.ignore_read_groups else read_assignment.read_group]) == "
                 "cnt(old(self.feature_counter), m.%s, self.group_numeric_ids['NA' if self.ignore_read_groups else read_assignment.read_group]) + 1 "
                 "for m in read_assignment.isoform_matches)" % ((T, T) + (FA,) * 4),
                 # the 1/k rule: an ambiguous read shared by k distinct features adds exactly 1/k to each of them (0 when the strategy
                 # leaves ambiguous reads out), under its own group
                 "read_assignment is None or self.reads_for_tpm == old(self.reads_for_tpm) or %s != ReadAssignmentType.ambiguous or "
                 "all(m.%s is None or len(m.%s) == 0 or "
                 "cnt(self.feature_counter, m.%s, self.group_numeric_ids['NA' if self.ignore_read_groups else read_assignment.read_group]) == "
                 "cnt(old(self.feature_counter), m.%s, self.group_numeric_ids['NA' if self.ignore_read_groups else read_assignment.read_group]) + "
                 "(1 if %s(read_assignment.isoform_matches, len(read_assignment.isoform_matches)) == 1 else "
                 "(1 / %s(read_assignment.isoform_matches, len(read_assignment.isoform_matches)) if self.read_counter.strategy_flags.use_ambiguous else 0)) "
                 "for m in read_assignment.isoform_matches)" % ((T,) + (FA,) * 4 + (DCNT, DCNT)),
             ],
             loops={k: {"inv": [
                 "all(f in self.feature_counter for f in old(self.feature_counter))",
                 "all(cnt(self.feature_counter, f, h) >= cnt(old(self.feature_counter), f, h) for f in old(self.feature_counter) for h in old(self.feature_counter)[f].data)",
                 "count_value >= 0",
                 # the features already visited carry the weight, the others are untouched (the enumeration of the set has no repetition)
                 "all(cnt(self.feature_counter, _seq%d[j], group_id) == cnt(old(self.feature_counter), _seq%d[j], group_id) + count_value for j in range(_k%d))" % (k, k, k),
                 "all(cnt(self.feature_counter, _seq%d[j], group_id) == cnt(old(self.feature_counter), _seq%d[j], group_id) for j in range(_k%d, len(_seq%d)))" % (k, k, k, k)]}
                    for k in (0, 1)},
             gen=_gen_ari(tag))


_ari("transcript", "TranscriptAssignmentExtractor", "assignment_type")
_ari("gene", "GeneAssignmentExtractor", "gene_assignment_type")


# ---- bounded: the real counters writing real files (dump, grouped formats, TPM) ------------------------------------------------
def _run_counters(seed):
    import os, random, shutil, tempfile
    lrc = native.repo_import("src/long_read_counter.py")
    ia = native.repo_import("src/isoform_assignment.py")
    rng = random.Random(seed)
    base = os.path.join(os.path.dirname(os.path.dirname(os.path.abspath(__file__))), ".run")
    os.makedirs(base, exist_ok=True)
    d = tempfile.mkdtemp(prefix="cnt", dir=base)
    problems = []
    try:
        groups = set(rng.sample(["b", "a", "NA", "g10", "g2", "zeta", "cell_1", "HEK", "0", "B_cell"], rng.randint(2, 5)))
        if rng.random() < .5:
            groups.add("NA")
        strategy = rng.choice(lrc.COUNTING_STRATEGIES)
        feats = ["t%d" % i for i in range(5)]
        grouped = lrc.create_transcript_counter(os.path.join(d, "grp"), strategy, feats, groups, True, lrc.GroupedOutputFormat.both)
        plain = lrc.create_transcript_counter(os.path.join(d, "all"), strategy, feats, None, True)
        gi = type("GI", (), {})()
        gi.all_isoforms_introns = {f: ([(6, 8)] if i % 2 else []) for i, f in enumerate(feats)}
        expected = {}  # (feature, group) -> number of uniquely assigned reads of that group (each weighs exactly 1 under every strategy)
        named = set()  # (feature, group) pairs some read of the group names at all
        for _ in range(rng.randint(5, 40)):
            t = rng.choice([ia.ReadAssignmentType.unique, ia.ReadAssignmentType.unique_minor_difference, ia.ReadAssignmentType.ambiguous,
                            ia.ReadAssignmentType.inconsistent, ia.ReadAssignmentType.inconsistent_non_intronic,
                            ia.ReadAssignmentType.inconsistent_ambiguous, ia.ReadAssignmentType.noninformative])
            k = 1 if t.is_unique() or t in (ia.ReadAssignmentType.inconsistent, ia.ReadAssignmentType.inconsistent_non_intronic) else rng.randint(2, 3)
            ms = [ia.IsoformMatch(ia.MatchClassification.undefined, "g", f) for f in rng.sample(feats, k)]
            if t == ia.ReadAssignmentType.noninformative:
                ms = []
            ra = ia.ReadAssignment("r", t, ms)
            ra.read_group = rng.choice(sorted(groups))
            ra.corrected_exons = [(1, 5), (9, 12)]
            ra.gene_info = gi
            grouped.add_read_info(ra)
            plain.add_read_info(ra)
            for m in ms:
                named.add((m.assigned_transcript, ra.read_group))
            if t.is_unique():
                expected[(ms[0].assigned_transcript, ra.read_group)] = expected.get((ms[0].assigned_transcript, ra.read_group), 0) + 1
        grouped.dump()
        plain.dump()
        def table(path):
            rows = {}
            hdr = None
            for line in open(path):
                fs = line.rstrip("\n").split("\t")
                if line.startswith("#"):
                    hdr = fs[1:]
                    continue
                if line.startswith("__"):
                    continue
                rows[fs[0]] = fs[1:]
            return hdr, rows
        hdr, mat = table(os.path.join(d, "grp_counts.tsv"))
        lin = {}
        for line in open(os.path.join(d, "grp_counts_linear.tsv")):
            if line.startswith("#"):
                continue
            f, g, v = line.rstrip("\n").split("\t")
            lin[(f, g)] = v
        _, one = table(os.path.join(d, "all_counts.tsv"))
        if hdr != sorted(groups):
            problems.append("matrix header %s is not the sorted group list %s" % (hdr, sorted(groups)))
        for f, vals in mat.items():
            for g, v in zip(hdr, vals):
                if (f, g) in lin and lin[(f, g)] != v:
                    problems.append("matrix cell (%s,%s)=%s but linear says %s" % (f, g, v, lin[(f, g)]))
                if (f, g) not in lin and float(v) != 0:
                    problems.append("matrix cell (%s,%s)=%s missing from the linear table" % (f, g, v))
            # every read is counted under its own group: a cell holds at least the group's uniquely assigned reads of the feature, and
            # nothing at all when no read of the group names the feature
            for g, v in zip(hdr, vals):
                if float(v) + 1e-9 < expected.get((f, g), 0):
                    problems.append("cell (%s,%s)=%s but %d uniquely assigned reads of group %s name %s" % (f, g, v, expected[(f, g)], g, f))
                if float(v) != 0 and (f, g) not in named:
                    problems.append("cell (%s,%s)=%s but no read of group %s names %s" % (f, g, v, g, f))
            tot = sum(grouped.feature_counter[f].get(grouped.group_numeric_ids[g]) for g in groups)
            if abs(tot - plain.feature_counter[f].get(0)) > 1e-9:
                problems.append("groups of %s sum to %r, ungrouped is %r" % (f, tot, plain.feature_counter[f].get(0)))
        for (f, g) in lin:
            if f not in mat or g not in hdr:
                problems.append("linear row (%s,%s) not in matrix" % (f, g))
        # TPM (simple): rescaled counts summing to 1e6, ratios preserved
        plain.convert_counts_to_tpm("simple")
        _, tpm = table(os.path.join(d, "all_tpm.tsv"))
        cs = {f: float(v[0]) for f, v in one.items()}
        ts = {f: float(v[0]) for f, v in tpm.items() if not f.startswith("__")}
        if sum(cs.values()) > 0:
            if abs(sum(ts.values()) - 1e6) > 0.01 * len(ts) + 1:
                problems.append("TPM column sums to %r" % sum(ts.values()))
            for f in cs:
                if abs(ts[f] * sum(cs.values()) - cs[f] * 1e6) > 1.0 * sum(cs.values()):
                    problems.append("TPM of %s is %r for count %r of %r" % (f, ts[f], cs[f], sum(cs.values())))
    finally:
        shutil.rmtree(d, ignore_errors=True)
    return problems


def replay_counters(d):
    p = _run_counters(d["inputs"]["seed"])
    return (not p), "seed %s: %s" % (d["inputs"]["seed"], p or "tables agree")


@bounded("C09.tables_native", ["C09", "C02"], shards=8, note="real grouped and ungrouped transcript counters fed the same random records, "
         "dumped to real files: matrix header = sorted groups, matrix and linear tables carry identical (feature, group, value) "
         "triples, every cell holds at least the uniquely assigned reads of its own group and nothing from other groups, per-group counts sum to the ungrouped count, simple TPM sums to 1e6 with ratios preserved; bound: N random runs "
         "of 5..40 records over 5 features and 2..5 groups")
def c09_tables(tier, rng):
    n = 60 if tier == "quick" else 3000
    base = rng.randrange(10 ** 9)
    for k in range(n):
        p = _run_counters(base + k)
        if p:
            return {"cases": k + 1, "bound": "%d runs" % n,
                    "violations": [{"obligation": "C09.tables_native", "inputs": {"seed": base + k}, "observed": p[:4],
                                    "required": "matrix == linear, groups partition the ungrouped table, TPM is a rescaling",
                                    "replay_call": "contracts.c_counters:replay_counters"}]}
    return {"cases": n, "bound": "%d runs" % n, "violations": [], "samples": [{"seed": base}]}


# ---- model-level counting (transcript_model_counts): the per-read number of models a read is listed under -------------------------------------
G = "src/graph_based_model_construction.py:"
record("AssignedReadM", {"read_id": "str", "read_group": "str"})
record("GraphBasedModelConstructor", {"transcript_read_ids": "dict[str,list[rec:AssignedReadM]]", "read_assignment_counts": "defaultdict[str,int,0]",
                                      "internal_counter": "defaultdict[str,int,0]"})
CLASS_HOME["GraphBasedModelConstructor"] = "src/graph_based_model_construction.py"


@spec("list[rec:AssignedReadM], int, str -> int")
def nocc(L, n, r):
    # how many of the first n listed assignments belong to read r
    return 0 if n <= 0 else nocc(L, n - 1, r) + (1 if L[n - 1].read_id == r else 0)


def _gen_delete(rng, n):
    import types
    from collections import defaultdict
    gm = native.repo_import("src/graph_based_model_construction.py")
    for _ in range(n):
        c = gm.GraphBasedModelConstructor.__new__(gm.GraphBasedModelConstructor)
        c.transcript_read_ids = defaultdict(list)
        c.read_assignment_counts = defaultdict(int)
        c.internal_counter = defaultdict(int)
        models = ["m%d" % i for i in range(rng.randint(1, 3))]
        for i in range(rng.randint(1, 5)):
            r = types.SimpleNamespace(read_id="r%d" % i, read_group="NA")
            for m in rng.sample(models, rng.randint(1, len(models))):
                c.save_assigned_read(r, m)
        live = [m for m in models if m in c.transcript_read_ids]
        if live:
            yield {"self": c, "transcript_id": rng.choice(live)}


contract(G + "GraphBasedModelConstructor.delete_from_storage", {"self": "rec:GraphBasedModelConstructor", "transcript_id": "str"}, returns="none",
         props=["C02"], modifies=["self.read_assignment_counts", "self.transcript_read_ids", "self.internal_counter"], gen=_gen_delete,
         requires=["transcript_id in self.transcript_read_ids", "transcript_id in self.internal_counter",
                   "all(a.read_id in self.read_assignment_counts for a in self.transcript_read_ids[transcript_id])"],
         # forward_counts decides "unique to one model" by read_assignment_counts[r] == 1: the counter must keep meaning "number of models r is
         # still listed under", so deleting a model takes away exactly the read's listings under that model - no more, no less
         ensures=["all(self.read_assignment_counts[r] == old(self.read_assignment_counts)[r] - "
                  "nocc(old(self.transcript_read_ids)[transcript_id], len(old(self.transcript_read_ids)[transcript_id]), r) "
                  "for r in old(self.read_assignment_counts))",
                  "transcript_id not in self.transcript_read_ids",
                  "all(t in self.transcript_read_ids and self.transcript_read_ids[t] == old(self.transcript_read_ids)[t] "
                  "for t in old(self.transcript_read_ids) if t != transcript_id)"],
         loops={0: {"inv": ["all(r in self.read_assignment_counts and self.read_assignment_counts[r] == old(self.read_assignment_counts)[r] - "
                            "nocc(self.transcript_read_ids[transcript_id], _k0, r) for r in old(self.read_assignment_counts))",
                            "self.transcript_read_ids == old(self.transcript_read_ids)", "self.internal_counter == old(self.internal_counter)"]}},
         canary="len(self.transcript_read_ids) == len(old(self.transcript_read_ids))")

contract(G + "GraphBasedModelConstructor.save_assigned_read",
         {"self": "rec:GraphBasedModelConstructor", "read_assignment": "rec:AssignedReadM", "transcript_id": "str"}, returns="none",
         props=["C02"], modifies=["self.read_assignment_counts", "self.transcript_read_ids", "self.internal_counter"], native=False,
         requires=["transcript_id in self.transcript_read_ids"],
         ensures=["self.read_assignment_counts[read_assignment.read_id] == "
                  "(old(self.read_assignment_counts)[read_assignment.read_id] if read_assignment.read_id in old(self.read_assignment_counts) else 0) + 1",
                  "all(self.read_assignment_counts[r] == old(self.read_assignment_counts)[r] for r in old(self.read_assignment_counts) if r != read_assignment.read_id)",
                  "len(self.transcript_read_ids[transcript_id]) == len(old(self.transcript_read_ids)[transcript_id]) + 1",
                  "self.transcript_read_ids[transcript_id][len(self.transcript_read_ids[transcript_id]) - 1] == read_assignment"])


def _model_count_case(seed):
    """random histories of the real constructor's bookkeeping (save / delete / the second assignment pass's rule), then the real
    forward_counts into a real transcript counter; compared with the documented weights computed from the final read lists"""
    import os, random, shutil, tempfile, types
    from collections import defaultdict
    gm = native.repo_import("src/graph_based_model_construction.py")
    lrc = native.repo_import("src/long_read_counter.py")
    rng = random.Random(seed)
    base = os.path.join(os.path.dirname(os.path.dirname(os.path.abspath(__file__))), ".run")
    os.makedirs(base, exist_ok=True)
    d = tempfile.mkdtemp(prefix="mcnt", dir=base)
    problems = []
    try:
        strategy = rng.choice(lrc.COUNTING_STRATEGIES)
        c = gm.GraphBasedModelConstructor.__new__(gm.GraphBasedModelConstructor)
        c.transcript_read_ids = defaultdict(list)
        c.read_assignment_counts = defaultdict(int)
        c.internal_counter = defaultdict(int)
        c.transcript_model_storage = []
        c.transcript_counter = lrc.create_transcript_counter(os.path.join(d, "m"), strategy, [], None, True)
        models = ["m%d" % i for i in range(rng.randint(2, 4))]
        reads = [types.SimpleNamespace(read_id="r%d" % i, read_group="NA") for i in range(rng.randint(2, 7))]
        for r in reads:
            for m in rng.sample(models, rng.randint(0, min(3, len(models)))):
                c.save_assigned_read(r, m)
        for m in rng.sample(models, rng.randint(0, len(models) - 1)):
            if m in c.transcript_read_ids:
                c.delete_from_storage(m)
                models.remove(m)
        # the second pass (assign_reads_to_models) gives a read without any listing a fresh chance
        for r in reads:
            if c.read_assignment_counts[r.read_id] == 0 and models and rng.random() < .7:
                for m in rng.sample(models, rng.randint(1, min(2, len(models)))):
                    c.read_assignment_counts[r.read_id] += 1
                    c.transcript_read_ids[m].append(r)
        listed = defaultdict(list)
        for m, L in c.transcript_read_ids.items():
            for a in L:
                listed[a.read_id].append(m)
        for r in reads:
            if c.read_assignment_counts[r.read_id] != len(listed[r.read_id]):
                problems.append("read %s is listed under %s but read_assignment_counts says %d" % (r.read_id, listed[r.read_id], c.read_assignment_counts[r.read_id]))
        c.forward_counts()
        tc = c.transcript_counter
        flags = lrc.ReadWeightCounter(strategy).strategy_flags
        want = defaultdict(float)
        for r, ms in listed.items():
            k = len(set(ms))
            if k == 0:
                continue
            if len(ms) != k:
                problems.append("read %s is listed twice under one model: %s" % (r, ms))
            w = 1.0 if k == 1 else (1.0 / k if flags.use_ambiguous else 0.0)
            for m in set(ms):
                want[m] += w
        for m in set(list(want) + list(tc.feature_counter.keys())):
            got = tc.feature_counter[m].get(0) if m in tc.feature_counter else 0.0
            if abs(got - want[m]) > 1e-9:
                problems.append("model %s counts %r, the documented weights of its listed reads sum to %r (%s)" % (m, got, want[m], strategy))
    finally:
        shutil.rmtree(d, ignore_errors=True)
    return problems


def replay_model_counts(d):
    p = _model_count_case(d["inputs"]["seed"])
    return (not p), "seed %s: %s" % (d["inputs"]["seed"], p or "model counts follow the documented weights")


@bounded("C02.model_counts", ["C02"], shards=8, note="real GraphBasedModelConstructor bookkeeping (save_assigned_read, delete_from_storage, the second "
         "assignment pass) on random histories of <= 7 reads x <= 4 models, then the real forward_counts into a real transcript counter: "
         "read_assignment_counts equals the number of listings, no read is listed twice under a model, every model's count is the "
         "documented sum of 1 or 1/k over the reads listed for it")
def c02_model_counts(tier, rng):
    n = 150 if tier == "quick" else 5000
    base = rng.randrange(10 ** 9)
    for k in range(n):
        try:
            p = _model_count_case(base + k)
        except Exception as e:
            p = ["exception %s: %s" % (type(e).__name__, e)]
        if p:
            return {"cases": k + 1, "bound": "%d histories" % n, "violations": [{
                "obligation": "C02.model_counts", "inputs": {"seed": base + k}, "observed": p[:3],
                "required": "model counts = documented weights over the listed reads", "replay_call": "contracts.c_counters:replay_model_counts"}]}
    return {"cases": n, "bound": "%d random histories" % n, "violations": [], "samples": [{"seed": base}]}


# ---- per-chromosome count files merged into the final table: feature rows concatenated, statistics SUMMED ----------------------------------
def _merge_case(seed):
    import os, random, shutil, tempfile
    lrc = native.repo_import("src/long_read_counter.py")
    fu = native.repo_import("src/file_utils.py")
    rng = random.Random(seed)
    base = os.path.join(os.path.dirname(os.path.dirname(os.path.abspath(__file__))), ".run")
    os.makedirs(base, exist_ok=True)
    d = tempfile.mkdtemp(prefix="mrg", dir=base)
    problems = []
    try:
        chrs = rng.sample(["chr1", "chr2", "chr10", "chrX", "scaffold_3"], rng.randint(2, 4))
        want_rows, want = {}, {"__ambiguous": 0, "__no_feature": 0, "__not_aligned": 0, "usable": 0}
        for c in chrs:
            cnt = lrc.create_transcript_counter(os.path.join(d, "S_%s.transcript" % c), "with_ambiguous", [], None, True)
            feats = ["%s.t%d" % (c, i) for i in range(rng.randint(1, 3))]
            for i in range(rng.randint(0, 6)):
                fs = rng.sample(feats, rng.randint(1, len(feats)))
                cnt.add_read_info_raw("r%d" % i, fs)
                for f in fs:
                    want_rows[f] = want_rows.get(f, 0.0) + 1.0 / len(fs)
            cnt.add_unassigned(rng.randint(0, 4))
            cnt.add_unaligned(rng.randint(0, 3))
            cnt.add_confirmed_features(feats)
            want["__ambiguous"] += cnt.ambiguous_reads; want["__no_feature"] += cnt.not_assigned_reads
            want["__not_aligned"] += cnt.not_aligned_reads; want["usable"] += cnt.reads_for_tpm
            cnt.dump()
        final = lrc.create_transcript_counter(os.path.join(d, "S.transcript"), "with_ambiguous", [], None, True)
        unaligned = rng.choice([0, 0, 7])
        order = list(chrs)
        rng.shuffle(order)
        fu.merge_counts(final, "S", order, unaligned)
        rows, stats = {}, {}
        for line in open(final.output_counts_file_name):
            if line.startswith("#"):
                continue
            f = line.rstrip("\n").split("\t")
            (stats if f[0].startswith("__") else rows)[f[0]] = float(f[1])
        if unaligned > 0:
            want["__not_aligned"] = unaligned
        for k in ("__ambiguous", "__no_feature", "__not_aligned"):
            if stats.get(k) != want[k]:
                problems.append("%s is %r in the merged table, the per-chromosome files sum to %r (%s)" % (k, stats.get(k), want[k], order))
        if final.reads_for_tpm != want["usable"]:
            problems.append("usable reads after the merge: %r, sum over chromosomes %r" % (final.reads_for_tpm, want["usable"]))
        for f in set(rows) | set(k for k, v in want_rows.items() if v > 0):
            if abs(rows.get(f, 0.0) - round(want_rows.get(f, 0.0), 2)) > 0.011:
                problems.append("feature %s: merged %r, expected %r" % (f, rows.get(f), want_rows.get(f)))
    finally:
        shutil.rmtree(d, ignore_errors=True)
    return problems


def replay_merge(d):
    p = _merge_case(d["inputs"]["seed"])
    return (not p), "seed %s: %s" % (d["inputs"]["seed"], p or "merged table = concatenation + summed statistics")


@bounded("C02.merge_counts", ["C02"], shards=4, note="real per-chromosome transcript counters (2-4 chromosomes, random reads) dumped and merged by the real "
         "merge_counts in a shuffled chromosome order: feature rows are kept, __ambiguous / __no_feature / __not_aligned and the usable-read "
         "total are the sums over the chromosomes (or the BAM's unaligned count when given)")
def c02_merge(tier, rng):
    n = 80 if tier == "quick" else 3000
    base = rng.randrange(10 ** 9)
    for k in range(n):
        try:
            p = _merge_case(base + k)
        except Exception as e:
            p = ["exception %s: %s" % (type(e).__name__, e)]
        if p:
            return {"cases": k + 1, "bound": "%d merges" % n, "violations": [{
                "obligation": "C02.merge_counts", "inputs": {"seed": base + k}, "observed": p[:3],
                "required": "statistics lines are sums over the per-chromosome files", "replay_call": "contracts.c_counters:replay_merge"}]}
    return {"cases": n, "bound": "%d random merges" % n, "violations": [], "samples": [{"seed": base}]}


# ---- which strategy and which feature level each count table of a run is produced with: the real ReadAssignmentAggregator, enumerated ------------
@finite("C02.aggregator_wiring", ["C02", "C09"], note="the real ReadAssignmentAggregator built for every pair (--gene_quantification, --transcript_quantification) "
        "with annotation, grouping, exon counting and model construction switched on: the gene tables (plain and grouped) use the gene extractor "
        "with the gene strategy, the transcript and transcript-model tables (plain and grouped) the transcript extractor with the transcript "
        "strategy, and all six counters are registered with the composite counters that feed them")
def c02_aggregator_wiring(tier, rng):
    import itertools, os, shutil, tempfile
    dpm = native.repo_import("src/dataset_processor.py")
    lrc = native.repo_import("src/long_read_counter.py")

    class Args:
        def __init__(self, **kw):
            self.__dict__.update(kw)

        def __getattr__(self, n):
            return None

    class Sample:
        def __init__(self, d):
            self.d = d

        def __getattr__(self, n):
            if n.startswith("out_"):
                return os.path.join(self.d, n)
            raise AttributeError(n)
    want = {"gene_counter": ("GeneAssignmentExtractor", "g"), "gene_grouped_counter": ("GeneAssignmentExtractor", "g"),
            "transcript_counter": ("TranscriptAssignmentExtractor", "t"), "transcript_grouped_counter": ("TranscriptAssignmentExtractor", "t"),
            "transcript_model_counter": ("TranscriptAssignmentExtractor", "t"), "transcript_model_grouped_counter": ("TranscriptAssignmentExtractor", "t")}
    base = os.path.join(os.path.dirname(os.path.dirname(os.path.abspath(__file__))), ".run")
    os.makedirs(base, exist_ok=True)
    obl = dis = 0
    viol = []
    names = [s.name for s in lrc.CountingStrategy]
    for gq, tq in itertools.product(names, names):
        d = tempfile.mkdtemp(prefix="agg", dir=base)
        try:
            a = Args(_cmd_line="x", _version="v", counts_format="both", genedb="g.db", gene_quantification=gq, transcript_quantification=tq,
                     read_group="file_name", count_exons=True, no_model_construction=False, sqanti_output=False)
            ag = dpm.ReadAssignmentAggregator(a, Sample(d), {"g1", "g2"})
            for attr, (ext, which) in want.items():
                obl += 1
                c = getattr(ag, attr, None)
                e = getattr(c, "assignment_extractor", None)
                ename = e.__name__ if isinstance(e, type) else type(e).__name__
                strat = c.read_counter.strategy.name if c is not None else None
                registered = c is not None and any(c is x for comp in (ag.global_counter, ag.transcript_model_global_counter) for x in comp.counters)
                if c is not None and ename == ext and strat == (gq if which == "g" else tq) and registered:
                    dis += 1
                elif len(viol) < 5:
                    viol.append({"obligation": "C02.aggregator_wiring.%s" % attr, "inputs": {"gene_quantification": gq, "transcript_quantification": tq},
                                 "observed": "%s: extractor %s, strategy %s, registered %s" % (attr, ename, strat, registered),
                                 "required": "%s with the %s strategy" % (ext, "gene" if which == "g" else "transcript")})
        finally:
            shutil.rmtree(d, ignore_errors=True)
    return {"obligations": obl, "discharged": dis, "violations": viol, "cases": obl, "exhaustive": True,
            "bound": "%d x %d strategy pairs x 6 counters" % (len(names), len(names)), "samples": [{"gene": "all", "transcript": "unique_only"}]}


# ---- TPM tables: every column of a count table rescaled to 10^6, ratios kept -------------------------------------------------------------------
_TRAILER = ("__ambiguous", "__no_feature", "__not_aligned")


def _tpm_case(seed):
    import os, random, shutil, tempfile
    rng = random.Random(seed)
    lrc = native.repo_import("src/long_read_counter.py")
    base = os.path.join(os.path.dirname(os.path.dirname(os.path.abspath(__file__))), ".run")
    os.makedirs(base, exist_ok=True)
    d = tempfile.mkdtemp(prefix="tpm", dir=base)
    problems = []
    try:
        grouped = rng.random() < .7
        groups = ["g%d" % k for k in range(rng.randint(2, 4))] if grouped else None
        c = lrc.create_transcript_counter(os.path.join(d, "t"), "with_ambiguous", read_groups=set(groups) if groups else None)
        ncol = len(groups) if grouped else 1
        feats = ["T%d" % k for k in range(rng.randint(1, 6))]
        # identifiers are whatever the annotation uses: a leading underscore, or two, is an identifier like any other (own generator:
        # earlier seeds keep their tables)
        rng2 = random.Random(seed * 613 + 29)
        if rng2.random() < .4:
            feats = [rng2.choice(["%s", "_%s", "__%s", "_", "%s_", "transcript%s.chr1.nic", "__ambiguous_%s"]).replace("%s", f) + ("" if k else "x") for k, f in enumerate(feats)]
            feats = sorted(set(feats), key=lambda f: (rng2.random(), f))
        # counts as the counters produce them: integers and fractions 1/k of shared reads; a column may sum to 0, to less than 1, or to more
        col_kind = [rng.choice(["zero", "fraction", "any", "any"]) for _ in range(ncol)]
        rows = {}
        for f in feats:
            rows[f] = [0.0 if col_kind[j] == "zero" else (rng.choice([0.0, 0.0, 0.25, 1 / 3.0, 0.5]) if col_kind[j] == "fraction"
                                                         else rng.choice([0.0, 0.5, 1.0, 2.0, 7.5, 120.0])) for j in range(ncol)]
        for j in range(ncol):
            if col_kind[j] == "fraction" and sum(rows[f][j] for f in feats) >= 1:
                for f in feats[1:]:
                    rows[f][j] = 0.0
        with open(c.output_counts_file_name, "w") as out:
            out.write(c.format_header(c.ordered_groups if grouped else None))
            for f in feats:
                out.write("%s\t%s\n" % (f, "\t".join("%.2f" % v if not grouped else repr(v) for v in rows[f])))
            if not grouped:
                out.write("__ambiguous\t0\n__no_feature\t0\n__not_aligned\t0\n")
        # the file is what convert_counts_to_tpm reads; parse it back the same way so that rounding in the file is not held against the TPMs
        counts = {}
        for line in open(c.output_counts_file_name):
            if line.startswith("#") or line.split("\t")[0] in _TRAILER:
                continue
            fs = line.rstrip().split("\t")
            counts[fs[0]] = [float(x) for x in fs[1:]]
        c.convert_counts_to_tpm("simple")
        tpm = {}
        for line in open(c.output_tpm_file_name):
            if line.startswith("#") or line.split("\t")[0] in _TRAILER + ("__unassigned",):
                continue
            fs = line.rstrip().split("\t")
            tpm[fs[0]] = [float(x) for x in fs[1:]]
        for j in range(ncol):
            tot = sum(counts[f][j] for f in feats)
            col = [tpm.get(f, [0.0] * ncol)[j] for f in feats]
            if tot > 0:
                if abs(sum(col) - 1e6) > 1e-5 * len(feats) + 1e-3:
                    problems.append("column %d: counts %s (sum %r) give TPMs summing to %r" % (j, [counts[f][j] for f in feats], tot, sum(col)))
                for f, t in zip(feats, col):
                    if abs(t - counts[f][j] * 1e6 / tot) > 1e-3:
                        problems.append("column %d, %s: count %r of %r gives TPM %r" % (j, f, counts[f][j], tot, t))
            elif any(col):
                problems.append("column %d has no counts but TPMs %s" % (j, col))
    finally:
        shutil.rmtree(d, ignore_errors=True)
    return problems


def replay_tpm(d):
    p = _tpm_case(d["inputs"]["seed"])
    return (not p), "seed %s: %s" % (d["inputs"]["seed"], p[:3] or "every column rescaled to 10^6")


@bounded("C02.tpm_rescaling", ["C02"], note="the real convert_counts_to_tpm('simple') of plain and grouped transcript counters on count tables with "
         "integer and fractional (1/k) entries, incl. group columns that sum to 0 or to less than 1: every column with counts sums to 10^6 and "
         "each value is count * 10^6 / column total; a column without counts stays zero; feature identifiers include ones with leading underscores")
def c02_tpm(tier, rng):
    n = 300 if tier == "quick" else 10000
    base = rng.randrange(10 ** 9)
    for k in range(n):
        try:
            p = _tpm_case(base + k)
        except Exception as e:
            p = ["exception %s: %s" % (type(e).__name__, e)]
        if p:
            return {"cases": k + 1, "bound": "%d tables" % n, "violations": [{
                "obligation": "C02.tpm_rescaling", "inputs": {"seed": base + k}, "observed": p[:3], "required": "columns rescaled to 10^6, ratios kept",
                "replay_call": "contracts.c_counters:replay_tpm"}]}
    return {"cases": n, "bound": "%d random count tables" % n, "violations": [], "samples": [{"seed": base}]}


# ---- the gene-level assignment type a read is counted under in the gene tables ------------------------------------------------------------------
@finite("C02.gene_assignment_type", ["C02"], note="the real ReadAssignment constructor for every assignment type and every shape of the matched "
        "isoforms' genes (none, one gene, one gene twice, two genes): the gene-level type stays in the same consistency class as the "
        "assignment type (an inconsistent read is never counted as a consistent one at gene level, and vice versa) and is ambiguous exactly "
        "when the matches name more than one gene")
def c02_gene_type(tier, rng):
    ia = native.repo_import("src/isoform_assignment.py")
    T = ia.ReadAssignmentType
    obl = dis = 0
    viol = []
    shapes = {"none": [], "one": ["g1"], "one_twice": ["g1", "g1"], "two": ["g1", "g2"], "two_and_repeat": ["g1", "g2", "g1"]}
    for t in T:
        for name, genes in shapes.items():
            obl += 1
            ms = [ia.IsoformMatch(ia.MatchClassification.undefined if hasattr(ia.MatchClassification, "undefined") else list(ia.MatchClassification)[0],
                                  g, "%s.t%d" % (g, k)) for k, g in enumerate(genes)]
            ra = ia.ReadAssignment("r", t, ms)
            g = ra.gene_assignment_type
            many = len(set(genes)) > 1
            problems = []
            if g.is_inconsistent() != t.is_inconsistent() or g.is_consistent() != t.is_consistent():
                problems.append("consistency class changes")
            if t in (T.ambiguous, T.inconsistent_ambiguous):
                if g.is_ambiguous() != many:
                    problems.append("ambiguous at gene level = %s with %d distinct gene(s)" % (g.is_ambiguous(), len(set(genes))))
            elif g != t:
                problems.append("a non-ambiguous type is changed")
            if problems:
                viol.append({"obligation": "C02.gene_assignment_type.%s.%s" % (t.name, name), "inputs": {"assignment_type": t.name, "genes_of_matches": genes},
                             "observed": "gene_assignment_type = %s (%s)" % (g.name, "; ".join(problems)),
                             "required": "same consistency class as the assignment type; ambiguous iff more than one gene"})
            else:
                dis += 1
    return {"obligations": obl, "discharged": dis, "violations": viol[:6], "cases": obl, "exhaustive": True,
            "bound": "%d assignment types x %d gene shapes" % (len(list(T)), len(shapes)), "samples": [{"assignment_type": "inconsistent_ambiguous", "genes": ["g1", "g1"], "gene_type": "inconsistent"}]}


# ---- a composite counter hands everything to every member ------------------------------------------------------------------------------------------------
@finite("C02.composite_forwarding", ["C02", "C09"], note="the real CompositeCounter with 1-3 recording members: every forwarding method (add_read_info, "
        "add_read_info_raw, add_confirmed_features, add_unassigned, add_unaligned, dump) reaches every member, with the complete arguments - "
        "for collections (list, tuple, set of feature ids) every member sees all elements")
def c02_composite_forwarding(tier, rng):
    lrc = native.repo_import("src/long_read_counter.py")
    obl = dis = 0
    viol = []

    class Rec:
        def __init__(self):
            self.calls = []

        def __getattr__(self, name):
            def f(*a, **k):
                self.calls.append((name, tuple(sorted(x) if isinstance(x, (list, tuple, set, frozenset)) or hasattr(x, "__next__") else x for x in a),
                                   tuple(sorted(k.items()))))
            return f
    feats = ["transcript1.chr1.nic", "transcript2.chr1.nnic", "ENST1"]
    calls = [("add_read_info", ("ra",), {}), ("add_read_info_raw", ("r1", list(feats), "g1"), {}), ("add_read_info_raw", ("r1", list(feats)), {}),
             ("add_confirmed_features", (list(feats),), {}), ("add_confirmed_features", (tuple(feats),), {}), ("add_confirmed_features", (set(feats),), {}),
             ("add_unassigned", (3,), {}), ("add_unassigned", (), {}), ("add_unaligned", (2,), {}), ("dump", (), {})]
    for n in (1, 2, 3):
        for name, a, k in calls:
            obl += 1
            members = [Rec() for _ in range(n)]
            comp = lrc.CompositeCounter(list(members))
            try:
                getattr(comp, name)(*a, **k)
                got = [m.calls for m in members]
            except Exception as e:
                got = "%s: %s" % (type(e).__name__, e)
            ref = Rec()
            getattr(ref, name)(*a, **k)
            want_args = ref.calls[0][1]
            ok = isinstance(got, list) and all(len(c) == 1 and c[0][0] == name and c[0][1][:len(want_args)] == want_args for c in got)
            if ok:
                dis += 1
            elif len(viol) < 3:
                viol.append({"obligation": "C02.composite_forwarding.%s.%d_members.%s" % (name, n, type(a[0]).__name__ if a else "noargs"),
                             "inputs": {"method": name, "args": [sorted(x) if isinstance(x, set) else x for x in a], "members": n}, "observed": str(got)[:300],
                             "required": "every member receives %s%s once" % (name, want_args)})
    return {"obligations": obl, "discharged": dis, "violations": viol, "cases": obl, "exhaustive": True,
            "bound": "1-3 members x 10 calls", "samples": [{"method": "add_confirmed_features", "members": 2}]}


# ---- the trailer lines of the count tables against the reads reported without a feature ---------------------------------------------------------------
def _trailer_problems():
    """one pipeline run with the bundled annotation on the bundled reads plus 9 reads placed in a stretch without annotated genes (spliced and
    unspliced): __no_feature of gene_counts and transcript_counts equals the number of reads that read_assignments.tsv reports without
    any isoform"""
    import gzip, os, shutil
    import pysam
    from contracts import c_novel

    def prepare(d):
        seq = "".join(l.strip() for l in gzip.open(os.path.join(d, "chr9.4M.fa.gz"), "rt") if not l.startswith(">")).upper()
        inp = pysam.AlignmentFile(os.path.join(d, "chr9.4M.ont.sim.polya.bam"))
        tid = inp.get_tid("chr9")
        recs = [a for a in inp]
        base = 3041000
        for k in range(9):
            ex = [(base + 2000 * k + 100, base + 2000 * k + 600)] if k % 3 else [(base + 2000 * k + 100, base + 2000 * k + 400), (base + 2000 * k + 900, base + 2000 * k + 1300)]
            a = pysam.AlignedSegment(inp.header)
            a.query_name, a.flag, a.reference_id, a.reference_start, a.mapping_quality = "far_%d" % k, 0, tid, ex[0][0] - 1, 60
            cig, s_ = [], ""
            for i, (x, y) in enumerate(ex):
                if i:
                    cig.append((3, x - ex[i - 1][1] - 1))
                cig.append((0, y - x + 1)); s_ += seq[x - 1:y]
            a.cigartuples, a.query_sequence = cig, s_
            a.query_qualities = pysam.qualitystring_to_array("I" * len(s_))
            a.set_tag("NM", 0)
            recs.append(a)
        with pysam.AlignmentFile(os.path.join(d, "far.bam"), "wb", template=inp) as out:
            for a in sorted(recs, key=lambda x: (x.reference_id if x.reference_id >= 0 else 10 ** 9, x.reference_start)):
                out.write(a)
        pysam.index(os.path.join(d, "far.bam"))
        return "far.bam", "chr9.4M.gtf.gz"
    d, p = c_novel._run_pipeline(["--no_model_construction"], True, prepare)
    problems = []
    try:
        if p.returncode != 0:
            return ["isoquant exited %d: %s" % (p.returncode, p.stderr[-300:])]
        out = os.path.join(d, "out", "S")
        per_read = {}
        for line in gzip.open(os.path.join(out, "S.read_assignments.tsv.gz"), "rt"):
            if line.startswith("#"):
                continue
            f = line.rstrip("\n").split("\t")
            per_read.setdefault(f[0], []).append(f[3])
        no_feature = sum(1 for r, isos in per_read.items() if all(i == "." for i in isos))
        far = sum(1 for r in per_read if r.startswith("far_"))
        if far != 9:
            problems.append("%d of the 9 reads placed between the genes are reported" % far)
        for table in ("gene", "transcript"):
            val = None
            for line in open(os.path.join(out, "S.%s_counts.tsv" % table)):
                if line.startswith("__no_feature"):
                    val = int(float(line.split("\t")[1]))
            if val != no_feature:
                problems.append("%s_counts: __no_feature = %s, read_assignments.tsv reports %d reads without an isoform (9 of them placed between the genes)" % (table, val, no_feature))
    finally:
        shutil.rmtree(d, ignore_errors=True)
    return problems


def replay_trailer(d):
    p = _trailer_problems()
    return (not p), "trailer lines: %s" % (p or "equal the reads reported without a feature")


@bounded("C02.trailer_lines", ["C02", "C05"], note="one pipeline run with the bundled annotation on the bundled reads plus 9 reads in a stretch without annotated genes: "
         "__no_feature of the gene and transcript tables equals the number of reads reported without any isoform")
def c02_trailer_lines(tier, rng):
    p = _trailer_problems()
    viol = [{"obligation": "C02.trailer_lines", "inputs": {"scenario": "bundled reads + 9 reads between the genes"}, "observed": p[:3],
             "required": "__no_feature equals the number of reads reported without a feature", "replay_call": "contracts.c_counters:replay_trailer"}] if p else []
    return {"cases": 1, "bound": "1 pipeline run", "violations": viol, "samples": [{"reads_between_genes": 9}]}
