"""usage: make_seed_prompts.py <worktree-prefix, e.g. /tmp/seedh_>  - writes /tmp/prop_<id>.json, /tmp/seed_prompt_<id>.txt, creates worktrees"""
import json, os, re, collections, subprocess, sys
prefix = sys.argv[1]
props={json.loads(l)['id']:json.loads(l) for l in open('/verif/properties.jsonl')}
claimed=["C01","C02","C03","C04","C05","C08","C09","C10","C11","C12","C13","C14","C15","C16","C17","C18","C19"]
used=collections.defaultdict(list)
for sid in sorted(os.listdir('/verif/seeded')):
    p=os.path.join('/verif/seeded',sid,'patch.diff')
    if not os.path.exists(p): continue
    pid=sid.split('_')[0]
    files=[];funcs=set()
    for l in open(p):
        if l.startswith('+++ b/'): files.append(l[6:].strip())
        m=re.match(r'@@ .* @@\s*(.*)',l)
        if m and m.group(1): funcs.add(m.group(1).strip()[:70])
    used[pid].append("%s (%s; %s)" % (sid[len(pid)+1:].replace('_',' '), ", ".join(files), "; ".join(sorted(funcs))))
fresh={
"C01":"LongReadAssigner.match_consistent / resolving ambiguity between several matching isoforms (non-intronic features, exon overlap, polyA, mono-exonic reads), JunctionComparator.compare_junctions for intron retention / exon skipping / alternative site classification and the delta comparisons there, classify_single_intron_alternation, mono-exon read handling (get_mono_exon_subtype), profile construction for split exons",
"C02":"TPM normalisation (convert_counts_to_tpm, --normalization_method usable_reads vs simple), the __ambiguous/__no_feature/__not_aligned bookkeeping in AssignedFeatureCounter.add_read_info, gene counts for reads ambiguous between isoforms of one gene vs several genes, output of zero rows (output_zeroes / complete feature list), the linear grouped format",
"C03":"exon numbering / order of exon records on the minus strand, attributes copied from the reference (feature_attributes), GeneInfo.from_models / from_model, reference features (CDS, start/stop codons) printed with reference transcripts, create_extended_storage and the extended annotation printing order, transcript ids of reference transcripts in extended_annotation.gtf",
"C04":"intron_graph.py cleaning of tips and bulges (clean_tips / clean_bulges / simplify), significance thresholds of introns (min counts / relative coverage), IntronPathProcessor path enumeration, model filters in graph_based_model_construction (mono-exonic novel models, filter by coverage, novel_monoexon handling), which reads are listed for a model in transcript_model_reads (assign_reads_to_models)",
"C05":"BAMAlignmentStorage (default memory mode) fetch regions and counters, AbstractAlignmentStorage.alignment_is_not_adjacent, coverage valley search inside split_coverage_regions (MIN_READS_TO_SPLIT / MAX_REGION_LEN constants), alignment statistics (AlignmentType counting, merge of per-chromosome statistics, log lines), reads bridging several genes / get_gene_info_for_region",
"C08":"MultimapResolver.select_best_assignment for strategy take_best vs ignore_secondary/merge, resolve() result flags (multimapper, suppressed / ambiguous type rewriting), prepare_multimapper_dict / resolve_multimappers in DatasetProcessor (per-chromosome dictionaries, loading order), BasicReadAssignment construction from a ReadAssignment",
"C09":"AlignmentTagReadGrouper / ReadIdSplitReadGrouper / parse of the --read_group option (spec strings with several colons, column indexes, delimiters), grouped count output formats (matrix vs linear vs both, --counts_format), conversion of linear grouped counts, group columns order, grouped TPM tables",
"C10":"per-experiment state in DatasetProcessor.process_all_samples / process_sample (anything cached on self, on classes or in modules between experiments), the combined_* tables, labels and prefixes of experiments from list files / yaml, clean-up of aux files between experiments, --resume / --keep_tmp interplay with several experiments",
"C11":"left/right twin code in LongReadAssigner (check_read_ends, categorize_exon_elongation_subtype callers, tss vs tes checks), JunctionComparator terminal handling (get_mono_exon_subtype, terminal exon checks), AlignmentInfo / PolyAFixer twin branches, corrector twin branches (correct_read ends), intron graph start/end vertex thresholds",
"C12":"gtf2db.py conversion options (--complete_genedb vs inferred records, disable_infer_genes/transcripts, check_input_gtf, db reuse config json), gzipped vs plain GTF detection, merging of several BAMs of one experiment in dataset_processor / input_data_storage (index checks, file order, labels)",
"C13":"GeneInfo.set_feature_properties (flags, gene lists, strands of features), restoration of profiles in the second pass (ReadAssignment (de)serialization of exon_gene_profile / intron_gene_profile, gene_info association), grouped exon/intron tables, merge of per-chromosome exon/intron tables, reads overlapping several genes",
"C14":"ExonCorrector.correct_read (intergenic path), which isoform the correction of an ambiguous read is based on, BED printing of strand / thick coordinates / colour / block count for corrected vs uncorrected reads, exons column of read_assignments.tsv vs corrected_reads.bed, reads whose correction yields fewer exons",
"C15":"nested records: MatchEvent fields with negative / sentinel coordinates, PolyAInfo, the additional_info / additional_attributes dicts, exon/intron gene profiles (lists of -2..1), read_group, strands; the --read_assignments / --resume reuse path (which files are read, chromosome order, multimapper dictionaries); TmpFileAssignmentLoader record interleaving",
"C16":"correct_bam_coords, concat of adjacent blocks in get_read_blocks (I/D/=/X/P handling), junctions_from_blocks, AlignmentInfo construction (read_blocks vs cigar_blocks consistency), get_error_count regions, PolyAFixer.correct_read_info thresholds, count_polya_exons / count_polyt_exons boundary cases",
"C17":"novel transcript / gene numbering across chromosomes and threads (id distributors per chromosome, chromosome name in ids), suffixes .nic/.nnic vs ids in counts / reads tables, ids of known transcripts reported as models, second run on an extended annotation (ExcludingIdDistributor parsing of previously generated ids for genes vs transcripts)",
"C18":"Canonical attribute of transcript models (add_canonical_info_for_model / model attributes), strand of mono-exonic and of polyA-only models, handling of N / non-ACGT bases at splice sites, introns at the very start / end of the fetched reference window, get_assignment_strand for reads (which strand a read's Canonical flag is computed on)",
"C19":"interval helpers of common.py not yet touched: overlaps / contains / covers_start / covers_end / equal_ranges / intersection_len / overlap_intervals / left_of / right_of / max_range / find_closest / rindex / rreplace-free helpers, difference_in_present_features, is_subprofile / contains_well_inside callers, get_exons / following_exon / preceding exon helpers",
}
T=open('/verif/scratch/seed_prompt.tmpl').read()
for pid in claimed:
    wt="%s%s"%(prefix,pid)
    json.dump(props[pid],open('/tmp/prop_%s.json'%pid,'w'),indent=1)
    open('/tmp/seed_prompt_%s.txt'%pid,'w').write(T.format(wt=wt,pid=pid,used="\n".join("  - "+u for u in used[pid]),fresh=fresh[pid]))
    subprocess.run(["git","-C","/repo","worktree","add","--detach",wt,"HEAD"],capture_output=True)
print("ok")
