"""Scenario library (bounded stand-in for every property): the demonstrations under /verif/seeded/<id>/demo.py.

Each demonstration was written by an independent agent for one seeded change: it builds its own inputs (synthetic references, GTFs, BAMs, or
direct calls of the real classes), drives the REAL code of the tree under check - most of them the whole `isoquant.py` pipeline - and tests
the property's own sentence on the outputs (recounts from the BED / assignment tables, mirror-image data sets, stand-alone vs joint runs,
...).  All of them pass on the unchanged tree; each fails on the change it was written for.  They are kept as regression scenarios because
most of them exercise paths no contract reaches (YAML parsing, per-chromosome merges, model-level filters, the temp-file stream).
They are bounded checks of a handful of scenarios, never counted as proved."""
import json
import os
import subprocess
import sys

from pyvc.api import bounded
from pyvc import front

VERIF = os.path.dirname(os.path.dirname(os.path.abspath(__file__)))
SEEDED = os.path.join(VERIF, "seeded")
EXTRA = os.path.join(VERIF, "scenarios")  # scenarios that do not belong to a seeded change (baseline observations of the seed authors, repaired since)
SLOW_S = 8.0  # demonstrations slower than this on the unchanged tree run in the thorough tier only


def _dir(sid):
    return os.path.join(SEEDED, sid) if os.path.exists(os.path.join(SEEDED, sid, "demo.py")) else os.path.join(EXTRA, sid)


def _all_ids():
    ids = set()
    for root in (SEEDED, EXTRA):
        if os.path.isdir(root):
            ids.update(sid for sid in os.listdir(root) if os.path.exists(os.path.join(root, sid, "demo.py")))
    return ids


def _scenarios(pid):
    out = []
    for sid in sorted(_all_ids()):
        if not sid.startswith(pid + "_"):
            continue
        secs = None
        mp = os.path.join(_dir(sid), "meta.json")
        if os.path.exists(mp):
            try:
                secs = json.load(open(mp)).get("demo_seconds_on_clean_tree")
            except Exception:
                secs = None
        out.append((sid, secs))
    return out


def run_scenario(sid, timeout=900):
    """the demonstration runs inside a mirror directory of symlinks to the tree under check, as <mirror>/_seed/demo.py with cwd = <mirror>:
    demonstrations locate the project either relative to the cwd or relative to their own path"""
    import shutil
    import tempfile
    base = os.path.join(VERIF, ".run")
    os.makedirs(os.path.join(base, "demo_home"), exist_ok=True)
    m = tempfile.mkdtemp(prefix="scn_%s_" % sid, dir=base)
    try:
        os.makedirs(os.path.join(m, "_seed"))
        os.makedirs(os.path.join(m, "_tmp"))  # demonstrations' temporary directories live and die with the mirror
        os.makedirs(os.path.join(m, "_home"))  # one home per scenario: isoquant keeps a json index of converted annotations there
        for f in os.listdir(front.REPO):
            if f.startswith(".git") or f in ("_seed", "_tmp", "_home"):
                continue
            if f == "tests":
                # copied, not linked: tools write index files (.fai / .gzi / .bai / .db) next to the bundled data they read
                shutil.copytree(os.path.join(front.REPO, f), os.path.join(m, f), symlinks=True)
                continue
            os.symlink(os.path.join(front.REPO, f), os.path.join(m, f))
        for f in os.listdir(_dir(sid)):
            if f.endswith(".py"):
                shutil.copy(os.path.join(_dir(sid), f), os.path.join(m, "_seed", f))
        env = dict(os.environ, HOME=os.path.join(m, "_home"), TMPDIR=os.path.join(m, "_tmp"), PYTHONDONTWRITEBYTECODE="1")
        env.pop("PYTHONPATH", None)
        py = "/venv/bin/python" if os.path.exists("/venv/bin/python") else sys.executable
        try:
            p = subprocess.run([py, "_seed/demo.py"], cwd=m, env=env, capture_output=True, text=True, timeout=timeout)
            rc, out = p.returncode, (p.stdout + "\n" + p.stderr)
        except subprocess.TimeoutExpired:
            rc, out = 124, "timed out after %d s" % timeout
    finally:
        shutil.rmtree(m, ignore_errors=True)
    lines = [l for l in out.splitlines() if l.strip() and "SyntaxWarning" not in l and "file_names.sort" not in l]
    return rc, lines


def _report(lines):
    """the demonstration's own findings: the lines after its FAIL marker"""
    for i, l in enumerate(lines):
        if l.strip().startswith("FAIL"):
            return [x.strip() for x in lines[i + 1:i + 13]]
    return []


def kf_hash_read_names(inputs):
    """known-finding class: scenario C05_hash_read_names fails, and everything it reports is reads missing from read_assignments.tsv
    whose names all start with '#' (no unexpected reads, no other table, no duplicate records, no statistics mismatch)"""
    import re
    if not isinstance(inputs, dict) or inputs.get("scenario") != "C05_hash_read_names" or not inputs.get("report"):
        return False
    for line in inputs["report"]:
        m = re.match(r".* read_assignments\.tsv: \d+ distinct reads reported, \d+ input reads pass the filters \(missing \[(.*)\], unexpected \[\]\)$", line)
        if not m or not all(n.strip().strip("'\"").startswith("#") for n in m.group(1).split(",") if n.strip()):
            return False
    return True


def kf_hash_chromosome_name(inputs):
    """known-finding class: scenario C03_hash_chromosome_name fails, and what it reports is that the run on the chromosome named '#1' has NO
    model at all in transcript_models.gtf while the same reads on 'c1' have some (every record of that chromosome starts with '#')"""
    import re
    if not isinstance(inputs, dict) or inputs.get("scenario") != "C03_hash_chromosome_name" or not inputs.get("report"):
        return False
    rep = [l for l in inputs["report"] if l.strip()]
    return len(rep) == 2 and re.match(r"models for chromosome 'c1': [1-9]\d*$", rep[0]) is not None and rep[1] == "models for chromosome '#1': 0"


def kf_feature_rows_in_split_region(inputs):
    """known-finding class: scenario C13_feature_rows_in_split_region fails, and every line it reports is a row whose strand and gene list are a
    non-empty proper part of what the annotation has for that feature (the genes of one piece of a split region), never a wrong or a second row"""
    import re
    if not isinstance(inputs, dict) or inputs.get("scenario") != "C13_feature_rows_in_split_region" or not inputs.get("report"):
        return False
    for line in inputs["report"]:
        m = re.match(r"(exon|intron) \d+-\d+: row has strand '([+-]+)' genes '([^']+)', annotation has strand '([+-]+)' genes '([^']+)'$", line.strip())
        if not m:
            return False
        if not (set(m.group(2)) < set(m.group(4)) or set(m.group(2)) == set(m.group(4))) or not set(m.group(3).split(",")) < set(m.group(5).split(",")):
            return False
    return True


def kf_read_across_cut_two_genes(inputs):
    """known-finding class: scenario C05_read_across_cut_two_genes fails, and everything it reports is ONE extra, identical corrected_reads.bed
    record of the one read (V_000) that lies across the cut between two pieces with different genes"""
    import re
    if not isinstance(inputs, dict) or inputs.get("scenario") != "C05_read_across_cut_two_genes" or not inputs.get("report"):
        return False
    for line in inputs["report"]:
        m = re.match(r"\[.*\] corrected_reads\.bed has (\d+) records for (\d+) input primary alignments$", line)
        if m:
            if int(m.group(1)) != int(m.group(2)) + 1:
                return False
            continue
        if not re.match(r"\[.*\] identical BED record written 2 times: chr1\t36600\t37600\tV_000\t", line):
            return False
    return True


def replay_scenario(d):
    sid = d["inputs"]["scenario"]
    rc, lines = run_scenario(sid)
    return rc == 0, "scenario %s: exit %d; %s" % (sid, rc, " | ".join(lines[-6:]))


def _make(pid):
    def check(tier, rng):
        from concurrent.futures import ThreadPoolExecutor
        todo = [(sid, secs) for sid, secs in _scenarios(pid) if tier != "quick" or secs is None or secs <= SLOW_S]
        skipped = [sid for sid, secs in _scenarios(pid) if (sid, secs) not in todo]
        viol = []
        with ThreadPoolExecutor(max_workers=4) as ex:
            results = list(ex.map(lambda s: (s[0],) + run_scenario(s[0]), todo))
        flaky = []
        for sid, rc, lines in results:
            if rc == 0:
                continue
            # a failure must repeat (alone, not next to three other pipelines) before it is reported: a scenario that fails once and
            # passes on the same tree is listed in the evidence as not reproducible, not raised as an alarm
            rc2, lines2 = run_scenario(sid)
            if rc2 == 0:
                flaky.append(sid)
                continue
            rc, lines = rc2, lines2
            v = {"obligation": "%s.scenarios.%s" % (pid, sid), "inputs": {"scenario": sid, "report": _report(lines)}, "observed": lines[-12:],
                 "required": "the demonstration's checks of the property's sentence pass (exit 0)", "replay_call": "contracts.c_scenarios:replay_scenario"}
            if rc != 1:
                # not the demonstration's own verdict (crash, time-out, environment): reported, but not as a violation
                v["undecided"] = True
                v["observed"] = ["exit code %d" % rc] + lines[-8:]
            viol.append(v)
        return {"cases": len(todo), "bound": "%d scenario(s): %s%s" % (len(todo), ", ".join(s for s, _ in todo),
                                                                       ("; thorough tier only: " + ", ".join(skipped)) if skipped else ""),
                "violations": viol, "samples": ([{"scenario": todo[0][0]}] if todo else []) + ([{"failed_once_then_passed": flaky}] if flaky else [])}
    return check


for _pid in sorted({sid.split("_")[0] for sid in _all_ids()}):
    if _scenarios(_pid):
        bounded("%s.scenarios" % _pid, [_pid],
                note="scenario library: %d demonstration(s) written by independent agents for seeded changes; each builds its inputs, drives the "
                     "real code (mostly the whole pipeline) of the tree under check and tests the property's sentence on the outputs; a failure "
                     "is reported when it repeats in a second run; bounded to these scenarios" % len(_scenarios(_pid)))(_make(_pid))
