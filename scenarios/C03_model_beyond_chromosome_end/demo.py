#!/usr/bin/env python3
"""
Side observation at baseline for property C03 (sentence: exons satisfy 1 <= start <= end <= chromosome length).

With --report_novel_unspliced true a novel mono-exonic transcript takes its 3' end from the position of the polyA
tail (PolyAInfo.external_polya_pos), which is reference_end + (number of soft-clipped non-A bases before the tail).
Reads aligned up to the last base of a chromosome with a few clipped bases in front of the polyA tail therefore give
a transcript whose exon ends beyond the end of the chromosome; nothing validates the right coordinate
(validate_exons only checks 0 < start <= end).

exit 1: an exon beyond the chromosome end (or any coordinate problem) is reported; exit 0 + PASS otherwise.
"""
import os
import random
import shutil
import subprocess
import sys
import tempfile

import pysam

ROOT = os.path.dirname(os.path.dirname(os.path.abspath(__file__)))
CHR_LEN = 5000
REF_EXONS = [(501, 800), (1201, 1500)]


def main():
    tmp_dir = tempfile.mkdtemp(prefix="c03_side_")
    try:
        rnd = random.Random(5)
        seq = [rnd.choice("CGT") if i > CHR_LEN - 900 else rnd.choice("ACGT") for i in range(CHR_LEN)]
        seq[800:802] = "GT"
        seq[1198:1200] = "AG"
        genome = "".join(seq)
        fasta = os.path.join(tmp_dir, "ref.fa")
        with open(fasta, "w") as f:
            f.write(">chr1\n")
            for i in range(0, CHR_LEN, 60):
                f.write(genome[i:i + 60] + "\n")
        gtf = os.path.join(tmp_dir, "ann.gtf")
        with open(gtf, "w") as f:
            f.write('chr1\tref\tgene\t501\t1500\t.\t+\t.\tgene_id "G1";\n')
            f.write('chr1\tref\ttranscript\t501\t1500\t.\t+\t.\tgene_id "G1"; transcript_id "T1";\n')
            for (s, e) in REF_EXONS:
                f.write('chr1\tref\texon\t%d\t%d\t.\t+\t.\tgene_id "G1"; transcript_id "T1";\n' % (s, e))

        header = pysam.AlignmentHeader.from_dict({"HD": {"VN": "1.0", "SO": "coordinate"},
                                                  "SQ": [{"SN": "chr1", "LN": CHR_LEN}]})
        bam = os.path.join(tmp_dir, "reads.bam")
        with pysam.AlignmentFile(bam, "wb", header=header) as out:
            for i in range(10):
                a = pysam.AlignedSegment(header)
                a.query_name = "end_%d" % i
                start = 4201                                   # 1-based, the read is aligned up to the last base
                clipped = "CGTCG" + "A" * 30                   # 5 clipped non-A bases, then the polyA tail
                a.query_sequence = genome[start - 1:CHR_LEN] + clipped
                a.flag = 0
                a.reference_id = 0
                a.reference_start = start - 1
                a.mapping_quality = 60
                a.cigartuples = [(0, CHR_LEN - start + 1), (4, len(clipped))]
                a.query_qualities = pysam.qualitystring_to_array("I" * len(a.query_sequence))
                out.write(a)
        pysam.index(bam)

        out_dir = os.path.join(tmp_dir, "out")
        cmd = [sys.executable, os.path.join(ROOT, "isoquant.py"), "--reference", fasta, "--genedb", gtf,
               "--complete_genedb", "--bam", bam, "--data_type", "nanopore", "-o", out_dir, "-p", "side",
               "--threads", "1", "--report_novel_unspliced", "true"]
        env = dict(os.environ, HOME=tmp_dir, PYTHONDONTWRITEBYTECODE="1", PYTHONWARNINGS="ignore")
        run = subprocess.run(cmd, env=env, cwd=tmp_dir, capture_output=True, text=True)
        if run.returncode != 0:
            print("isoquant.py failed with exit code %d" % run.returncode)
            print(run.stdout[-3000:])
            print(run.stderr[-3000:])
            return 2

        errors = []
        exon_count = 0
        for fname in ["side.transcript_models.gtf", "side.extended_annotation.gtf"]:
            for line in open(os.path.join(out_dir, "side", fname)):
                if line.startswith("#"):
                    continue
                v = line.split("\t")
                if v[2] != "exon":
                    continue
                exon_count += 1
                start, end = int(v[3]), int(v[4])
                if not (1 <= start <= end <= CHR_LEN):
                    errors.append("%s: exon %d-%d on %s (length %d): %s" %
                                  (fname, start, end, v[0], CHR_LEN, v[8].strip()))
        if errors:
            print("FAIL: exon coordinates outside of the chromosome")
            for e in errors:
                print("  - " + e)
            return 1
        print("PASS: %d exon records, all within 1..%d" % (exon_count, CHR_LEN))
        return 0
    finally:
        shutil.rmtree(tmp_dir, ignore_errors=True)


if __name__ == "__main__":
    sys.exit(main())
