"""Contracts for exon / intron inclusion-exclusion counting and read profiles (C13)."""
import ast
from pyvc.api import contract, spec, lemma, record, finite, bounded
from pyvc import native, front

L = "src/long_read_counter.py:"
IV = "tuple[int,int]"
IVS = "list[tuple[int,int]]"
CLASS_HOME = {"ProfileFeatureCounter": "src/long_read_counter.py", "FeatureInfo": "src/gene_info.py",
              "AbstractReadGrouper": "src/read_groups.py"}

# the id of a feature row is the feature itself (chromosome, start, end, strand)
record("FeatureInfoP", {"id": "tuple[str,int,int,str]", "start": "int", "end": "int"})
record("ProfileFeatureCounter", {
    "inclusion_feature_counter": "defaultdict[tuple[str,int,int,str],rec:IncrementalDict,'new']",
    "exclusion_feature_counter": "defaultdict[tuple[str,int,int,str],rec:IncrementalDict,'new']",
    "feature_name_dict": "dict[tuple[str,int,int,str],str]", "group_numeric_ids": "dict[str,int]", "current_group_id": "int"})

contract("src/gene_info.py:FeatureInfo.to_str", {"self": "rec:FeatureInfoP"}, returns="str", trusted=True, props=[], ensures=[], native=False,
         note="string formatting of the feature row; content covered by the bounded check C13.recount")


@spec("defaultdict[tuple[str,int,int,str],rec:IncrementalDict,'new'], tuple[str,int,int,str], int -> real")
def pc(fc, f, g):
    return fc[f].data[g] if (f in fc and g in fc[f].data) else 0


def _gen_profile(rng, n):
    lrc = native.repo_import("src/long_read_counter.py")
    import types, os, tempfile
    base = os.path.join(os.path.dirname(os.path.dirname(os.path.abspath(__file__))), ".run")
    os.makedirs(base, exist_ok=True)
    for _ in range(n):
        c = lrc.ProfileFeatureCounter.__new__(lrc.ProfileFeatureCounter)
        from collections import defaultdict, OrderedDict
        c.inclusion_feature_counter = defaultdict(lambda: lrc.IncrementalDict(int))
        c.exclusion_feature_counter = defaultdict(lambda: lrc.IncrementalDict(int))
        c.feature_name_dict = OrderedDict()
        groups = rng.sample(["NA", "a", "b"], rng.randint(0, 2))
        c.group_numeric_ids = {g: i + 1 for i, g in enumerate(groups)}
        c.current_group_id = len(groups) + 1
        k = rng.randint(0, 5)
        ids = [("chr1", 10 * i, 10 * i + 5, rng.choice("+-")) for i in rng.sample(range(1, 20), k)]
        fmap = [types.SimpleNamespace(id=i, start=i[1], end=i[2], to_str=(lambda i=i: "f%d" % i[1])) for i in ids]
        for i in ids:
            if rng.random() < .4:
                c.inclusion_feature_counter[i].inc(rng.randint(1, 2), rng.randint(1, 3))
            if rng.random() < .3:
                c.exclusion_feature_counter[i].inc(rng.randint(1, 2))
        yield {"self": c, "gene_feature_profile": [rng.choice([-2, -1, 0, 1]) for _ in range(k)], "feature_property_map": fmap,
               "read_group": rng.choice(groups + ["new_group"])}


contract(L + "ProfileFeatureCounter.add_read_info_from_profile",
         {"self": "rec:ProfileFeatureCounter", "gene_feature_profile": "list[int]", "feature_property_map": "list[rec:FeatureInfoP]",
          "read_group": "str"}, returns="none", props=["C13"],
         bind={"FeatureInfoP.to_str": "src/gene_info.py:FeatureInfo.to_str"},
         modifies=["self.inclusion_feature_counter", "self.exclusion_feature_counter", "self.feature_name_dict", "self.group_numeric_ids",
                   "self.current_group_id"],
         requires=["len(gene_feature_profile) == len(feature_property_map)",
                   # the features of one gene_info are pairwise distinct (FeatureProfiles.features is a duplicate-free list), hence so are their ids
                   "all(feature_property_map[a].id != feature_property_map[b].id for a in range(len(feature_property_map)) for b in range(a + 1, len(feature_property_map)))",
                   # group ids handed out so far are distinct and below the next free id
                   "all(self.group_numeric_ids[g] < self.current_group_id for g in self.group_numeric_ids)",
                   "all(self.group_numeric_ids[g1] != self.group_numeric_ids[g2] for g1 in self.group_numeric_ids for g2 in self.group_numeric_ids if g1 != g2)"],
         ensures=[
             # the read's group has an id, ids stay injective
             "read_group in self.group_numeric_ids",
             "all(g in self.group_numeric_ids and self.group_numeric_ids[g] == old(self.group_numeric_ids)[g] for g in old(self.group_numeric_ids))",
             "all(self.group_numeric_ids[g] < self.current_group_id for g in self.group_numeric_ids)",
             "all(self.group_numeric_ids[g1] != self.group_numeric_ids[g2] for g1 in self.group_numeric_ids for g2 in self.group_numeric_ids if g1 != g2)",
             # include += [profile == 1], exclude += [profile == -1], for the feature of each position, under the read's group
             "all(pc(self.inclusion_feature_counter, feature_property_map[i].id, self.group_numeric_ids[read_group]) == "
             "pc(old(self.inclusion_feature_counter), feature_property_map[i].id, self.group_numeric_ids[read_group]) + (1 if gene_feature_profile[i] == 1 else 0) "
             "for i in range(len(gene_feature_profile)))",
             "all(pc(self.exclusion_feature_counter, feature_property_map[i].id, self.group_numeric_ids[read_group]) == "
             "pc(old(self.exclusion_feature_counter), feature_property_map[i].id, self.group_numeric_ids[read_group]) + (1 if gene_feature_profile[i] == -1 else 0) "
             "for i in range(len(gene_feature_profile)))",
             # nothing else changes: other groups of these features, and every other feature
             "all(pc(self.inclusion_feature_counter, f, h) == pc(old(self.inclusion_feature_counter), f, h) "
             "for f in self.inclusion_feature_counter for h in self.inclusion_feature_counter[f].data "
             "if h != self.group_numeric_ids[read_group] or not any(feature_property_map[i].id == f for i in range(len(feature_property_map))))",
             "all(pc(self.exclusion_feature_counter, f, h) == pc(old(self.exclusion_feature_counter), f, h) "
             "for f in self.exclusion_feature_counter for h in self.exclusion_feature_counter[f].data "
             "if h != self.group_numeric_ids[read_group] or not any(feature_property_map[i].id == f for i in range(len(feature_property_map))))"],
         loops={0: {"inv": [
             "all(pc(self.inclusion_feature_counter, feature_property_map[i].id, group_id) == "
             "pc(old(self.inclusion_feature_counter), feature_property_map[i].id, group_id) + (1 if (i < _k0 and gene_feature_profile[i] == 1) else 0) "
             "for i in range(len(gene_feature_profile)))",
             "all(pc(self.exclusion_feature_counter, feature_property_map[i].id, group_id) == "
             "pc(old(self.exclusion_feature_counter), feature_property_map[i].id, group_id) + (1 if (i < _k0 and gene_feature_profile[i] == -1) else 0) "
             "for i in range(len(gene_feature_profile)))",
             "all(pc(self.inclusion_feature_counter, f, h) == pc(old(self.inclusion_feature_counter), f, h) "
             "for f in self.inclusion_feature_counter for h in self.inclusion_feature_counter[f].data "
             "if h != group_id or not any(feature_property_map[i].id == f for i in range(len(feature_property_map))))",
             "all(pc(self.exclusion_feature_counter, f, h) == pc(old(self.exclusion_feature_counter), f, h) "
             "for f in self.exclusion_feature_counter for h in self.exclusion_feature_counter[f].data "
             "if h != group_id or not any(feature_property_map[i].id == f for i in range(len(feature_property_map))))"],
             "locals": {"feature_id": "tuple[str,int,int,str]"}}},
         gen=_gen_profile, shards=6, timeout=30000)


@finite("C13.counter_wiring", ["C13"], note="ExonCounter.add_read_info passes the exon profile with the exon property map, IntronCounter "
        "the intron profile with the intron property map, each under the read's group (NA when groups are ignored); read from the AST")
def c13_wiring(tier, rng):
    obl = dis = 0
    viol = []
    for cname, prof, pmap in (("ExonCounter", "exon_gene_profile", "exon_property_map"), ("IntronCounter", "intron_gene_profile", "intron_property_map")):
        obl += 1
        try:
            fdef, _, _ = front.find_def("src/long_read_counter.py:%s.add_read_info" % cname)
            calls = [n for n in ast.walk(fdef) if isinstance(n, ast.Call) and isinstance(n.func, ast.Attribute) and n.func.attr == "add_read_info_from_profile"]
            ok = len(calls) == 1 and ast.unparse(calls[0].args[0]) == "read_assignment." + prof and \
                ast.unparse(calls[0].args[1]) == "read_assignment.gene_info." + pmap and ast.unparse(calls[0].args[2]) == "group_id"
            detail = ast.unparse(calls[0]) if calls else "no call"
        except front.Missing as e:
            ok, detail = False, str(e)
        if ok:
            dis += 1
        else:
            viol.append({"obligation": "C13.wiring.%s" % cname, "inputs": None, "observed": detail,
                         "required": "add_read_info_from_profile(read_assignment.%s, read_assignment.gene_info.%s, group_id)" % (prof, pmap)})
    return {"obligations": obl, "discharged": dis, "violations": viol, "cases": obl, "exhaustive": True, "bound": "2 counters",
            "samples": [{"counter": "ExonCounter"}]}


@finite("C13.constructor_wiring", ["C13", "C01"], note="the production wiring CombinedProfileConstructor(gene_info, params) for the four matching "
        "presets: the intron and exon comparators agree with equal_ranges(.., delta) on a grid of interval pairs around the tolerance, and the "
        "intron absence condition holds for every (read span, intron) pair that shares at least params.minimal_intron_absence_overlap bases "
        "and fails for every pair that does not overlap (behavioural: the callables are applied, their construction is not inspected)")
def c13_constructor_wiring(tier, rng):
    from contracts import pipeline_harness as H
    lrp = native.repo_import("src/long_read_profiles.py")
    com = native.repo_import("src/common.py")
    obl = dis = cases = 0
    viol = []
    for matching in ("exact", "precise", "default", "loose"):
        params = H.make_params("default_ont", matching)
        gi = H.gene_info_of([("T1", "+", [(1000, 1100), (2000, 2100), (3000, 3100)])], params.delta)
        cpc = lrp.CombinedProfileConstructor(gi, params)
        d, m = params.delta, params.minimal_intron_absence_overlap
        bad = {"intron comparator": None, "exon comparator": None, "intron absence (overlap >= %d)" % m: None, "intron absence (disjoint)": None}
        base = (5000, 5400)
        offs = sorted({0, 1, -1, d, -d, d + 1, -d - 1, 2 * d + 1})
        for da in offs:
            for db in offs:
                cases += 1
                other = (base[0] + da, base[1] + db)
                want = abs(da) <= d and abs(db) <= d
                for nm, ctor in (("intron comparator", cpc.intron_profile_constructor), ("exon comparator", cpc.exon_profile_constructor)):
                    if bool(ctor.comparator(other, base)) != want or bool(ctor.comparator(base, other)) != want:
                        bad[nm] = bad[nm] or {"a": other, "b": base, "delta": d, "got": bool(ctor.comparator(other, base)), "required": want}
        intron = (5000, 5400)
        for ov in sorted({1, m - 1, m, m + 1, 2 * m, 100, 400, 401}):
            for side in ("left", "right", "inside"):
                cases += 1
                if side == "left":      # span ends ov bases inside the intron
                    span = (4000, intron[0] + ov - 1)
                elif side == "right":   # span starts ov bases before the intron's end
                    span = (intron[1] - ov + 1, 6000)
                else:
                    span = (intron[0] + 10, min(intron[1] - 1, intron[0] + 10 + ov - 1))
                shared = min(span[1], intron[1]) - max(span[0], intron[0]) + 1
                got = bool(cpc.intron_profile_constructor.absence_condition(span, intron))
                if shared >= m and not got:
                    k = "intron absence (overlap >= %d)" % m
                    bad[k] = bad[k] or {"span": span, "intron": intron, "shared_bases": shared, "got": got, "required": True}
        for span in ((4000, 4999), (5401, 6000), (100, 200)):
            cases += 1
            if cpc.intron_profile_constructor.absence_condition(span, intron):
                bad["intron absence (disjoint)"] = {"span": span, "intron": intron, "got": True, "required": False}
        for nm, w in bad.items():
            obl += 1
            if w is None:
                dis += 1
            else:
                viol.append({"obligation": "C13.constructor_wiring.%s.%s" % (matching, nm.split(" (")[0].replace(" ", "_")), "inputs": w,
                             "observed": "%s: %s" % (nm, w), "required": "as documented in the property (within delta / overlapped by the read's span)"})
    return {"obligations": obl, "discharged": dis, "violations": viol, "cases": cases, "exhaustive": True,
            "bound": "4 presets x (64 comparator pairs + 27 span/intron pairs)", "samples": [{"matching": "default", "span": (4000, 5019), "intron": (5000, 5400)}]}


# ---- profile semantics (two-pointer sweep with a dict of lists): bounded-exhaustive against the property's definitions -------------------
def _profile_oracle_problems(kind, known, read, delta, gene_profile, read_profile):
    """what the property says, in the directions that hold for every input:
    1  => some read feature matches the annotated feature within delta at both ends
    -1 => the read's span covers the position of the feature (spanned, or between two read features), and no read feature is its chosen match
    0  => the feature lies outside the part of the read that can speak about it"""
    problems = []
    if not read:
        return problems
    if kind == "intron":
        mapped = None  # introns: overlapped by the read's span; computed by the caller
    for i, f in enumerate(known):
        g = gene_profile[i]
        matches = [r for r in read if abs(r[0] - f[0]) <= delta and abs(r[1] - f[1]) <= delta]
        if g == 1 and not matches:
            problems.append("%s %s marked present but no read feature matches it within %d" % (kind, f, delta))
        if g not in (1, 0, -1, -2):
            problems.append("illegal profile value %r" % g)
    for j, r in enumerate(read):
        matches = [f for f in known if abs(r[0] - f[0]) <= delta and abs(r[1] - f[1]) <= delta]
        if read_profile[j] == 1 and not matches:
            problems.append("read %s %s marked matched without an annotated match" % (kind, r))
        # the converse, in the one form that holds whatever the sizes of the features: a read feature IDENTICAL to an annotated one
        # is always found (however the annotated features nest or overlap)
        if tuple(r) in [tuple(f) for f in known]:
            i = [tuple(f) for f in known].index(tuple(r))
            if gene_profile[i] not in (1, -2) or read_profile[j] != 1:
                problems.append("read %s %s equals annotated %s #%d but profiles say gene %r / read %r" % (kind, r, kind, i, gene_profile[i], read_profile[j]))
    return problems


def _profile_case(known, read_blocks, delta):
    from functools import partial
    lrp = native.repo_import("src/long_read_profiles.py")
    com = native.repo_import("src/common.py")
    problems = []
    if not known:
        return problems
    region = (min(k[0] for k in known), max(k[1] for k in known))
    # exon profile (absence: the exon lies well inside the span between the read's first and last exon)
    c = lrp.OverlappingFeaturesProfileConstructor(known, region, comparator=partial(com.equal_ranges, delta=delta),
                                                  absence_condition=com.contains_well_inside, delta=delta)
    p = c.construct_exon_profile(read_blocks)
    problems += _profile_oracle_problems("exon", known, read_blocks, delta, p.gene_profile, p.read_profile)
    inner = (read_blocks[0][1] + delta, read_blocks[-1][0] - delta)
    for i, f in enumerate(known):
        if p.gene_profile[i] == -1 and not (read_blocks[0][0] <= f[1] and f[0] <= read_blocks[-1][1]):
            problems.append("exon %s marked skipped but the read %s does not reach its position" % (f, (read_blocks[0][0], read_blocks[-1][1])))
        if p.gene_profile[i] == 0 and com.contains_well_inside(inner, f, 1) and not any(com.overlaps(f, r) for r in read_blocks) \
                and f[0] > inner[0] + 1 and f[1] < inner[1] - 1 and len(read_blocks) > 1 and False:
            problems.append("exon %s lies between the read's first and last exon but is unmarked" % (f,))
    # the production exon constructor (default absence condition): an exon is excluded only if it lies between the read's first and its
    # last exon (or was matched by a read exon that a nearer annotated exon won)
    cp = lrp.OverlappingFeaturesProfileConstructor(known, region, comparator=partial(com.equal_ranges, delta=delta), delta=delta)
    pp = cp.construct_exon_profile(read_blocks)
    problems += _profile_oracle_problems("exon", known, read_blocks, delta, pp.gene_profile, pp.read_profile)
    for i, f in enumerate(known):
        if pp.gene_profile[i] == -1 and not (f[0] >= read_blocks[0][1] and f[1] <= read_blocks[-1][0]) and \
                not any(abs(r[0] - f[0]) <= delta and abs(r[1] - f[1]) <= delta for r in read_blocks):
            problems.append("exon %s marked excluded by a read %s whose first and last exon it does not lie between" % (f, read_blocks))
    # intron profile (absence: the intron is contained in the read's span)
    introns = com.junctions_from_blocks(read_blocks)
    known_introns = com.junctions_from_blocks(known) if len(known) > 1 else []
    if known_introns:
        c2 = lrp.OverlappingFeaturesProfileConstructor(known_introns, region, comparator=partial(com.equal_ranges, delta=delta), delta=delta)
        p2 = c2.construct_intron_profile(read_blocks)
        problems += _profile_oracle_problems("intron", known_introns, introns, delta, p2.gene_profile, p2.read_profile)
        span = (read_blocks[0][0], read_blocks[-1][1])
        for i, f in enumerate(known_introns):
            if p2.gene_profile[i] == -1 and not com.overlaps(span, f):
                problems.append("intron %s marked skipped but the read span %s does not overlap it" % (f, span))
            if p2.gene_profile[i] == 0 and com.contains(span, f) and not any(abs(r[0] - f[0]) <= delta and abs(r[1] - f[1]) <= delta for r in introns):
                problems.append("intron %s inside the read span %s is neither included nor excluded" % (f, span))
            if p2.gene_profile[i] == 1 and not com.overlaps(span, f):
                problems.append("intron %s included but outside the read span" % (f,))
        # the production absence condition (an intron sharing >= k bases with the read's span is excluded unless the read contains it)
        for k in (1, 2, 3):
            c3 = lrp.OverlappingFeaturesProfileConstructor(known_introns, region, comparator=partial(com.equal_ranges, delta=delta),
                                                           absence_condition=partial(com.overlaps_at_least, delta=k), delta=delta)
            p3 = c3.construct_intron_profile(read_blocks)
            problems += _profile_oracle_problems("intron", known_introns, introns, delta, p3.gene_profile, p3.read_profile)
            for i, f in enumerate(known_introns):
                shared = min(span[1], f[1]) - max(span[0], f[0]) + 1
                if p3.gene_profile[i] == 0 and shared >= k and not any(abs(r[0] - f[0]) <= delta and abs(r[1] - f[1]) <= delta for r in introns):
                    problems.append("intron %s shares %d >= %d bases with the read span %s but is neither included nor excluded" % (f, shared, k, span))
                if p3.gene_profile[i] != 0 and shared <= 0:
                    problems.append("intron %s marked %d but the read span %s does not overlap it" % (f, p3.gene_profile[i], span))
    return problems


def _nested_profile_case(known_feats, read_blocks, delta):
    """annotated features that overlap and nest (introns of different isoforms): the sweep must still find identical features"""
    from functools import partial
    lrp = native.repo_import("src/long_read_profiles.py")
    com = native.repo_import("src/common.py")
    introns = com.junctions_from_blocks(read_blocks)
    if not introns or not known_feats:
        return []
    region = (min(k[0] for k in known_feats), max(k[1] for k in known_feats))
    problems = []
    for absence in (com.contains, partial(com.overlaps_at_least, delta=2)):
        c = lrp.OverlappingFeaturesProfileConstructor(known_feats, region, comparator=partial(com.equal_ranges, delta=delta),
                                                      absence_condition=absence, delta=delta)
        p = c.construct_intron_profile(read_blocks)
        problems += _profile_oracle_problems("intron", known_feats, introns, delta, p.gene_profile, p.read_profile)
    return problems


def replay_profile(d):
    i = d["inputs"]
    if i.get("nested"):
        p = _nested_profile_case([tuple(x) for x in i["known"]], [tuple(x) for x in i["read"]], i["delta"])
        return (not p), "nested known %s read %s delta %d: %s" % (i["known"], i["read"], i["delta"], p or "consistent with the definitions")
    return _replay_profile_plain(d)


def _replay_profile_plain(d):
    i = d["inputs"]
    p = _profile_case([tuple(x) for x in i["known"]], [tuple(x) for x in i["read"]], i["delta"])
    return (not p), "known %s read %s delta %d: %s" % (i["known"], i["read"], i["delta"], p or "consistent with the definitions")


@bounded("C13.profile_semantics", ["C13", "C19"], shards=14, note="OverlappingFeaturesProfileConstructor exon and intron profiles on ALL pairs of "
         "sorted block lists (<= 3 read blocks x <= 3 annotated exons over coordinates 1..13 in steps, delta in {0,1,2}), checked against "
         "the property's definitions: 1 only with a delta-match, -1 only where the read's span covers the feature's position, an intron "
         "contained in the read span is never left unmarked")
def c13_profiles(tier, rng):
    import itertools
    coords = list(range(1, 14 if tier == "quick" else 12))   # thorough: exhaustive over 1..11 (2.1 M pairs x 3 deltas, split over the shards)
    def block_lists(nmax):
        out = []
        for n in range(1, nmax + 1):
            for pts in itertools.combinations(coords, 2 * n):
                out.append([(pts[2 * k], pts[2 * k + 1]) for k in range(n)])
        return out
    lists_known = [l for l in block_lists(3)]
    lists_read = [l for l in block_lists(3 if tier != "quick" else 2)]
    if tier == "quick":
        lists_known = rng.sample(lists_known, 220)
        lists_read = rng.sample(lists_read, 60)
    else:
        # exhaustive enumeration split over parallel shards
        lists_known = lists_known[getattr(rng, "shard_index", 0)::getattr(rng, "shard_count", 1)]
    cases = 0
    for known in lists_known:
        for read in lists_read:
            for delta in (0, 1, 2):
                cases += 1
                p = _profile_case(known, read, delta)
                if p:
                    return {"cases": cases, "bound": "small scope", "violations": [{
                        "obligation": "C13.profile_semantics", "inputs": {"known": known, "read": read, "delta": delta}, "observed": p[:3],
                        "required": "profile marks follow the property's definitions", "replay_call": "contracts.c_profiles:replay_profile"}]}
    # overlapping / nested annotated features: all sorted sets of <= 3 intervals over a coarser grid, against reads with <= 3 blocks
    grid = coords[::2]
    ivs = [(a, b) for a in grid for b in grid if a + 1 < b]
    sets_ = [sorted(c) for n in (2, 3) for c in itertools.combinations(ivs, n)]
    reads_ = [l for l in block_lists(3) if len(l) >= 2]
    if tier == "quick":
        sets_ = rng.sample(sets_, min(len(sets_), 400))
        reads_ = rng.sample(reads_, min(len(reads_), 40))
    else:
        sets_ = sets_[getattr(rng, "shard_index", 0)::getattr(rng, "shard_count", 1)]
    for known in sets_:
        for read in reads_:
            for delta in (0, 1):
                cases += 1
                p = _nested_profile_case(known, read, delta)
                if p:
                    return {"cases": cases, "bound": "small scope", "violations": [{
                        "obligation": "C13.profile_semantics", "inputs": {"nested": True, "known": known, "read": read, "delta": delta}, "observed": p[:3],
                        "required": "profile marks follow the property's definitions", "replay_call": "contracts.c_profiles:replay_profile"}]}
    return {"cases": cases, "bound": "block lists with <= 3 blocks over %d coordinates, delta 0..2%s; nested annotated interval sets of <= 3" % (len(coords), " (sampled)" if tier == "quick" else ""),
            "exhaustive": tier != "quick", "violations": [], "samples": [{"known": [(1, 3), (6, 8)], "read": [(1, 3), (6, 9)], "delta": 1}]}


# ---- which reads are counted at all -------------------------------------------------------------------------------------------------------
record("GeneInfoP", {"exon_property_map": "list[rec:FeatureInfoP]", "intron_property_map": "list[rec:FeatureInfoP]"})
record("ReadAssignmentP", {"exon_gene_profile": "opt[list[int]]", "intron_gene_profile": "opt[list[int]]", "gene_info": "opt[rec:GeneInfoP]",
                           "read_group": "str"})
native.RECORD_CLASSES["ReadAssignmentP"] = ("builtin", "namespace")
native.RECORD_CLASSES["GeneInfoP"] = ("builtin", "namespace")
native.RECORD_CLASSES["FeatureInfoP"] = ("builtin", "namespace")

contract(L + "ProfileFeatureCounter.is_valid", {"assignment": "opt[rec:ReadAssignmentP]"}, returns="bool", props=["C13"],
         # every processed read that carries profiles is counted - including reads of loci without annotated introns (or exons),
         # whose profile is the EMPTY list, not a missing one
         ensures=["result == (assignment is not None and assignment.exon_gene_profile is not None and "
                  "assignment.intron_gene_profile is not None and assignment.gene_info is not None)"],
         gen=lambda rng, n: ({"assignment": rng.choice([None, {"__rec__": "ReadAssignmentP",
                                                               "exon_gene_profile": rng.choice([None, [], [1, -1, 0]]),
                                                               "intron_gene_profile": rng.choice([None, [], [1]]),
                                                               "gene_info": rng.choice([None, {"__rec__": "GeneInfoP", "exon_property_map": [], "intron_property_map": []}]),
                                                               "read_group": "NA"}])} for _ in range(n)),
         canary="result == (assignment is not None)")


# ---- one row per annotated feature: pipeline run where the reads of one gene form two separate islands ------------------------------------------
def _islands_inputs(d):
    """gene synI (+) in the gene-free stretch of the bundled reference: T1 exons A,B,C,D; T2 exons A,D (its intron spans B and C);
    3 reads over A-B and 2 reads over C-D: two read islands that do not overlap each other"""
    import gzip, os
    import pysam
    seq = "".join(l.strip() for l in gzip.open(os.path.join(d, "chr9.4M.fa.gz"), "rt") if not l.startswith(">")).upper()
    inp = pysam.AlignmentFile(os.path.join(d, "chr9.4M.ont.sim.polya.bam"))
    tid = inp.get_tid("chr9")
    o = 3041000
    A, B, C, D = (o + 101, o + 300), (o + 501, o + 700), (o + 3001, o + 3200), (o + 3401, o + 3600)
    gtf = ["chr9\tsyn\tgene\t%d\t%d\t.\t+\t.\tgene_id \"synI\";" % (A[0], D[1])]
    for t, ex in (("synI.t1", [A, B, C, D]), ("synI.t2", [A, D])):
        gtf.append("chr9\tsyn\ttranscript\t%d\t%d\t.\t+\t.\tgene_id \"synI\"; transcript_id \"%s\";" % (ex[0][0], ex[-1][1], t))
        for a, b in ex:
            gtf.append("chr9\tsyn\texon\t%d\t%d\t.\t+\t.\tgene_id \"synI\"; transcript_id \"%s\";" % (a, b, t))
    open(os.path.join(d, "isl.gtf"), "w").write("\n".join(gtf) + "\n")
    recs = []
    for name, ex, n in (("ab", [A, B], 3), ("cd", [C, D], 2)):
        for k in range(n):
            a = pysam.AlignedSegment(inp.header)
            a.query_name, a.flag, a.reference_id, a.reference_start, a.mapping_quality = "%s_%d" % (name, k), 0, tid, ex[0][0] - 1, 60
            cig, s_ = [], ""
            for i, (x, y) in enumerate(ex):
                if i:
                    cig.append((3, x - ex[i - 1][1] - 1))
                cig.append((0, y - x + 1)); s_ += seq[x - 1:y]
            a.cigartuples, a.query_sequence = cig, s_
            a.query_qualities = pysam.qualitystring_to_array("I" * len(s_))
            a.set_tag("NM", 0)
            recs.append(a)
    with pysam.AlignmentFile(os.path.join(d, "isl.bam"), "wb", template=inp) as out:
        for a in sorted(recs, key=lambda x: x.reference_start):
            out.write(a)
    pysam.index(os.path.join(d, "isl.bam"))
    return "isl.bam", "isl.gtf"


def _islands_run():
    import os, shutil
    from contracts import c_novel
    d, p = c_novel._run_pipeline(["--count_exons", "--no_model_construction"], True, _islands_inputs)
    try:
        if p.returncode != 0:
            return None, "isoquant exited %d: %s" % (p.returncode, p.stderr[-300:])
        rows = {}
        for kind in ("exon", "intron"):
            for line in open(os.path.join(d, "out", "S", "S.%s_counts.tsv" % kind)):
                if line.startswith("#") or line.startswith("chr\t"):
                    continue
                f = line.rstrip("\n").split("\t")
                rows.setdefault((kind, f[0], int(f[1]), int(f[2]), f[3], f[-3]), []).append((int(float(f[-2])), int(float(f[-1]))))
    finally:
        shutil.rmtree(d, ignore_errors=True)
    return rows, None


def replay_islands(d):
    rows, err = _islands_run()
    key = tuple(d["inputs"]["feature"])
    n = len((rows or {}).get(key, []))
    return n <= 1, "feature %s is reported in %d row(s): %s" % (key, n, (rows or {}).get(key))


@bounded("C13.one_row_per_feature", ["C13"], note="one pipeline run (--count_exons) on a synthetic gene whose reads form two islands that do not overlap "
         "each other: every annotated exon / intron is reported in at most one row per group, holding the counts of all processed reads")
def c13_islands(tier, rng):
    rows, err = _islands_run()
    if rows is None:
        return {"cases": 1, "bound": "1 pipeline run", "error": err}
    o = 3041000
    islands = [(o + 101, o + 700), (o + 3001, o + 3600)]
    viol = []
    for key, vals in sorted(rows.items()):
        if len(vals) > 1:
            reach = sum(1 for a, b in islands if not (b < key[2] or a > key[3]))
            viol.append({"obligation": "C13.one_row_per_feature.%s_%d_%d" % (key[0], key[2] - o, key[3] - o),
                         "inputs": {"feature": list(key), "rows": len(vals), "counts": vals, "islands_reaching_feature": reach},
                         "observed": "%s %s:%d-%d is reported in %d rows with (include, exclude) = %s" % (key[0], key[1], key[2], key[3], len(vals), vals),
                         "required": "one row per annotated feature and group, holding the counts over all processed reads",
                         "replay_call": "contracts.c_profiles:replay_islands"})
    if not rows:
        viol.append({"obligation": "C13.one_row_per_feature.nontrivial", "inputs": None, "observed": "no count rows", "required": "rows", "undecided": True})
    return {"cases": len(rows), "bound": "1 pipeline run, 5 reads in 2 islands", "violations": viol, "samples": [{"rows": len(rows)}]}


# ---- the id of a feature row: a function of the feature, so every GeneInfo that contains the feature counts it in the same row ----------------
record("FeatureInfoFull", {"id": "tuple[str,int,int,str]", "chr_id": "str", "start": "int", "end": "int", "strand": "str", "type": "str",
                           "gene_ids": "list[str]"})


def _fi_native(argmap):
    gi = native.repo_import("src/gene_info.py")
    argmap["self"] = gi.FeatureInfo.__new__(gi.FeatureInfo)
    return argmap


contract("src/gene_info.py:FeatureInfo.__init__",
         {"self": "rec:FeatureInfoFull", "chr_id": "str", "start": "int", "end": "int", "strand": "str", "type": "str", "gene_ids": "list[str]"},
         returns="none", props=["C13"],
         modifies=["self.id", "self.chr_id", "self.start", "self.end", "self.strand", "self.type", "self.gene_ids"],
         # a reader of the count table identifies a row by chromosome, coordinates and strand: the key under which reads are counted is
         # exactly that, independently of when and for which read region the object was created
         ensures=["self.id == (chr_id, start, end, strand)",
                  "self.chr_id == chr_id and self.start == start and self.end == end and self.strand == strand and self.type == type",
                  "self.gene_ids == gene_ids"],
         native_args=_fi_native,
         gen=lambda rng, n: ({"self": None, "chr_id": rng.choice(["chr1", "chrX"]), "start": rng.randint(1, 50), "end": rng.randint(50, 90),
                              "strand": rng.choice(["+", "-", "+-"]), "type": rng.choice(["X", "TU", "IS"]), "gene_ids": ["g%d" % rng.randint(1, 3)]}
                             for _ in range(n)))


# ---- exon / intron tables of whole pipeline runs on generated loci, recounted from the reads (nested genes, several read islands per gene) -------
def _count_loci(seed):
    """4 loci 14 kb apart in the gene-free stretch of the bundled reference. Per locus a host gene (random strand, 5-6 exons, isoforms `full`
    and `skip`) and, in half of the loci, a gene nested in the host's largest intron (2-3 exons, own strand). Read populations (every read
    consists of WHOLE annotated exons): full-length host reads, host reads of the first two / last two exons only (separate read islands
    unless full-length reads bridge them), unspliced reads through a short intron, nested-gene reads."""
    import random
    rng = random.Random(seed)
    base = 3041000
    loci = []
    for li in range(4):
        o = base + 14000 * li
        strand = rng.choice("+-")
        n = rng.randint(5, 6)
        pos = o + 500
        exons = []
        big = rng.randrange(1, n - 2)
        for k in range(n):
            ln = rng.randint(100, 220)
            exons.append((pos, pos + ln - 1))
            pos += ln + (rng.randint(3500, 4200) if k == big else rng.randint(300, 700))
        iso = {"full": list(exons)}
        sk = rng.choice([i for i in range(1, n - 1)])
        iso["skip"] = [e for i, e in enumerate(exons) if i != sk]
        genes = [{"gene": "cntH%d" % li, "strand": strand, "isoforms": iso}]
        pops = []
        if rng.random() < .6:
            pops.append((list(iso[rng.choice(["full", "skip"])]), rng.randint(2, 4)))
        if rng.random() < .8:
            pops.append((exons[:2], rng.randint(2, 4)))
        if rng.random() < .8:
            pops.append((exons[-2:], rng.randint(2, 4)))
        if rng.random() < .5:
            # unspliced reads running through a (short) intron: one block from the start of an exon to the end of the next one
            ir = rng.choice([i for i in range(n - 1) if i != big])
            pops.append(([(exons[ir][0], exons[ir + 1][1])], rng.randint(1, 3)))
        if rng.random() < .5:
            a = exons[big][1] + 600
            nex = []
            for k in range(rng.randint(2, 3)):
                ln = rng.randint(100, 200)
                nex.append((a, a + ln - 1))
                a += ln + rng.randint(300, 600)
            genes.append({"gene": "cntN%d" % li, "strand": rng.choice("+-"), "isoforms": {"full": nex}})
            pops.append((list(nex), rng.randint(2, 4)))
        loci.append({"genes": genes, "reads": pops})
    return loci


def _count_loci_prepare(seed):
    def prepare(d):
        import gzip, os
        import pysam
        seq = "".join(l.strip() for l in gzip.open(os.path.join(d, "chr9.4M.fa.gz"), "rt") if not l.startswith(">")).upper()
        inp = pysam.AlignmentFile(os.path.join(d, "chr9.4M.ont.sim.polya.bam"))
        tid = inp.get_tid("chr9")
        gtf, recs = [], []
        k = 0
        for L in _count_loci(seed):
            for G in L["genes"]:
                lo = min(e[0] for ex in G["isoforms"].values() for e in ex); hi = max(e[1] for ex in G["isoforms"].values() for e in ex)
                gtf.append("chr9\tsyn\tgene\t%d\t%d\t.\t%s\t.\tgene_id \"%s\";" % (lo, hi, G["strand"], G["gene"]))
                for name, ex in sorted(G["isoforms"].items()):
                    t = "%s.%s" % (G["gene"], name)
                    gtf.append("chr9\tsyn\ttranscript\t%d\t%d\t.\t%s\t.\tgene_id \"%s\"; transcript_id \"%s\";" % (ex[0][0], ex[-1][1], G["strand"], G["gene"], t))
                    for a, b in ex:
                        gtf.append("chr9\tsyn\texon\t%d\t%d\t.\t%s\t.\tgene_id \"%s\"; transcript_id \"%s\";" % (a, b, G["strand"], G["gene"], t))
            for chain, cnt in L["reads"]:
                for _ in range(cnt):
                    a = pysam.AlignedSegment(inp.header)
                    a.query_name, a.flag, a.reference_id, a.reference_start, a.mapping_quality = "cnt_%d" % k, 0, tid, chain[0][0] - 1, 60
                    k += 1
                    cig, s_ = [], ""
                    for i, (x, y) in enumerate(chain):
                        if i:
                            cig.append((3, x - chain[i - 1][1] - 1))
                        cig.append((0, y - x + 1)); s_ += seq[x - 1:y]
                    a.cigartuples, a.query_sequence = cig, s_
                    a.query_qualities = pysam.qualitystring_to_array("I" * len(s_))
                    a.set_tag("NM", 0)
                    recs.append(a)
        with pysam.AlignmentFile(os.path.join(d, "cnt.bam"), "wb", template=inp) as out:
            for a in sorted(recs, key=lambda x: x.reference_start):
                out.write(a)
        pysam.index(os.path.join(d, "cnt.bam"))
        open(os.path.join(d, "cnt.gtf"), "w").write("\n".join(gtf) + "\n")
        return "cnt.bam", "cnt.gtf"
    return prepare


def _pipeline_recount_problems(seed):
    import os, shutil
    from contracts import c_novel
    d, p = c_novel._run_pipeline(["--count_exons", "--no_model_construction"], True, _count_loci_prepare(seed))
    problems, nrows = [], 0
    try:
        if p.returncode != 0:
            return ["isoquant exited %d: %s" % (p.returncode, p.stderr[-300:])], 0
        got = {}
        for kind in ("exon", "intron"):
            for line in open(os.path.join(d, "out", "S", "S.%s_counts.tsv" % kind)):
                if line.startswith("#"):
                    continue
                f = line.rstrip("\n").split("\t")
                key = (kind, int(f[1]), int(f[2]))
                if key in got:
                    problems.append("%s %d-%d has more than one row" % key)
                got[key] = (int(float(f[-2])), int(float(f[-1])), f[3], set(f[5].split(",")))
        nrows = len(got)
        # the recount: reads are lists of whole annotated exons
        loci = _count_loci(seed)
        feats = {}
        for L in loci:
            for G in L["genes"]:
                for ex in G["isoforms"].values():
                    for e in ex:
                        feats.setdefault(("exon", e[0], e[1]), set()).add(G["gene"])
                    for i in range(len(ex) - 1):
                        feats.setdefault(("intron", ex[i][1] + 1, ex[i + 1][0] - 1), set()).add(G["gene"])
        reads = [chain for L in loci for chain, cnt in L["reads"] for _ in range(cnt)]
        for key, genes in sorted(feats.items()):
            kind, a, b = key
            inc = exc = 0
            for r in reads:
                if kind == "exon":
                    if (a, b) in r:
                        inc += 1
                    elif r[0][1] < a and b < r[-1][0]:
                        exc += 1              # the exon lies between the read's first and last exon and the read does not contain it
                else:
                    introns = [(r[i][1] + 1, r[i + 1][0] - 1) for i in range(len(r) - 1)]
                    if (a, b) in introns:
                        inc += 1
                    elif r[0][0] <= b and a <= r[-1][1]:
                        exc += 1              # the read's span overlaps the intron and the read does not contain it
            row = got.get(key)
            if inc == 0 and exc == 0:
                if row is not None and (row[0] or row[1]):
                    problems.append("%s %d-%d: reported %d / %d, no read contains or skips it" % (kind, a, b, row[0], row[1]))
                continue
            if row is None:
                problems.append("%s %d-%d: no row, the recount gives include %d / exclude %d" % (kind, a, b, inc, exc))
            else:
                if (row[0], row[1]) != (inc, exc):
                    problems.append("%s %d-%d: reported include %d / exclude %d, the recount gives %d / %d" % (kind, a, b, row[0], row[1], inc, exc))
                if row[3] != genes:
                    problems.append("%s %d-%d: gene list %s, the annotation says %s" % (kind, a, b, sorted(row[3]), sorted(genes)))
        for key in got:
            if key not in feats:
                problems.append("%s %d-%d is reported but not annotated" % key)
    finally:
        shutil.rmtree(d, ignore_errors=True)
    return problems, nrows


def replay_pipeline_recount(d):
    p, n = _pipeline_recount_problems(d["inputs"]["seed"])
    return (not p), "seed %s: %s" % (d["inputs"]["seed"], p[:4] or "%d rows equal the recount" % n)


@bounded("C13.pipeline_recount", ["C13"], shards=8, note="pipeline runs with --count_exons on generated loci (host genes with two isoforms, genes nested in a "
         "host intron, reads of whole annotated exons forming one or several islands per gene): every row of the exon and intron tables "
         "equals a recount from the reads (contain / skip as the property defines them), one row per feature, gene lists as annotated")
def c13_pipeline_recount(tier, rng):
    n = 3 if tier == "quick" else 12
    base = rng.randrange(10 ** 9)
    rows = 0
    for k in range(n):
        p, nr = _pipeline_recount_problems(base + k)
        rows += nr
        if p:
            return {"cases": k + 1, "bound": "%d pipeline runs" % n, "violations": [{
                "obligation": "C13.pipeline_recount", "inputs": {"seed": base + k}, "observed": p[:4], "required": "tables equal the recount",
                "replay_call": "contracts.c_profiles:replay_pipeline_recount"}]}
    return {"cases": n, "bound": "%d pipeline runs x 4 generated loci (%d table rows recounted)" % (n, rows), "violations": [], "samples": [{"seed": base, "rows": rows}]}


# ---- the exon / intron tables as written: grouped rows partition the ungrouped ones ---------------------------------------------------------------
def _dump_rows_problems(seed):
    """the real ExonCounter pair of a run with read groups (one counter ignoring the groups, one keeping them) fed with the same random
    alignment records (repeated read ids, multimapper flags) through add_read_info, then dump(): every (feature, group) with a read including or skipping the feature has its
    row with the recounted numbers, no other row exists, and the rows of a feature sum to its row in the ungrouped table"""
    import os, random, shutil, tempfile, types
    lrc = native.repo_import("src/long_read_counter.py")
    rng = random.Random(seed)
    base = os.path.join(os.path.dirname(os.path.dirname(os.path.abspath(__file__))), ".run")
    os.makedirs(base, exist_ok=True)
    d = tempfile.mkdtemp(prefix="dump", dir=base)
    problems = []
    try:
        plain = lrc.ExonCounter(os.path.join(d, "p.exon"), ignore_read_groups=True)
        grouped = lrc.ExonCounter(os.path.join(d, "g.exon"), ignore_read_groups=False)
        nf = rng.randint(1, 6)
        fmap = [types.SimpleNamespace(id=("chr1", 100 * i, 100 * i + 50, "+"), to_str=(lambda i=i: "chr1\t%d\t%d\t+\tX\tG" % (100 * i, 100 * i + 50))) for i in range(nf)]
        groups = ["g%s" % c for c in "abcd"[:rng.randint(1, 4)]]
        want = {}
        ginfo = types.SimpleNamespace(exon_property_map=fmap, intron_property_map=[])
        for k in range(rng.randint(1, 10)):
            g = rng.choice(groups)
            prof = [rng.choice([-2, -1, 0, 0, 1, 1]) if rng.random() < .6 else 0 for _ in range(nf)]
            # every processed alignment counts: a read may come with several kept alignment records (same read id, multimapper flag set)
            ra = types.SimpleNamespace(read_id="r%d" % rng.randint(0, 3), multimapper=rng.random() < .4, read_group=g, exon_gene_profile=prof,
                                       intron_gene_profile=[], gene_info=ginfo)
            plain.add_read_info(ra)
            grouped.add_read_info(ra)
            for i, v in enumerate(prof):
                if v in (1, -1):
                    w = want.setdefault((100 * i, g), [0, 0])
                    w[0 if v == 1 else 1] += 1
        plain.dump()
        grouped.dump()

        def rows(path):
            out = {}
            for line in open(path):
                if line.startswith("#"):
                    continue
                f = line.rstrip("\n").split("\t")
                key = (int(f[1]), f[6])
                if key in out:
                    problems.append("row %s written twice" % (key,))
                out[key] = [int(f[7]), int(f[8])]
            return out
        got = rows(grouped.output_counts_file_name)
        tot = rows(plain.output_counts_file_name)
        if got != want:
            problems.append("grouped table %s, recount %s" % (sorted(got.items()), sorted(want.items())))
        sums = {}
        for (f, g), v in got.items():
            s = sums.setdefault(f, [0, 0])
            s[0] += v[0]; s[1] += v[1]
        if sums != {f: v for (f, _g), v in tot.items()}:
            problems.append("rows of the groups sum to %s, the ungrouped table has %s" % (sorted(sums.items()), sorted(tot.items())))
    finally:
        shutil.rmtree(d, ignore_errors=True)
    return problems


def replay_dump_rows(d):
    p = _dump_rows_problems(d["inputs"]["seed"])
    return (not p), "seed %s: %s" % (d["inputs"]["seed"], p[:2] or "grouped rows = recount, sums = ungrouped table")


@bounded("C13.grouped_rows", ["C13", "C09"], note="the real ExonCounter with and without read groups on the same random profiles (1-6 features, 1-4 groups, "
         "1-10 reads), dump() of both: the grouped table has exactly the (feature, group) rows of the recount, and the rows of a feature sum "
         "to its row in the ungrouped table")
def c13_grouped_rows(tier, rng):
    n = 300 if tier == "quick" else 10000
    base = rng.randrange(10 ** 9)
    for k in range(n):
        try:
            p = _dump_rows_problems(base + k)
        except Exception as e:
            p = ["exception %s: %s" % (type(e).__name__, e)]
        if p:
            return {"cases": k + 1, "bound": "%d counters" % n, "violations": [{
                "obligation": "C13.grouped_rows", "inputs": {"seed": base + k}, "observed": p[:3],
                "required": "grouped rows partition the ungrouped counts", "replay_call": "contracts.c_profiles:replay_dump_rows"}]}
    return {"cases": n, "bound": "%d random counter pairs" % n, "violations": [], "samples": [{"seed": base}]}


# ---- the literal sentence on near-duplicate features (two annotated exons within delta of each other) -----------------------------------------------
def _near_dup_case(known, read_blocks, delta):
    """the literal reading of C13: an annotated exon with a read exon within delta at both ends is contained in the read (marked 1);
    returns the annotated exons for which that does not hold, and the exon profile"""
    from functools import partial
    lrp = native.repo_import("src/long_read_profiles.py")
    com = native.repo_import("src/common.py")
    region = (min(known[0][0], read_blocks[0][0]), max(max(k[1] for k in known), read_blocks[-1][1]))
    c = lrp.OverlappingFeaturesProfileConstructor(known, region, comparator=partial(com.equal_ranges, delta=delta), delta=delta)
    p = c.construct_exon_profile(read_blocks)
    out = []
    for i, f in enumerate(known):
        near = [r for r in read_blocks if abs(r[0] - f[0]) <= delta and abs(r[1] - f[1]) <= delta]
        if near and p.gene_profile[i] not in (1, -2):
            out.append((i, f, near, p.gene_profile[i]))
    return out, list(p.gene_profile)


def kf_closest_feature_wins(inputs):
    """known-finding class: every annotated exon that has a read exon within delta but is not marked contained has, for each such read exon,
    a STRICTLY closer annotated exon (sum of the two boundary differences) that is marked contained - one read exon marks its closest
    annotated match only; equally close ones must all be marked"""
    known = [tuple(x) for x in inputs["known"]]
    read = [tuple(x) for x in inputs["read"]]
    bad, prof = _near_dup_case(known, read, inputs["delta"])
    if not bad:
        return False
    dist = lambda r, f: abs(r[0] - f[0]) + abs(r[1] - f[1])
    return all(any(prof[j] == 1 and dist(r, g) < dist(r, f) for j, g in enumerate(known) if j != i) for i, f, near, _v in bad for r in near)


def replay_near_dup(d):
    i = d["inputs"]
    bad, prof = _near_dup_case([tuple(x) for x in i["known"]], [tuple(x) for x in i["read"]], i["delta"])
    return (not bad), "known %s read %s delta %d: profile %s, %s" % (i["known"], i["read"], i["delta"], prof,
                                                                   ["%s has a read exon within delta but is marked %d" % (f, v) for _i, f, _n, v in bad] or "as the sentence says")


@finite("C13.near_duplicate_features", ["C13"], note="two annotated exons whose ends differ by 0..delta (delta in {1,2,4}) and a read with one inner exon "
        "placed on every position within delta of either: the literal sentence - an annotated exon with a read exon within delta at both ends is "
        "contained in the read - through the real OverlappingFeaturesProfileConstructor. The tool marks the closest annotated exon only (listed known finding); "
        "an exon that is equally close and not marked, or any other deviation, is a violation")
def c13_near_duplicates(tier, rng):
    import itertools
    obl = dis = 0
    viol = []
    in_class = 0
    witness = None
    for delta in (1, 2, 4):
        for d1, d2 in itertools.product(range(0, delta + 1), repeat=2):
            if d1 == d2 == 0:
                continue
            known = [(600, 700), (600 + d1, 700 + d2)]
            for rs in range(600 - delta, 600 + 2 * delta + 1):
                for re_ in range(700 - delta, 700 + 2 * delta + 1):
                    read = [(100, 200), (rs, re_), (900, 1000)]
                    obl += 1
                    bad, prof = _near_dup_case(known, read, delta)
                    if not bad:
                        dis += 1
                        continue
                    inputs = {"known": known, "read": read, "delta": delta}
                    if kf_closest_feature_wins(inputs):
                        in_class += 1
                        witness = witness or (inputs, bad, prof)
                    elif len(viol) < 3:
                        viol.append({"obligation": "C13.near_duplicate_features.d%d.%d_%d.%d_%d" % (delta, d1, d2, rs, re_), "inputs": inputs,
                                     "observed": "profile %s: %s" % (prof, ["%s marked %d" % (f, v) for _i, f, _n, v in bad]),
                                     "required": "every annotated exon with a read exon within delta is marked contained",
                                     "replay_call": "contracts.c_profiles:replay_near_dup"})
    if witness:
        inputs, bad, prof = witness
        viol.append({"obligation": "C13.near_duplicate_features.closest_wins", "inputs": inputs,
                     "observed": "%d of %d placements: the read exon marks its closest annotated exon only, e.g. profile %s for read exon %s" % (in_class, obl, prof, inputs["read"][1]),
                     "required": "every annotated exon with a read exon within delta is marked contained",
                     "replay_call": "contracts.c_profiles:replay_near_dup"})
    # placements inside the listed known-finding class are reported through that one entry and are not counted as obligations
    return {"obligations": obl - in_class, "discharged": dis, "violations": viol, "cases": obl, "exhaustive": True,
            "bound": "delta in {1,2,4} x end differences 0..delta x read exon positions within delta of either exon (%d placements; %d of them inside the "
                     "listed known-finding class 'closest annotated feature wins', not counted as obligations)" % (obl, in_class),
            "samples": [{"known": [(600, 700), (602, 700)], "read_exon": (602, 700), "delta": 2}]}


# ---- split-exon profiles: a known split exon is present iff a read block matches it -------------------------------------------------------------------
def _interval_lists(universe, gap=1):
    """all ascending lists of pairwise disjoint intervals over 1..universe with at least `gap` free positions between neighbours (incl. the empty list)"""
    out = [[]]

    def extend(prefix, first_free):
        for a in range(first_free, universe + 1):
            for b in range(a, universe + 1):
                cur = prefix + [(a, b)]
                out.append(cur)
                extend(cur, b + 1 + gap)
    extend([], 1)
    return out


def _split_profile_problems(known, read, min_overlap):
    from functools import partial
    lrp = native.repo_import("src/long_read_profiles.py")
    com = native.repo_import("src/common.py")
    cmp_ = partial(com.overlaps_at_least_when_overlap, delta=min_overlap)
    p = lrp.NonOverlappingFeaturesProfileConstructor(known, comparator=cmp_, delta=0).construct_profile(read)
    problems = []
    covered = set()
    for r in read:
        covered.update(range(r[0], r[1] + 1))
    for i, g in enumerate(known):
        present = any(cmp_(r, g) for r in read)
        v = p.gene_profile[i]
        if present != (v == 1):
            problems.append("known exon %s is %smatched by a read block but marked %d" % (g, "" if present else "not ", v))
        elif not present:
            if (g[1] < read[0][0] or g[0] > read[-1][1]) and v != 0:
                problems.append("known exon %s lies outside the read but is marked %d" % (g, v))
            if read[0][0] < g[0] and g[1] < read[-1][1] and not (covered & set(range(g[0], g[1] + 1))) and v != -1:
                problems.append("known exon %s is spanned by the read without a shared base but is marked %d" % (g, v))
    for j, r in enumerate(read):
        present = any(cmp_(r, g) for g in known)
        if present != (p.read_profile[j] == 1):
            problems.append("read block %s %s a known exon but is marked %d" % (r, "matches" if present else "matches no", p.read_profile[j]))
    return problems


def replay_split_profile(d):
    i = d["inputs"]
    p = _split_profile_problems([tuple(x) for x in i["known"]], [tuple(x) for x in i["read"]], i["min_overlap"])
    return (not p), "known %s read %s min_overlap %d: %s" % (i["known"], i["read"], i["min_overlap"], p or "as the sentence says")


@finite("C19.split_profile_semantics", ["C19", "C13"], note="the real NonOverlappingFeaturesProfileConstructor.construct_profile (as CombinedProfileConstructor wires it: "
        "comparator overlaps_at_least_when_overlap) on every list of disjoint (possibly adjoining) known exons x every list of gapped read blocks over 1..6 (thorough: 1..7) x minimal overlap in {1,2,3}: "
        "a known split exon is marked present iff a read block matches it, a read block iff it matches a known exon; an unmatched exon outside the "
        "read is 0, one spanned by the read without a shared base is -1")
def c19_split_profile(tier, rng):
    u = 6 if tier == "quick" else 7
    lists = _interval_lists(u)
    obl = dis = 0
    viol = []
    for known in _interval_lists(u, gap=0):      # split exons may adjoin
        if not known:
            continue
        for read in lists:
            if not read:
                continue
            for mo in (1, 2, 3):
                obl += 1
                p = _split_profile_problems(known, read, mo)
                if not p:
                    dis += 1
                elif len(viol) < 3:
                    viol.append({"obligation": "C19.split_profile_semantics.%s.%s.%d" % ("_".join("%d-%d" % x for x in known), "_".join("%d-%d" % x for x in read), mo),
                                 "inputs": {"known": known, "read": read, "min_overlap": mo}, "observed": p[:3],
                                 "required": "present iff matched", "replay_call": "contracts.c_profiles:replay_split_profile"})
    return {"obligations": obl, "discharged": dis, "violations": viol, "cases": obl, "exhaustive": True,
            "bound": "all pairs of disjoint interval lists over 1..%d x minimal overlap 1..3" % u, "samples": [{"known": [(1, 3), (5, 5)], "read": [(2, 2), (4, 5)], "min_overlap": 2}]}


# ---- the three profile constructors receive the read's blocks and its two tail positions, each in its own place --------------------------------------
@finite("C13.profile_call_wiring", ["C13", "C11"], note="the real CombinedProfileConstructor.construct_profiles with its three constructors replaced by recorders, "
        "with and without --count_exons: the intron, exon and split-exon constructors each receive the read's blocks, the polyA position as polyA "
        "position and the polyT position as polyT position")
def c13_profile_call_wiring(tier, rng):
    import types
    lrp = native.repo_import("src/long_read_profiles.py")
    obl = dis = 0
    viol = []
    for count_exons in (False, True):
        for pa, pt in ((111, -1), (-1, 222), (111, 222), (-1, -1)):
            calls = {}

            def rec(name):
                return lambda blocks, polya_position=-1, polyt_position=-1: calls.__setitem__(name, (list(blocks), polya_position, polyt_position)) or name
            c = lrp.CombinedProfileConstructor.__new__(lrp.CombinedProfileConstructor)
            c.params = types.SimpleNamespace(count_exons=count_exons)
            c.gene_info = None
            c.intron_profile_constructor = types.SimpleNamespace(construct_intron_profile=rec("intron"))
            c.exon_profile_constructor = types.SimpleNamespace(construct_exon_profile=rec("exon"))
            c.split_exon_profile_constructor = types.SimpleNamespace(construct_profile=rec("split_exon"))
            blocks = [(100, 200), (300, 400)]
            info = types.SimpleNamespace(external_polya_pos=pa, external_polyt_pos=pt, internal_polya_pos=-7, internal_polyt_pos=-9)
            c.construct_profiles(blocks, info, [])
            for name in ("intron", "split_exon") + (("exon",) if count_exons else ()):
                obl += 1
                if calls.get(name) == (blocks, pa, pt):
                    dis += 1
                else:
                    viol.append({"obligation": "C13.profile_call_wiring.%s.%s" % (name, "count_exons" if count_exons else "plain"),
                                 "inputs": {"polya": pa, "polyt": pt, "count_exons": count_exons}, "observed": str(calls.get(name)),
                                 "required": str((blocks, pa, pt))})
            if not count_exons and "exon" in calls:
                viol.append({"obligation": "C13.profile_call_wiring.exon.unrequested", "inputs": {"count_exons": False}, "observed": "exon profile built", "required": "not built"})
    return {"obligations": obl, "discharged": dis, "violations": viol[:4], "cases": obl, "exhaustive": True,
            "bound": "2 settings x 4 tail position pairs x 2-3 constructors", "samples": [{"polya": 111, "polyt": 222}]}


# ---- split exons: the annotated exons cut at every annotated exon border ---------------------------------------------------------------------------------
def _split_exons_expected(exons):
    """position-set definition: a split exon is a maximal run of covered positions without an annotated exon border inside it (a border lies
    between p and p + 1 when some exon ends at p or starts at p + 1)"""
    covered = sorted({p for a, b in exons for p in range(a, b + 1)})
    ends = {b for _a, b in exons}
    starts = {a for a, _b in exons}
    out, cur = [], None
    for p in covered:
        if cur is None:
            cur = [p, p]
        elif p == cur[1] + 1 and cur[1] not in ends and p not in starts:
            cur[1] = p
        else:
            out.append(tuple(cur)); cur = [p, p]
    if cur is not None:
        out.append(tuple(cur))
    return out


def replay_split_exons(d):
    gi = native.repo_import("src/gene_info.py")
    exons = [tuple(x) for x in d["inputs"]["exons"]]
    got = list(gi.GeneInfo.split_exons(list(exons)))
    return got == _split_exons_expected(exons), "exons %s: split_exons -> %s, position sets -> %s" % (exons, got, _split_exons_expected(exons))


@finite("C13.split_exons", ["C13", "C01", "C19"], note="the real GeneInfo.split_exons on every set of 1-4 distinct exons over the coordinates 1..6 (thorough: 1..7), as sorted "
        "by the caller: the split exons are exactly the maximal runs of covered positions without an annotated exon border inside")
def c13_split_exons(tier, rng):
    import itertools
    gi = native.repo_import("src/gene_info.py")
    u = 6 if tier == "quick" else 7
    ivs = [(a, b) for a in range(1, u + 1) for b in range(a, u + 1)]
    obl = dis = 0
    viol = []
    for n in (1, 2, 3, 4):
        for exons in itertools.combinations(ivs, n):
            obl += 1
            want = _split_exons_expected(exons)
            try:
                got = list(gi.GeneInfo.split_exons(sorted(exons)))
            except Exception as e:
                got = "%s: %s" % (type(e).__name__, e)
            if got == want:
                dis += 1
            elif len(viol) < 3:
                viol.append({"obligation": "C13.split_exons.%s" % "_".join("%d-%d" % x for x in exons), "inputs": {"exons": list(exons)},
                             "observed": str(got), "required": str(want), "replay_call": "contracts.c_profiles:replay_split_exons"})
    return {"obligations": obl, "discharged": dis, "violations": viol, "cases": obl, "exhaustive": True,
            "bound": "all sets of 1-4 distinct exons over 1..%d" % u, "samples": [{"exons": [(1, 4), (3, 4)], "split": [(1, 2), (3, 4)]}]}
