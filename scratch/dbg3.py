import sys, time
sys.path.insert(0, '/verif')
from pyvc import api, engine, run
run.load_contracts()
import z3
c = api.REG[sys.argv[1]]
eng = engine.Engine(run.class_home())
eng.generate(c)
ob = [o for o in eng.obligations if o.name.endswith(sys.argv[2]) and o.path == int(sys.argv[3])][0]
print(len(ob.assumptions))
# greedy minimisation of assumptions: which are needed / which make it hard
from pyvc.calls import SPEC_AXIOMS
def chk(assums, t=3000, em=True):
    s = z3.Solver(); s.set("timeout", t)
    if em: s.set("auto_config", False); s.set("smt.mbqi", False)
    s.add(*SPEC_AXIOMS.values()); s.add(*assums); s.add(z3.Not(ob.goal)); t0=time.time(); r = s.check(); return r, time.time()-t0
print(chk(ob.assumptions))
noq = [a for a in ob.assumptions if 'ForAll' not in str(a) and 'Exists' not in str(a)]
print('without quantified assumptions', len(noq), chk(noq))
for i,a in enumerate(ob.assumptions):
    if 'ForAll' in str(a) or 'Exists' in str(a):
        r = chk(noq+[a], 2000)
        print(i, r, str(a)[:150].replace('\n',' '))
