import sys
sys.path.insert(0, '/verif')
from pyvc import run
run.load_contracts()
from contracts import c_models
bad=0
for s in range(600):
    try: p=c_models._dump_case(s)
    except Exception as e: p=[repr(e)]
    if p:
        bad+=1
        if bad<4: print(s,p[:2])
print("bad",bad)
