"""Contracts for transcript models and their printing (C03)."""
from pyvc.api import contract, spec, lemma, record, finite, bounded, enum_from_repo
from pyvc import native, front
from contracts.c_common import WF  # noqa

IV = "tuple[int,int]"
IVS = "list[tuple[int,int]]"
CLASS_HOME = {"TranscriptModel": "src/gene_info.py", "TranscriptModelType": "src/gene_info.py",
              "GraphBasedModelConstructor": "src/graph_based_model_construction.py"}
enum_from_repo("src/gene_info.py", "TranscriptModelType")

contract("src/transcript_printer.py:validate_exons", {"novel_exons": IVS}, returns="bool", props=["C03"],
         # what the printer's filter guarantees for a printed transcript: lexicographically sorted exons with 1 <= start <= end.
         # It does NOT establish disjointness or the chromosome bound; those are obligations of the producers (get_exons etc.)
         ensures=["result == (all((novel_exons[i][0] < novel_exons[j][0]) or (novel_exons[i][0] == novel_exons[j][0] and novel_exons[i][1] <= novel_exons[j][1]) "
                  "for i in range(len(novel_exons)) for j in range(i + 1, len(novel_exons))) and "
                  "all(0 < novel_exons[i][0] <= novel_exons[i][1] for i in range(len(novel_exons))))",
                  "not WF(novel_exons) or len(novel_exons) == 0 or novel_exons[0][0] <= 0 or result"],
         canary="result == WF(novel_exons)")

record("TMParams", {"apa_delta": "int"})
record("ModelCtor", {"params": "rec:TMParams"})
record("TModel", {"exon_blocks": IVS, "transcript_id": "str"})
record("AssignedRead", {"corrected_exons": IVS})


def _gen_ends(rng, n):
    gm = native.repo_import("src/graph_based_model_construction.py")
    gi = native.repo_import("src/gene_info.py")
    import types
    for _ in range(n):
        k = rng.randint(1, 4)
        p = rng.randint(1, 30)
        ex = []
        for _i in range(k):
            a = p + rng.randint(1, 20); b = a + rng.randint(0, 60); ex.append((a, b)); p = b
        reads = []
        for _r in range(rng.randint(0, 5)):
            s = ex[0][0] + rng.randint(-15, 40); e = ex[-1][1] + rng.randint(-40, 15)
            if s <= e:
                reads.append(types.SimpleNamespace(corrected_exons=[(s, max(s, min(e, ex[0][1])))] + ex[1:-1] + [(min(e, max(s, ex[-1][0])), e)] if k > 1 else [(s, e)]))
        ctor = gm.GraphBasedModelConstructor.__new__(gm.GraphBasedModelConstructor)
        ctor.params = types.SimpleNamespace(apa_delta=rng.choice([0, 5, 50]))
        m = gi.TranscriptModel("chr1", "+", "t", "g", list(ex), gi.TranscriptModelType.novel_not_in_catalog)
        yield {"self": ctor, "transcript_model": m, "assigned_reads": reads}


contract("src/graph_based_model_construction.py:GraphBasedModelConstructor.correct_novel_transcript_ends",
         {"self": "rec:ModelCtor", "transcript_model": "rec:TModel", "assigned_reads": "list[rec:AssignedRead]"},
         returns="none", props=["C03"], modifies=["transcript_model.exon_blocks"],
         locals={"new_transcript_start": "opt[int]", "new_transcript_end": "opt[int]", "read_starts": "set[int]",
                 "read_ends": "defaultdict[int,int,0]"},
         requires=["WF(transcript_model.exon_blocks)", "len(transcript_model.exon_blocks) >= 1", "transcript_model.exon_blocks[0][0] >= 1",
                   "all(len(assigned_reads[i].corrected_exons) >= 1 for i in range(len(assigned_reads)))"],
         ensures=[
             # ends only move inward, inside the terminal exons; inner coordinates never change; the model stays well-formed
             "len(transcript_model.exon_blocks) == len(old(transcript_model.exon_blocks))",
             "all(transcript_model.exon_blocks[k][0] == old(transcript_model.exon_blocks)[k][0] for k in range(1, len(transcript_model.exon_blocks)))",
             "all(transcript_model.exon_blocks[k][1] == old(transcript_model.exon_blocks)[k][1] for k in range(len(transcript_model.exon_blocks) - 1))",
             "old(transcript_model.exon_blocks)[0][0] <= transcript_model.exon_blocks[0][0] <= old(transcript_model.exon_blocks)[0][1]",
             "old(transcript_model.exon_blocks)[len(transcript_model.exon_blocks) - 1][0] <= transcript_model.exon_blocks[len(transcript_model.exon_blocks) - 1][1] "
             "<= old(transcript_model.exon_blocks)[len(transcript_model.exon_blocks) - 1][1]",
             "WF(transcript_model.exon_blocks)", "transcript_model.exon_blocks[0][0] >= 1"],
         loops={0: {"inv": ["transcript_model.exon_blocks == old(transcript_model.exon_blocks)"],
                    "locals": {"read_exons": IVS}},
                1: {"inv": ["new_transcript_start is None", "transcript_model.exon_blocks == old(transcript_model.exon_blocks)"]},
                2: {"inv": ["new_transcript_end is None", "len(transcript_model.exon_blocks) == len(old(transcript_model.exon_blocks))"]}},
         gen=_gen_ends)

record("GeneInfoRef", {"chr_id": "str", "isoform_strands": "dict[str,str]", "gene_id_map": "dict[str,str]",
                       "all_isoforms_exons": "dict[str,list[tuple[int,int]]]", "sources": "dict[str,str]",
                       "other_features": "dict[str,list[tuple[int,int,str]]]",
                       # the gene records of the annotation (a transcript may lie on another strand than its gene record)
                       "gene_strands": "dict[str,str]"})
record("TranscriptModel", {"chr_id": "str", "strand": "str", "transcript_id": "str", "gene_id": "str", "exon_blocks": IVS,
                           "transcript_type": "enum:TranscriptModelType", "source": "str",
                           "other_features": "list[tuple[int,int,str]]", "additional_info": "dict[str,str]", "intron_path": "any"})

contract("src/gene_info.py:TranscriptModel.from_reference_transcript", {"cls": None, "gene_info": "rec:GeneInfoRef", "isoform_id": "str"},
         returns="rec:TranscriptModel", props=["C03", "C17"], native=False,
         requires=["isoform_id in gene_info.isoform_strands and isoform_id in gene_info.gene_id_map and isoform_id in gene_info.all_isoforms_exons "
                   "and isoform_id in gene_info.sources and isoform_id in gene_info.other_features"],
         # a transcript reported under a reference id carries exactly the reference exon coordinates, strand, gene and source
         ensures=["result.exon_blocks == gene_info.all_isoforms_exons[isoform_id]", "result.strand == gene_info.isoform_strands[isoform_id]",
                  "result.gene_id == gene_info.gene_id_map[isoform_id]", "result.transcript_id == isoform_id",
                  "result.chr_id == gene_info.chr_id", "result.source == gene_info.sources[isoform_id]",
                  "result.transcript_type == TranscriptModelType.known",
                  "result.other_features == gene_info.other_features[isoform_id]"],
         canary="result.transcript_type == TranscriptModelType.novel_in_catalog")


# ---- GFFPrinter.dump: string assembly and gene bookkeeping, bounded natively --------------------------------------------------------
def _dump_case(seed):
    import os, random, shutil, tempfile, types
    rng = random.Random(seed)
    tp = native.repo_import("src/transcript_printer.py")
    gi_mod = native.repo_import("src/gene_info.py")
    idp = native.repo_import("src/id_policy.py")
    base = os.path.join(os.path.dirname(os.path.dirname(os.path.abspath(__file__))), ".run")
    os.makedirs(base, exist_ok=True)
    d = tempfile.mkdtemp(prefix="gff", dir=base)
    problems = []
    try:
        pr = tp.GFFPrinter(d, "s", idp.FeatureIdStorage(idp.SimpleIDDistributor()), output_r2t=False)
        models_all = []
        for call in range(rng.randint(1, 2)):
            models = []
            for m in range(rng.randint(1, 4)):
                k = rng.randint(1, 4)
                p = rng.randint(1, 400)
                ex = []
                for _ in range(k):
                    a = p + rng.randint(1, 30); b = a + rng.randint(0, 50); ex.append((a, b)); p = b
                gene = "g%d_%d" % (call, rng.randint(0, 1))
                models.append(gi_mod.TranscriptModel("chr1", rng.choice("+-"), "t%d_%d" % (call, m), gene, ex,
                                                     gi_mod.TranscriptModelType.novel_not_in_catalog))
            r = rng.random()
            if r < .35:
                ginfo = gi_mod.GeneInfo.from_models(models, 0)
            elif r < .7:
                # an annotation whose genes are SHORTER than some of the models printed under them (novel models overhang the gene)
                ref = [gi_mod.TranscriptModel("chr1", m_.strand, "ref_" + m_.transcript_id, m_.gene_id,
                                              list(m_.exon_blocks[rng.randint(0, len(m_.exon_blocks) - 1):][:rng.randint(1, 3)]),
                                              gi_mod.TranscriptModelType.known) for m_ in models if rng.random() < .7]
                ginfo = gi_mod.GeneInfo.from_models(ref, 0) if ref else gi_mod.GeneInfo.from_region("chr1", 1, 2000)
                if ref:
                    # the gene records of the annotation (what a gffutils database supplies): id, start, end of each annotated gene
                    import types
                    spans = {}
                    for r_ in ref:
                        a_, b_ = spans.get(r_.gene_id, (r_.get_start(), r_.get_end()))
                        spans[r_.gene_id] = (min(a_, r_.get_start()), max(b_, r_.get_end()))
                    ginfo.gene_db_list = [types.SimpleNamespace(id=g_, start=a_, end=b_, seqid="chr1") for g_, (a_, b_) in sorted(spans.items())]
                    ginfo.gene_regions = {}
            else:
                ginfo = gi_mod.GeneInfo.from_region("chr1", 1, 2000)
            before = [(list(m_.exon_blocks), list(getattr(m_, "other_features", []))) for m_ in models]
            pr.dump(ginfo, models)
            # printing is read-only on the models: the same objects are printed again into the extended annotation
            for m_, (ex_, of_) in zip(models, before):
                if list(m_.exon_blocks) != ex_ or list(getattr(m_, "other_features", [])) != of_:
                    problems.append("dump changed model %s: exons %s -> %s, %d -> %d other features"
                                    % (m_.transcript_id, ex_, m_.exon_blocks, len(of_), len(getattr(m_, "other_features", []))))
            models_all += models
        pr.out_gff.flush()
        # the second printing of the same objects (as construct_models_in_parallel does for the extended annotation)
        pr2 = tp.GFFPrinter(d, "again", idp.FeatureIdStorage(idp.SimpleIDDistributor()), output_r2t=False)
        pr2.dump(gi_mod.GeneInfo.from_models(models_all, 0), models_all)
        pr2.out_gff.flush()
        again = {}
        for line in open(pr2.model_fname):
            f = line.rstrip("\n").split("\t")
            if not line.startswith("#") and f[2] == "exon":
                tid_ = f[8].split('transcript_id "')[1].split('"')[0]
                again.setdefault(tid_, []).append((int(f[3]), int(f[4])))
        for m_ in models_all:
            if sorted(again.get(m_.transcript_id, [])) != sorted(m_.exon_blocks):
                problems.append("printed a second time, %s has the exon records %s for the exons %s" % (m_.transcript_id, sorted(again.get(m_.transcript_id, [])), m_.exon_blocks))
        genes, transcripts, exons = {}, {}, {}
        for line in open(pr.model_fname):
            if line.startswith("#"):
                continue
            f = line.rstrip("\n").split("\t")
            attrs = dict((kv.strip().split(" ", 1)[0], kv.strip().split(" ", 1)[1].strip('"')) for kv in f[8].split(";") if kv.strip())
            rec = (f[0], int(f[3]), int(f[4]), f[6])
            if f[2] == "gene":
                if attrs["gene_id"] in genes:
                    problems.append("gene %s printed twice" % attrs["gene_id"])
                genes[attrs["gene_id"]] = rec
            elif f[2] == "transcript":
                if attrs["transcript_id"] in transcripts:
                    problems.append("transcript %s printed twice" % attrs["transcript_id"])
                transcripts[attrs["transcript_id"]] = rec + (attrs["gene_id"],)
            elif f[2] == "exon":
                exons.setdefault(attrs["transcript_id"], []).append((int(f[3]), int(f[4]), attrs.get("exon_id")))
        for m in models_all:
            t = transcripts.get(m.transcript_id)
            if t is None:
                problems.append("transcript %s missing" % m.transcript_id)
                continue
            if (t[1], t[2]) != (m.exon_blocks[0][0], m.exon_blocks[-1][1]) or t[3] != m.strand or t[4] != m.gene_id:
                problems.append("transcript record %s does not span its exons / strand / gene" % m.transcript_id)
            if sorted((a, b) for a, b, _ in exons.get(m.transcript_id, [])) != sorted(m.exon_blocks):
                problems.append("exon records of %s differ from the model" % m.transcript_id)
            g = genes.get(m.gene_id)
            if g is None:
                problems.append("gene %s missing" % m.gene_id)
            elif not (g[1] <= t[1] and t[2] <= g[2]):
                problems.append("gene record %s spans %d-%d but its transcript %s spans %d-%d" % (m.gene_id, g[1], g[2], m.transcript_id, t[1], t[2]))
        ids = {}
        for t, exs in exons.items():
            strand = transcripts[t][3] if t in transcripts else "."
            for a, b, eid in exs:
                key = ("chr1", a, b, strand)
                if ids.setdefault(key, eid) != eid:
                    problems.append("exon %s has two ids" % (key,))
        inv = {}
        for key, eid in ids.items():
            if inv.setdefault(eid, key) != key:
                problems.append("exon id %s names two exons" % eid)
    finally:
        shutil.rmtree(d, ignore_errors=True)
    return problems


def replay_dump(d):
    p = _dump_case(d["inputs"]["seed"])
    return (not p), "seed %s: %s" % (d["inputs"]["seed"], p or "GTF consistent")


@bounded("C03.gff_dump", ["C03", "C17"], shards=8, note="the real GFFPrinter.dump on random model sets (1-2 dump calls, 1-4 models of 1-4 exons, "
         "two genes per call, with an annotation that covers the models, one whose genes are shorter than the models, or none): every transcript once and spanning exactly its exons with its strand and gene, every gene once and spanning all its transcripts, exon "
         "records equal to the model, exon_id functional and injective; parsed back from the written GTF")
def c03_dump(tier, rng):
    n = 150 if tier == "quick" else 6000
    base = rng.randrange(10 ** 9)
    for k in range(n):
        try:
            p = _dump_case(base + k)
        except Exception as e:
            p = ["exception %s: %s" % (type(e).__name__, e)]
        if p:
            return {"cases": k + 1, "bound": "%d runs" % n, "violations": [{
                "obligation": "C03.gff_dump", "inputs": {"seed": base + k}, "observed": p[:3], "required": "consistent GTF",
                "replay_call": "contracts.c_models:replay_dump"}]}
    return {"cases": n, "bound": "%d random dumps" % n, "violations": [], "samples": [{"seed": base}]}


# ---- TranscriptToGeneJoiner: a reference gene is never merged away (its transcripts keep their gene record) --------------------------
G = "src/graph_based_model_construction.py:"
record("GeneInfoJ", {"gene_strands": "dict[str,str]"})
record("TranscriptToGeneJoiner", {"gene_info": "rec:GeneInfoJ", "scores": "dict[tuple[str,str],real]"})
CLASS_HOME["TranscriptToGeneJoiner"] = "src/graph_based_model_construction.py"


@spec("dict[tuple[str,str],real], dict[str,str] -> bool")
def pairs_ok(scores, ref):
    # a scored pair never consists of two reference genes, nor of a gene with itself
    return all(not (k[0] in ref and k[1] in ref) and k[0] != k[1] for k in scores)


record("TranscriptToGeneJoinerS", {"gene_strands": "dict[str,str]", "gene_introns": "dict[str,set[tuple[int,int]]]",
                                   "gene_regions": "dict[str,tuple[int,int]]"})
contract(G + "TranscriptToGeneJoiner.count_score#strands", {"self": "rec:TranscriptToGeneJoinerS", "gene1": "str", "gene2": "str"},
         returns="real", props=["C03", "C04"], native=False,
         requires=["gene1 in self.gene_strands and gene2 in self.gene_strands", "gene1 in self.gene_introns and gene2 in self.gene_introns",
                   "gene1 in self.gene_regions and gene2 in self.gene_regions",
                   "self.gene_regions[gene1][0] <= self.gene_regions[gene1][1]", "self.gene_regions[gene2][0] <= self.gene_regions[gene2][1]"],
         # two genes whose strands differ (an unknown strand '.' differs from '+' and from '-') are never candidates for a merge
         ensures=["self.gene_strands[gene1] == self.gene_strands[gene2] or result == 0", "result >= 0"],
         canary="result == 0")
contract(G + "TranscriptToGeneJoiner.count_scores", {"self": "rec:TranscriptToGeneJoiner"}, returns="none", trusted=True, props=[],
         modifies=["self.scores"], ensures=["pairs_ok(self.scores, self.gene_info.gene_strands)"], native=False,
         note="nested loops over dict keys; assumed: pairs of two reference genes are skipped (checked natively by C03.gene_joiner)")
contract(G + "TranscriptToGeneJoiner.merge_genes", {"self": "rec:TranscriptToGeneJoiner", "gene1": "str", "gene2": "str"},
         returns="none", trusted=True, props=[], modifies=["self.scores"], native=False,
         # the gene that disappears must not be a reference gene: reference transcripts keep their reference gene record
         requires=["gene2 not in self.gene_info.gene_strands", "gene1 != gene2"],
         ensures=["all(k in old(self.scores) for k in self.scores)", "len(self.scores) < len(old(self.scores))"],
         note="dict/set bookkeeping; assumed: only pairs not involving gene2 survive")
contract(G + "TranscriptToGeneJoiner.join_transcripts", {"self": "rec:TranscriptToGeneJoiner"}, returns="none", props=["C03", "C04"],
         modifies=["self.scores"], native=False,
         slice={"from": "self.count_scores()", "to": "transcript_to_new_gene_id = {}"},
         ensures=["True"],
         loops={0: {"inv": ["pairs_ok(self.scores, self.gene_info.gene_strands)"], "locals": {"best_gene_pair": "tuple[str,str]"}}})


def _joiner_case(seed):
    import random
    rng = random.Random(seed)
    gi_mod = native.repo_import("src/gene_info.py")
    gm = native.repo_import("src/graph_based_model_construction.py")
    ref_ids = rng.sample(["ENSG0001", "zfp36", "sox2", "Abc1", "ref_gene1", "novel_gene_chr1_5"], rng.randint(1, 2))
    models = []
    p = 1000
    ref_models = []
    for g in ref_ids:
        strand = rng.choice("+-")
        ex = []
        q = p
        for _ in range(rng.randint(2, 4)):
            a = q + rng.randint(100, 300); b = a + rng.randint(50, 150); ex.append((a, b)); q = b
        ref_models.append(gi_mod.TranscriptModel("chr1", strand, g + ".t1", g, ex, gi_mod.TranscriptModelType.known))
        p = q + (rng.randint(-400, 100) if rng.random() < .5 else rng.randint(500, 900))
    ginfo = gi_mod.GeneInfo.from_models(ref_models, 0)
    # what the gffutils-backed constructor additionally provides for reference genes
    ginfo.gene_strands = {m.gene_id: m.strand for m in ref_models}
    ginfo.gene_regions = {m.gene_id: (m.exon_blocks[0][0], m.exon_blocks[-1][1]) for m in ref_models}
    storage = []
    for m in ref_models:
        if rng.random() < .8:
            storage.append(gi_mod.TranscriptModel("chr1", m.strand, m.transcript_id, m.gene_id, list(m.exon_blocks), gi_mod.TranscriptModelType.known))
    for k in range(rng.randint(1, 4)):
        base = rng.choice(ref_models)
        shift = rng.choice([0, 0, 37, 2000])
        ex = [(a + shift + (11 if i else 0), b + shift + (13 if i < len(base.exon_blocks) - 1 else 0)) for i, (a, b) in enumerate(base.exon_blocks)]
        storage.append(gi_mod.TranscriptModel("chr1", base.strand if rng.random() < .6 else rng.choice([("+" if base.strand == "-" else "-"), "."]),
                                              "transcript%d.chr1.nnic" % k, "novel_gene_chr1_%d" % rng.choice([2, 12, 30 + k]), ex,
                                              gi_mod.TranscriptModelType.novel_not_in_catalog))
    # novel models of one novel gene must share the strand (constructor's precondition)
    seen = {}
    for m in storage:
        if m.transcript_type != gi_mod.TranscriptModelType.known:
            if m.gene_id in seen and seen[m.gene_id] != m.strand:
                m.gene_id = m.gene_id + "9"
            seen.setdefault(m.gene_id, m.strand)
    before = {m.transcript_id: m.gene_id for m in storage}
    j = gm.TranscriptToGeneJoiner(storage, ginfo)
    out = j.join_transcripts()
    problems = []
    for m in out:
        if m.transcript_type == gi_mod.TranscriptModelType.known and m.gene_id != ginfo.gene_id_map[m.transcript_id]:
            problems.append("reference transcript %s is reported under gene %s, its reference gene is %s"
                            % (m.transcript_id, m.gene_id, ginfo.gene_id_map[m.transcript_id]))
    if len({m.transcript_id for m in out}) != len(before):
        problems.append("models lost or duplicated")
    # a gene record carries one strand: all transcripts reported under one gene id lie on the same strand (and on the reference gene's)
    by_gene = {}
    for m in out:
        by_gene.setdefault(m.gene_id, set()).add(m.strand)
        if m.gene_id in ginfo.gene_strands and m.strand != ginfo.gene_strands[m.gene_id]:
            problems.append("transcript %s (strand %s) is reported under reference gene %s of strand %s" % (m.transcript_id, m.strand, m.gene_id, ginfo.gene_strands[m.gene_id]))
    for g, ss in by_gene.items():
        if len(ss) > 1:
            problems.append("gene %s holds transcripts of strands %s" % (g, sorted(ss)))
    return problems


def replay_joiner(d):
    p = _joiner_case(d["inputs"]["seed"])
    return (not p), "seed %s: %s" % (d["inputs"]["seed"], p or "reference transcripts keep their genes")


@bounded("C03.gene_joiner", ["C03", "C04"], shards=8, note="the real TranscriptToGeneJoiner on random loci (1-2 reference genes with ids of several "
         "shapes - upper case, lower case, previously generated novel_gene ids - and 1-4 overlapping novel models): every transcript "
         "reported under a reference id keeps its reference gene; no model is lost; all transcripts of one reported gene share its strand "
         "(novel models on the opposite or on an unknown strand included)")
def c03_joiner(tier, rng):
    n = 600 if tier == "quick" else 30000
    base = rng.randrange(10 ** 9)
    for k in range(n):
        try:
            p = _joiner_case(base + k)
        except AssertionError:
            continue
        except Exception as e:
            p = ["exception %s: %s" % (type(e).__name__, e)]
        if p:
            return {"cases": k + 1, "bound": "%d loci" % n, "violations": [{
                "obligation": "C03.gene_joiner", "inputs": {"seed": base + k}, "observed": p[:3],
                "required": "reference transcripts keep their reference gene", "replay_call": "contracts.c_models:replay_joiner"}]}
    return {"cases": n, "bound": "%d random loci" % n, "violations": [], "samples": [{"seed": base}]}


# ---- GFFPrinter.dump: the gene record spans every transcript printed under it (and the annotated gene) -------------------------------------
import ast as _ast
import copy as _copy


class _NamedTupleToTuple(_ast.NodeTransformer):
    FIELDS = {"chr_id": 0, "strand": 1, "gene_region": 2}

    def visit_Call(self, node):
        self.generic_visit(node)
        if isinstance(node.func, _ast.Name) and node.func.id == "GFFGeneInfo" and len(node.args) == 3 and not node.keywords:
            return _ast.Tuple(elts=list(node.args), ctx=_ast.Load())
        return node

    def visit_Attribute(self, node):
        self.generic_visit(node)
        if isinstance(node.value, _ast.Name) and node.value.id == "gene_record" and node.attr in self.FIELDS:
            return _ast.Subscript(value=node.value, slice=_ast.Constant(value=self.FIELDS[node.attr]), ctx=node.ctx)
        return node


def _dump_regions_extract(fdef):
    """GFFPrinter.dump: the loop that accumulates gene_info_dict (gene id -> chromosome, strand, gene region), returning that dict.
    `gene_regions` (gene_info.get_gene_regions(), or {} for an empty gene_info) becomes a parameter; the namedtuple GFFGeneInfo(chr_id,
    strand, gene_region) is read as the plain tuple it is (fields by position); drops the early return on an empty storage, the sorting
    and all writing after the loop"""
    loop = next((n for n in fdef.body if isinstance(n, _ast.For) and _ast.unparse(n.iter) == "enumerate(transcript_model_storage)"), None)
    if loop is None:
        raise front.Missing("gene region loop of GFFPrinter.dump not found")
    pre = [n for n in fdef.body if isinstance(n, _ast.Assign) and _ast.unparse(n.targets[0]) in ("gene_to_model_dict", "gene_info_dict")
           and n.lineno < loop.lineno]
    if len(pre) != 2:
        raise front.Missing("initialisation of gene_to_model_dict / gene_info_dict not found")
    body = [_copy.deepcopy(n) for n in pre] + [_NamedTupleToTuple().visit(_copy.deepcopy(loop)),
                                                _ast.Return(value=_ast.Name(id="gene_info_dict", ctx=_ast.Load()))]
    args = _ast.arguments(posonlyargs=[], args=[_ast.arg(arg=a) for a in ("self", "gene_info", "transcript_model_storage", "gene_regions")],
                          kwonlyargs=[], kw_defaults=[], defaults=[])
    return _ast.fix_missing_locations(_ast.FunctionDef(name="dump", args=args, body=body, decorator_list=[], lineno=loop.lineno, col_offset=0))


record("TModelD", {"chr_id": "str", "strand": "str", "transcript_id": "str", "gene_id": "str", "exon_blocks": IVS})
record("GeneInfoD", {"chr_id": "str"})
_GREC = "tuple[str,str,tuple[int,int]]"
_VALID = ("(all((%(e)s[i][0] < %(e)s[j][0]) or (%(e)s[i][0] == %(e)s[j][0] and %(e)s[i][1] <= %(e)s[j][1]) "
          "for i in range(len(%(e)s)) for j in range(i + 1, len(%(e)s))) and all(0 < %(e)s[i][0] <= %(e)s[i][1] for i in range(len(%(e)s))))")
_S = "transcript_model_storage"
contract("src/transcript_printer.py:GFFPrinter.dump#gene_regions",
         {"self": None, "gene_info": "rec:GeneInfoD", _S: "list[rec:TModelD]", "gene_regions": "dict[str,tuple[int,int]]"},
         returns="dict[str,%s]" % _GREC, props=["C03"], extract=_dump_regions_extract, native=False,
         locals={"gene_info_dict": "dict[str,%s]" % _GREC, "gene_to_model_dict": "defaultdict[str,list[int],'new']"},
         requires=["all(len(m.exon_blocks) >= 1 and m.chr_id == gene_info.chr_id for m in %s)" % _S,
                   "all(gene_regions[g][0] <= gene_regions[g][1] for g in gene_regions)"],
         ensures=[
             # every model that passes the printer's filter has a gene record, and that record spans the transcript record printed for it
             "all(not %s or (%s[k].gene_id in result and result[%s[k].gene_id][2][0] <= %s[k].exon_blocks[0][0] and "
             "%s[k].exon_blocks[len(%s[k].exon_blocks) - 1][1] <= result[%s[k].gene_id][2][1]) for k in range(len(%s)))"
             % ((_VALID % {"e": "%s[k].exon_blocks" % _S},) + (_S,) * 7),
             # a gene of the annotation keeps (at least) its annotated span
             "all(g not in gene_regions or (result[g][2][0] <= gene_regions[g][0] and gene_regions[g][1] <= result[g][2][1]) for g in result)",
             "all(result[g][2][0] <= result[g][2][1] for g in result)"],
         loops={0: {"inv": [
             "all(not %s or (%s[k].gene_id in gene_info_dict and gene_info_dict[%s[k].gene_id][2][0] <= %s[k].exon_blocks[0][0] and "
             "%s[k].exon_blocks[len(%s[k].exon_blocks) - 1][1] <= gene_info_dict[%s[k].gene_id][2][1]) for k in range(_k0))"
             % ((_VALID % {"e": "%s[k].exon_blocks" % _S},) + (_S,) * 6),
             "all(g not in gene_regions or (gene_info_dict[g][2][0] <= gene_regions[g][0] and gene_regions[g][1] <= gene_info_dict[g][2][1]) for g in gene_info_dict)",
             "all(gene_info_dict[g][2][0] <= gene_info_dict[g][2][1] for g in gene_info_dict)",
             "all(gene_info_dict[g][0] == gene_info.chr_id for g in gene_info_dict)"]}},
         canary="len(result) == 0")


# ---- reference transcripts are loaded with exactly their annotated exons (the source of every verbatim copy later on) ---------------------
class _F:
    def __init__(self, id, ft, start, end):
        self.id, self.featuretype, self.start, self.end = id, ft, start, end


class _StubAnnotation:
    """what GeneInfo.set_introns_and_exons uses of a gffutils database: children(feature, featuretype=, order_by='start')"""
    def __init__(self, kids):
        self.kids = kids

    def children(self, feature, featuretype=None, order_by=None):
        fts = featuretype if isinstance(featuretype, tuple) else ((featuretype,) if featuretype else None)
        out = [k for k in self.kids.get(feature.id, []) if fts is None or k.featuretype in fts]
        return sorted(out, key=lambda k: k.start) if order_by == "start" else list(out)


def _loading_case(seed):
    import random
    rng = random.Random(seed)
    gi_mod = native.repo_import("src/gene_info.py")
    kids, want, genes = {}, {}, []
    for g in range(rng.randint(1, 2)):
        gene = _F("G%d" % g, "gene", 1, 10 ** 6)
        genes.append(gene)
        kids[gene.id] = []
        for t in range(rng.randint(1, 3)):
            tr = _F("G%d.t%d" % (g, t), rng.choice(["transcript", "mRNA"]), 1, 10 ** 6)
            kids[gene.id].append(tr)
            ex, p = [], rng.randint(1, 500)
            for _ in range(rng.randint(1, 5)):
                a = p + rng.choice([1, 1, 2, 50, 300])           # touching (gap 0) and near-touching exon records are legal GTF
                b = a + rng.randint(0, 200)
                ex.append((a, b))
                p = b
            want[tr.id] = ex
            recs = [_F("%s.e%d" % (tr.id, k), "exon", a, b) for k, (a, b) in enumerate(ex)]
            recs += [_F("%s.cds" % tr.id, "CDS", ex[0][0], ex[0][1]), _F("%s.sc" % tr.id, "start_codon", ex[0][0], ex[0][0] + 2)]
            rng.shuffle(recs)
            kids[tr.id] = recs
    g = gi_mod.GeneInfo.__new__(gi_mod.GeneInfo)
    g.db, g.gene_db_list = _StubAnnotation(kids), genes
    g.intron_profiles, g.exon_profiles = gi_mod.FeatureProfiles(), gi_mod.FeatureProfiles()
    introns, exons = g.set_introns_and_exons()
    problems = []
    for tid, ex in want.items():
        if exons.get(tid) != ex:
            problems.append("%s: annotated exons %s loaded as %s" % (tid, ex, exons.get(tid)))
        elif introns.get(tid) != [(ex[i][1] + 1, ex[i + 1][0] - 1) for i in range(len(ex) - 1) if ex[i + 1][0] > ex[i][1] + 1]:
            problems.append("%s: introns %s do not lie between the exons %s" % (tid, introns.get(tid), ex))
    return problems


def replay_loading(d):
    p = _loading_case(d["inputs"]["seed"])
    return (not p), "seed %s: %s" % (d["inputs"]["seed"], p or "exons loaded verbatim")


@bounded("C03.reference_loading", ["C03"], shards=4, note="the real GeneInfo.set_introns_and_exons over a stub annotation database (1-2 genes, 1-3 "
         "transcripts of 1-5 exon records each - touching and near-touching exons, CDS / codon records mixed in, records in any order): every "
         "transcript is loaded with exactly its annotated exon records in coordinate order")
def c03_loading(tier, rng):
    n = 300 if tier == "quick" else 20000
    base = rng.randrange(10 ** 9)
    for k in range(n):
        try:
            p = _loading_case(base + k)
        except Exception as e:
            p = ["exception %s: %s" % (type(e).__name__, e)]
        if p:
            return {"cases": k + 1, "bound": "%d annotations" % n, "violations": [{
                "obligation": "C03.reference_loading", "inputs": {"seed": base + k}, "observed": p[:3],
                "required": "reference exons loaded verbatim", "replay_call": "contracts.c_models:replay_loading"}]}
    return {"cases": n, "bound": "%d random annotations" % n, "violations": [], "samples": [{"seed": base}]}


# ---- one gene dumped from several read islands: the gene record is written once and must hold for all later dumps ------------------------------
def _shared_gene_case(seed):
    """2-3 dump calls (read islands of one annotated gene G, span known from the annotation), each with 1-2 models attributed to G; some models
    overhang the annotated span (novel first / last exons). Returns (problems, description)."""
    import os, random, shutil, tempfile, types
    rng = random.Random(seed)
    tp = native.repo_import("src/transcript_printer.py")
    gi_mod = native.repo_import("src/gene_info.py")
    idp = native.repo_import("src/id_policy.py")
    base = os.path.join(os.path.dirname(os.path.dirname(os.path.abspath(__file__))), ".run")
    os.makedirs(base, exist_ok=True)
    d = tempfile.mkdtemp(prefix="gffs", dir=base)
    problems, desc = [], {"calls": []}
    try:
        pr = tp.GFFPrinter(d, "s", idp.FeatureIdStorage(idp.SimpleIDDistributor()), output_r2t=False)
        glo, ghi = 1000, 9000
        rng2 = random.Random(seed * 29 + 11)
        strand = rng.choice("+-")
        ref = gi_mod.TranscriptModel("chr1", strand, "G.ref", "G", [(glo, glo + 200), (ghi - 200, ghi)], gi_mod.TranscriptModelType.known)
        dumped = {}
        n_calls = rng.randint(2, 3)
        for call in range(n_calls):
            models = []
            # island `call` covers its own third of the gene; a model may start before the gene (first island) or end after it (last island)
            a0 = glo + (ghi - glo) * call // n_calls
            b0 = glo + (ghi - glo) * (call + 1) // n_calls - 300
            for m in range(rng.randint(1, 2)):
                a = a0 + rng.randint(0, 100)
                b = b0 - rng.randint(0, 100)
                if call == 0 and rng.random() < .4:
                    a = glo - rng.randint(50, 600)
                if call == n_calls - 1 and rng.random() < .4:
                    b = ghi + rng.randint(50, 600)
                mid = (a + b) // 2
                ex = [(a, mid - 150), (mid + 150, b)]
                t = "t%d_%d" % (call, m)
                models.append(gi_mod.TranscriptModel("chr1", strand, t, "G", ex, gi_mod.TranscriptModelType.novel_not_in_catalog))
                dumped[t] = (call, ex)
            ginfo = gi_mod.GeneInfo.from_models([ref], 0)
            ginfo.gene_db_list = [types.SimpleNamespace(id="G", start=glo, end=ghi, seqid="chr1")]
            ginfo.gene_regions = {}
            pr.dump(ginfo, models)
            desc["calls"].append([(m_.transcript_id, m_.exon_blocks[0][0], m_.exon_blocks[-1][1]) for m_ in models])
            # between two islands of G, half of the time, an island that yields models of ANOTHER gene only (a gene nested in an intron of G)
            if call < n_calls - 1 and rng2.random() < .5:
                hb = b0 + 60
                hm = gi_mod.TranscriptModel("chr1", strand, "h%d" % call, "H%d" % call, [(hb, hb + 40), (hb + 100, hb + 160)],
                                            gi_mod.TranscriptModelType.novel_not_in_catalog)
                pr.dump(gi_mod.GeneInfo.from_models([hm], 0), [hm])
                desc["calls"].append([("h%d" % call, hb, hb + 160)])
        pr.out_gff.flush()
        gene_lines = []
        printed = set()
        for line in open(pr.model_fname):
            if line.startswith("#"):
                continue
            f = line.rstrip("\n").split("\t")
            if f[2] == "gene" and 'gene_id "G"' in f[8]:
                gene_lines.append((int(f[3]), int(f[4]), f[6]))
            if f[2] == "transcript":
                printed.add(f[8].split('transcript_id "')[1].split('"')[0])
        # whichever island of the gene a model comes from, it is written (the reads table lists reads for it)
        for t, (call, ex) in sorted(dumped.items()):
            if t not in printed:
                problems.append("transcript %s of gene G (dump %d) is not in the file" % (t, call))
        if len(gene_lines) != 1:
            problems.append("gene G has %d gene records %s" % (len(gene_lines), gene_lines))
        else:
            g = gene_lines[0]
            if g[2] != strand:
                problems.append("gene record on strand %s, transcripts on %s" % (g[2], strand))
            for t, (call, ex) in sorted(dumped.items()):
                if not (g[0] <= ex[0][0] and ex[-1][1] <= g[1]):
                    problems.append("gene record G spans %d-%d but its transcript %s (dump %d) spans %d-%d" % (g[0], g[1], t, call, ex[0][0], ex[-1][1]))
    finally:
        shutil.rmtree(d, ignore_errors=True)
    return problems, desc


def kf_gene_record_written_with_first_island(inputs):
    """known-finding class: exactly one gene record, and every transcript it fails to contain was dumped in a LATER call than the first one
    (the record is streamed with the first island of the gene and cannot grow afterwards)"""
    import re
    problems, desc = _shared_gene_case(inputs["seed"])
    if not problems:
        return False
    for p in problems:
        m = re.match(r"gene record G spans \d+-\d+ but its transcript \S+ \(dump (\d+)\) spans", p)
        if not m or int(m.group(1)) == 0:
            return False
    return True


def replay_shared_gene(d):
    p, desc = _shared_gene_case(d["inputs"]["seed"])
    return (not p), "seed %s %s: %s" % (d["inputs"]["seed"], desc, p or "one gene record containing all transcripts")


@bounded("C03.gene_record_across_dumps", ["C03"], note="the real GFFPrinter.dump called for 2-3 read islands of ONE annotated gene, with models "
         "that may overhang the annotated span: exactly one gene record, on the transcripts' strand, containing every transcript attributed to "
         "the gene whichever island it came from")
def c03_shared_gene(tier, rng):
    n = 150 if tier == "quick" else 5000
    base = rng.randrange(10 ** 9)
    reps = {}
    for k in range(n):
        try:
            p, desc = _shared_gene_case(base + k)
        except Exception as e:
            p, desc = ["exception %s: %s" % (type(e).__name__, e)], {}
        if p:
            cls = False
            try:
                cls = kf_gene_record_written_with_first_island({"seed": base + k})
            except Exception:
                pass
            reps.setdefault(cls, {"obligation": "C03.gene_record_across_dumps", "inputs": {"seed": base + k}, "observed": p[:3] + [str(desc)],
                                  "required": "one gene record that contains all transcripts of the gene", "replay_call": "contracts.c_models:replay_shared_gene"})
            if False in reps:
                break
    return {"cases": n, "bound": "%d random island sequences" % n, "violations": [reps[c] for c in sorted(reps)], "samples": [{"seed": base}]}
