"""Contracts for src/serialization.py (C15): byte-level encodings and reader/writer round trips."""
from pyvc.api import contract, spec, lemma
from pyvc.streams import ByteList

S = "src/serialization.py:"
H = "verif/contracts/h_serialization.py:"
BYTES = "list[int]"


def _stream_args(*names):
    def conv(argmap):
        for n in names:
            argmap[n] = ByteList(argmap[n])
        return argmap
    return conv


@spec("list[int] -> bool")
def isbytes(b):
    return all(0 <= b[i] <= 255 for i in range(len(b)))


# ---- primitives: real bodies are inlined at call sites; their own contracts are proved per byte length ------------------
contract(S + "write_int", {"val": "int", "outf": BYTES, "bytes_len": "int"}, returns="none", transparent=True,
         props=["C15"], cases={"bytes_len": [1, 2, 4]}, modifies=["outf"], native_args=_stream_args("outf"),
         requires=["0 <= val < 256 ** bytes_len"],
         ensures=["len(outf) == len(old(outf)) + bytes_len",
                  "all(outf[i] == old(outf)[i] for i in range(len(old(outf))))",
                  "all(0 <= outf[len(old(outf)) + k] <= 255 for k in range(bytes_len))",
                  "sum(outf[len(old(outf)) + k] * 256 ** (bytes_len - 1 - k) for k in range(bytes_len)) == val"],
         gen=lambda rng, n: ({"val": rng.choice([0, 1, 255, 256, 65535, 65536, 2 ** 31, 2 ** 32 - 1, rng.randrange(2 ** 32)]) % (256 ** bl),
                              "outf": [rng.randrange(256) for _ in range(rng.randint(0, 3))], "bytes_len": bl}
                             for bl in (rng.choice([1, 2, 4]) for _ in range(n))))

contract(S + "read_int", {"inf": BYTES, "bytes_len": "int"}, returns="int", transparent=True, props=["C15"],
         cases={"bytes_len": [1, 2, 4]}, modifies=["inf"], native_args=_stream_args("inf"),
         requires=["len(inf) >= bytes_len", "isbytes(inf)"],
         ensures=["result == sum(old(inf)[k] * 256 ** (bytes_len - 1 - k) for k in range(bytes_len))",
                  "len(inf) == len(old(inf)) - bytes_len",
                  "all(inf[i] == old(inf)[i + bytes_len] for i in range(len(inf)))",
                  "0 <= result < 256 ** bytes_len"],
         gen=lambda rng, n: ({"inf": [rng.randrange(256) for _ in range(rng.randint(bl, bl + 3))], "bytes_len": bl}
                             for bl in (rng.choice([1, 2, 4]) for _ in range(n))))

contract(S + "write_short_int", {"val": "int", "outf": BYTES}, returns="none", transparent=True, props=["C15"],
         modifies=["outf"], requires=["0 <= val < 65536"], native_args=_stream_args("outf"),
         ensures=["len(outf) == len(old(outf)) + 2", "outf[len(old(outf))] * 256 + outf[len(old(outf)) + 1] == val",
                  "all(outf[i] == old(outf)[i] for i in range(len(old(outf))))"])
contract(S + "read_short_int", {"inf": BYTES}, returns="int", transparent=True, props=["C15"], modifies=["inf"],
         requires=["len(inf) >= 2", "isbytes(inf)"], native_args=_stream_args("inf"),
         ensures=["result == old(inf)[0] * 256 + old(inf)[1]", "len(inf) == len(old(inf)) - 2"])

contract(S + "write_int_neg", {"val": "int", "outf": BYTES}, returns="none", transparent=True, props=["C15"],
         modifies=["outf"], native_args=_stream_args("outf"),
         # the two source asserts (bit 31 clear) and the OverflowError of to_bytes are safety obligations under this domain
         requires=["-2 ** 31 < val < 2 ** 31"],
         ensures=["len(outf) == len(old(outf)) + 4",
                  "all(outf[i] == old(outf)[i] for i in range(len(old(outf))))",
                  "sum(outf[len(old(outf)) + k] * 256 ** (3 - k) for k in range(4)) == (val if val >= 0 else 2 ** 31 - val)"],
         canary="sum(outf[len(old(outf)) + k] * 256 ** (3 - k) for k in range(4)) == val",
         gen=lambda rng, n: ({"val": rng.choice([0, 1, -1, 5, -5, 2 ** 31 - 1, -(2 ** 31 - 1), rng.randrange(-2 ** 31 + 1, 2 ** 31)]),
                              "outf": []} for _ in range(n)))
contract(S + "read_int_neg", {"inf": BYTES}, returns="int", transparent=True, props=["C15"], modifies=["inf"],
         requires=["len(inf) >= 4", "isbytes(inf)"], native_args=_stream_args("inf"),
         ensures=["len(inf) == len(old(inf)) - 4",
                  "result == (lambda w: w if w < 2 ** 31 else -(w - 2 ** 31))(sum(old(inf)[k] * 256 ** (3 - k) for k in range(4)))"],
         native=True,
         gen=lambda rng, n: ({"inf": [rng.randrange(256) for _ in range(rng.randint(4, 6))]} for _ in range(n)))

contract(S + "read_bool_array", {"inf": BYTES, "arr_size": "int"}, returns="list[bool]", transparent=True, props=["C15"],
         modifies=["inf"], cases={"arr_size": [1, 2, 3, 8]}, native_args=_stream_args("inf"),
         locals={"bool_arr": "list[bool]"}, loops={0: {"unroll": True}},
         requires=["len(inf) >= 1", "isbytes(inf)"],
         ensures=["len(result) == arr_size", "len(inf) == len(old(inf)) - 1",
                  "all(result[i] == ((old(inf)[0] // 2 ** i) % 2 == 1) for i in range(arr_size))"],
         gen=lambda rng, n: ({"inf": [rng.randrange(256), 3], "arr_size": rng.choice([1, 2, 3, 8])} for _ in range(n)))

contract(S + "write_bool_array", {"bool_arr": "list[bool]", "outf": BYTES}, returns="none", transparent=True, props=["C15"],
         modifies=["outf"], requires=["len(bool_arr) <= 8"], native_args=_stream_args("outf"),
         ensures=["len(outf) == len(old(outf)) + 1",
                  "all(outf[i] == old(outf)[i] for i in range(len(old(outf))))",
                  "0 <= outf[len(old(outf))] < 256",
                  "outf[len(old(outf))] == bits_val(bool_arr, len(bool_arr))"],
         native_ensures=["len(outf) == len(old(outf)) + 1",
                         "all(((outf[len(old(outf))] // 2 ** i) % 2 == 1) == bool_arr[i] for i in range(len(bool_arr)))"],
         loops={0: {"inv": ["0 <= byte_val < 2 ** _k0", "byte_val == bits_val(bool_arr, _k0)"]}},
         gen=lambda rng, n: ({"bool_arr": [rng.random() < 0.5 for _ in range(rng.randint(0, 8))], "outf": []} for _ in range(n)))


@spec("list[bool], int -> int")
def bits_val(a, n):
    return 0 if n <= 0 else bits_val(a, n - 1) + (2 ** (n - 1) if a[n - 1] else 0)


contract(S + "write_string", {"s": "str", "outf": BYTES}, returns="none", transparent=True, props=["C15"],
         modifies=["outf"], native_args=_stream_args("outf"),
         # the announced length is the number of BYTES that follow (utf8len), whatever characters the string holds
         requires=["utf8len(s) < 65536"],
         ensures=["len(outf) == len(old(outf)) + 2 + utf8len(s)",
                  "outf[len(old(outf))] * 256 + outf[len(old(outf)) + 1] == utf8len(s)",
                  "all(outf[i] == old(outf)[i] for i in range(len(old(outf))))"],
         gen=lambda rng, n: ({"s": rng.choice(["", "a", "chr1", "read_00012/ccs", "x" * 300, "g\u00e8ne", "\u00e9" * 40, "\u4e2d\u6587_id"]), "outf": []} for _ in range(n)))

contract(S + "read_string", {"inf": BYTES}, returns="str", transparent=True, props=["C15"], modifies=["inf"],
         requires=["len(inf) >= 2", "isbytes(inf)", "len(inf) >= 2 + inf[0] * 256 + inf[1]"],
         native_args=_stream_args("inf"),
         ensures=["len(inf) == len(old(inf)) - 2 - (old(inf)[0] * 256 + old(inf)[1])"],
         gen=lambda rng, n: ({"inf": [0, k] + [rng.randrange(32, 127) for _ in range(k + rng.randint(0, 2))]}
                             for k in (rng.randint(0, 5) for _ in range(n))))

contract(S + "write_string_or_none", {"s": "opt[str]", "outf": BYTES}, returns="none", transparent=True, props=["C15"],
         modifies=["outf"], native_args=_stream_args("outf"),
         # 65535 is the None marker, so a real string must be shorter than that
         requires=["s is None or utf8len(s) < 65535"],
         ensures=["len(outf) == len(old(outf)) + 2 + (0 if s is None else utf8len(s))",
                  "outf[len(old(outf))] * 256 + outf[len(old(outf)) + 1] == (65535 if s is None else utf8len(s))"],
         gen=lambda rng, n: ({"s": rng.choice([None, "", "a", "ENST0001.1", "g\u00e8ne"]), "outf": []} for _ in range(n)))

contract(S + "read_string_or_none", {"inf": BYTES}, returns="opt[str]", transparent=True, props=["C15"], modifies=["inf"],
         requires=["len(inf) >= 2", "isbytes(inf)",
                   "inf[0] * 256 + inf[1] == 65535 or len(inf) >= 2 + inf[0] * 256 + inf[1]"],
         native_args=_stream_args("inf"),
         ensures=["(result is None) == (old(inf)[0] * 256 + old(inf)[1] == 65535)",
                  "len(inf) == len(old(inf)) - 2 - (0 if result is None else old(inf)[0] * 256 + old(inf)[1])"],
         gen=lambda rng, n: ({"inf": rng.choice([[255, 255, 7], [0, 2, 65, 66, 9], [0, 0]])} for _ in range(n)))

# ---- round trips over the real pairs (harness = writer ; reader) -----------------------------------------------------------
contract(H + "rt_int", {"val": "int", "bytes_len": "int", "rest": BYTES}, returns="tuple[int,list[int],int]",
         props=["C15"], cases={"bytes_len": [1, 2, 4]},
         requires=["0 <= val < 256 ** bytes_len", "isbytes(rest)"],
         ensures=["result[0] == val", "result[2] == bytes_len", "result[1] == rest"],
         canary="result[0] == val + 1",
         gen=lambda rng, n: ({"val": rng.randrange(256 ** bl), "bytes_len": bl, "rest": [rng.randrange(256) for _ in range(rng.randint(0, 3))]}
                             for bl in (rng.choice([1, 2, 4]) for _ in range(n))))
contract(H + "rt_short_int", {"val": "int", "rest": BYTES}, returns="tuple[int,list[int],int]", props=["C15"],
         requires=["0 <= val < 65536", "isbytes(rest)"], ensures=["result[0] == val", "result[2] == 2", "result[1] == rest"])
contract(H + "rt_int_neg", {"val": "int", "rest": BYTES}, returns="tuple[int,list[int],int]", props=["C15"],
         requires=["-2 ** 31 < val < 2 ** 31", "isbytes(rest)"],
         ensures=["result[0] == val", "result[2] == 4", "result[1] == rest"], canary="result[0] == -val",
         gen=lambda rng, n: ({"val": rng.choice([0, -1, 1, -5, 2 ** 31 - 1, 1 - 2 ** 31, rng.randrange(1 - 2 ** 31, 2 ** 31)]),
                              "rest": [rng.randrange(256) for _ in range(rng.randint(0, 3))]} for _ in range(n)))
contract(H + "rt_bool_array3", {"b0": "bool", "b1": "bool", "b2": "bool", "rest": BYTES},
         returns="tuple[list[bool],list[int],int]", props=["C15"], requires=["isbytes(rest)"],
         ensures=["len(result[0]) == 3 and result[0][0] == b0 and result[0][1] == b1 and result[0][2] == b2",
                  "result[2] == 1", "result[1] == rest"])
contract(H + "rt_bool_array2_of3", {"b0": "bool", "b1": "bool", "b2": "bool", "rest": BYTES},
         returns="tuple[list[bool],list[int],int]", props=["C15"], requires=["isbytes(rest)"],
         ensures=["len(result[0]) == 2 and result[0][0] == b0 and result[0][1] == b1", "result[2] == 1", "result[1] == rest"])
contract(H + "rt_string_len", {"sv": "str", "rest": BYTES}, returns="tuple[str,list[int],int]", props=["C15"],
         requires=["utf8len(sv) < 65536", "isbytes(rest)"],
         ensures=["result[2] == 2 + utf8len(sv)", "result[1] == rest"],
         native_ensures=["result[2] == 2 + utf8len(sv)", "result[1] == rest", "result[0] == sv"],
         gen=lambda rng, n: ({"sv": rng.choice(["", "a", "chr1", "g\u00e8ne", "\u4e2d\u6587"] + ["id_%d" % rng.randrange(1000)]),
                              "rest": [rng.randrange(256) for _ in range(rng.randint(0, 3))]} for _ in range(n)))
contract(H + "rt_string_or_none_len", {"sv": "opt[str]", "rest": BYTES}, returns="tuple[opt[str],list[int],int]", props=["C15"],
         requires=["sv is None or utf8len(sv) < 65535", "isbytes(rest)"],
         ensures=["result[2] == 2 + (0 if sv is None else utf8len(sv))", "result[1] == rest", "(result[0] is None) == (sv is None)"],
         native_ensures=["result[1] == rest", "result[0] == sv"],
         gen=lambda rng, n: ({"sv": rng.choice([None, "", "a", "gene_7", "g\u00e8ne"]), "rest": [rng.randrange(256) for _ in range(rng.randint(0, 3))]}
                             for _ in range(n)))
