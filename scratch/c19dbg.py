import sys, traceback, random
sys.path.insert(0, '/verif')
from pyvc import run
run.load_contracts()
from contracts import c_common
try:
    print(c_common.c19_set_semantics("quick", random.Random(1)))
except Exception:
    traceback.print_exc()
