#!/usr/bin/env python
"""
Side observation at baseline (independent of the seeded change), property C18, first sentence:
  "... the Canonical attribute of a transcript model [is] True exactly when every intron has a canonical
   dinucleotide pair on the reported strand in the reference FASTA ..."

An annotated 5-exon transcript T1 (+ strand, all four introns GT..AG in the FASTA) is covered by reads that
start in its third exon only (5'-truncated reads with a polyA tail, assigned uniquely to T1 as ism_5).
IsoQuant reports the known transcript T1 with all its five exons in *.transcript_models.gtf, but the reference
window of the locus only spans the reads: the first two introns lie left of the window, the dinucleotides are
read with negative string indices and the record gets Canonical "False".
(*.extended_annotation.gtf, which uses the whole chromosome as window, says Canonical "True" for the same T1.)

Run as:  cd <worktree> && /venv/bin/python _seed/side_observation.py   (exit 1 = observation reproduced)
"""
import os
import random
import shutil
import subprocess
import sys
import tempfile

import pysam

CHR = "chr1"
CHR_LEN = 12000
FWD = {("GT", "AG"), ("GC", "AG"), ("AT", "AC")}
REV = {("CT", "AC"), ("CT", "GC"), ("GT", "AT")}


def random_genome(length, seed=7):
    rnd = random.Random(seed)
    seq = []
    while len(seq) < length:
        c = rnd.choice("ACGT")
        if len(seq) >= 3 and seq[-1] == c and seq[-2] == c and seq[-3] == c:
            continue
        seq.append(c)
    return seq


def introns_of(exons):
    return [(exons[i][1] + 1, exons[i + 1][0] - 1) for i in range(len(exons) - 1)]


def main():
    worktree = os.path.dirname(os.path.dirname(os.path.abspath(__file__)))
    tmp = tempfile.mkdtemp(prefix="c18_side1_")
    try:
        seq = random_genome(CHR_LEN)
        exons = [(1001, 1200), (1501, 1700), (2001, 2200), (2501, 2700), (3001, 3300)]
        for intron in introns_of(exons):
            seq[intron[0] - 1:intron[0] + 1] = "GT"
            seq[intron[1] - 2:intron[1]] = "AG"
        fasta_path = os.path.join(tmp, "ref.fa")
        with open(fasta_path, "w") as f:
            s = "".join(seq)
            f.write(">%s\n" % CHR)
            for i in range(0, len(s), 60):
                f.write(s[i:i + 60] + "\n")
        pysam.faidx(fasta_path)

        gtf_path = os.path.join(tmp, "ann.gtf")
        with open(gtf_path, "w") as f:
            f.write('%s\ttest\tgene\t1001\t3300\t.\t+\t.\tgene_id "G1";\n' % CHR)
            f.write('%s\ttest\ttranscript\t1001\t3300\t.\t+\t.\tgene_id "G1"; transcript_id "T1";\n' % CHR)
            for e in exons:
                f.write('%s\ttest\texon\t%d\t%d\t.\t+\t.\tgene_id "G1"; transcript_id "T1";\n' % (CHR, e[0], e[1]))

        header = pysam.AlignmentHeader.from_dict({"HD": {"VN": "1.0", "SO": "coordinate"},
                                                  "SQ": [{"SN": CHR, "LN": CHR_LEN}]})
        bam_path = os.path.join(tmp, "reads.bam")
        with pysam.AlignmentFile(bam_path, "wb", header=header) as out:
            for k in range(6):
                read_exons = [(2050 + k, 2200), (2501, 2700), (3001, 3300)]
                a = pysam.AlignedSegment(header)
                a.query_name = "r%d" % k
                a.reference_id = 0
                a.reference_start = read_exons[0][0] - 1
                cigar, query = [], ""
                for i, e in enumerate(read_exons):
                    if i > 0:
                        cigar.append((3, e[0] - read_exons[i - 1][1] - 1))
                    cigar.append((0, e[1] - e[0] + 1))
                    query += "".join(seq[e[0] - 1:e[1]])
                cigar.append((4, 30))
                query += "A" * 30
                a.query_sequence = query
                a.cigartuples = cigar
                a.flag = 0
                a.mapping_quality = 60
                a.query_qualities = pysam.qualitystring_to_array("I" * len(query))
                out.write(a)
        pysam.index(bam_path)

        home = os.path.join(tmp, "home")
        os.makedirs(home)
        out_dir = os.path.join(tmp, "out")
        env = dict(os.environ)
        env["HOME"] = home
        cmd = [sys.executable, os.path.join(worktree, "isoquant.py"),
               "--reference", fasta_path, "--bam", bam_path, "--data_type", "nanopore",
               "--genedb", gtf_path, "--complete_genedb",
               "-o", out_dir, "--prefix", "S", "-t", "1", "--no_gzip", "--check_canonical"]
        run = subprocess.run(cmd, cwd=worktree, env=env, capture_output=True, text=True)
        if run.returncode != 0:
            print("isoquant.py failed:\n" + run.stdout[-2000:] + run.stderr[-2000:])
            return 2

        fasta = pysam.FastaFile(fasta_path)
        bad = 0
        seen = 0
        for suffix in ("transcript_models.gtf", "extended_annotation.gtf"):
            models = {}
            for line in open(os.path.join(out_dir, "S", "S." + suffix)):
                if line.startswith("#"):
                    continue
                v = line.rstrip("\n").split("\t")
                if v[2] not in ("transcript", "exon"):
                    continue
                t_id = v[8].split('transcript_id "')[1].split('"')[0]
                m = models.setdefault(t_id, {"exons": []})
                if v[2] == "transcript":
                    m["strand"], m["attrs"] = v[6], v[8]
                else:
                    m["exons"].append((int(v[3]), int(v[4])))
            for t_id, m in sorted(models.items()):
                introns = introns_of(sorted(m["exons"]))
                if not introns or m["strand"] not in "+-":
                    continue
                table = FWD if m["strand"] == "+" else REV
                sites = [(fasta.fetch(CHR, i[0] - 1, i[0] + 1).upper(), fasta.fetch(CHR, i[1] - 2, i[1]).upper())
                         for i in introns]
                expected = str(all(s in table for s in sites))
                reported = m["attrs"].split('Canonical "')[1].split('"')[0] if 'Canonical "' in m["attrs"] else "<absent>"
                ok = reported == expected
                seen += 1
                print('%s: %s strand %s, %d introns %s: Canonical "%s", FASTA says %s -> %s' %
                      (suffix, t_id, m["strand"], len(introns), sites, reported, expected, "ok" if ok else "WRONG"))
                if not ok:
                    bad += 1
        if seen == 0:
            print("no spliced transcript reported, nothing to compare")
            return 2
        if bad:
            print("FAIL: Canonical attribute of a reported known transcript does not follow from the FASTA")
            return 1
        print("PASS")
        return 0
    finally:
        shutil.rmtree(tmp, ignore_errors=True)


if __name__ == "__main__":
    sys.exit(main())
