"""Contracts for novel transcript construction (C04): labelling, strand decision, intron evidence, multi-mapper exclusion."""
import ast
from pyvc.api import contract, spec, lemma, record, finite, bounded, enum_from_repo
from pyvc import native, front

G = "src/graph_based_model_construction.py:"
IG = "src/intron_graph.py:"
IV = "tuple[int,int]"
IVS = "list[tuple[int,int]]"
CLASS_HOME = {"GraphBasedModelConstructor": "src/graph_based_model_construction.py", "TranscriptNaming": "src/common.py",
              "IntronCollector": "src/intron_graph.py", "IntronPathProcessor": "src/graph_based_model_construction.py",
              "StrandnessReportingLevel": "src/graph_based_model_construction.py", "TranscriptModelType": "src/gene_info.py"}
enum_from_repo("src/gene_info.py", "TranscriptModelType")


def _find_if(fdef, prefix):
    for n in ast.walk(fdef):
        if isinstance(n, ast.If) and ast.unparse(n.test).startswith(prefix):
            return n
    raise front.Missing("statement `if %s...` not found in %s" % (prefix, fdef.name))


def _typing_extract(fdef):
    """construct_fl_isoforms: the if/else that chooses transcript_type and id_suffix from `all(intron in self.known_introns ...)`;
    drops everything else of the method (the path loop, assignment of the path, coverage and strand filters, model creation)"""
    node = _find_if(fdef, "all((intron in self.known_introns")
    ret = ast.Return(value=ast.Tuple(elts=[ast.Name(id="transcript_type", ctx=ast.Load()), ast.Name(id="id_suffix", ctx=ast.Load())], ctx=ast.Load()))
    args = ast.arguments(posonlyargs=[], args=[ast.arg(arg="self"), ast.arg(arg="intron_path")], kwonlyargs=[], kw_defaults=[], defaults=[])
    return ast.FunctionDef(name="construct_fl_isoforms", args=args, body=[node, ret], decorator_list=[], lineno=node.lineno, col_offset=0)


record("CtorKnown", {"known_introns": "set[tuple[int,int]]"})

contract(G + "GraphBasedModelConstructor.construct_fl_isoforms#typing", {"self": "rec:CtorKnown", "intron_path": IVS},
         returns="tuple[enum:TranscriptModelType,str]", props=["C04"], extract=_typing_extract, native=False,
         # the ID suffix is .nic exactly when all introns are annotated introns and .nnic otherwise; the type agrees with the suffix
         ensures=["(result[1] == '.nic') == all(intron_path[i] in self.known_introns for i in range(len(intron_path)))",
                  "(result[1] == '.nnic') == (not all(intron_path[i] in self.known_introns for i in range(len(intron_path))))",
                  "(result[0] == TranscriptModelType.novel_in_catalog) == (result[1] == '.nic')",
                  "(result[0] == TranscriptModelType.novel_not_in_catalog) == (result[1] == '.nnic')"],
         canary="result[1] == '.nic'")


def _strand_extract(fdef):
    """construct_fl_isoforms: the coverage / mono-intronic / strand-reliability if-chain that decides whether a novel FL path becomes a
    model and with which strand (up to, not including, the creation of the TranscriptModel); `pass` / `continue` become `return None`,
    the surviving branch returns the model's strand; drops: path enumeration, reference matching, labelling, model bookkeeping"""
    node = _find_if(fdef, "count < novel_isoform_cutoff")
    import copy
    node = copy.deepcopy(node)

    def rewrite(stmts, final):
        out = []
        for s in stmts:
            if isinstance(s, ast.Pass) or isinstance(s, ast.Continue):
                out.append(ast.Return(value=ast.Constant(value=None)))
            elif isinstance(s, ast.If):
                s.body = rewrite(s.body, False)
                s.orelse = rewrite(s.orelse, final)
                out.append(s)
            elif isinstance(s, ast.Assign) and isinstance(s.targets[0], ast.Name) and s.targets[0].id == "new_model":
                out.append(ast.Return(value=ast.Name(id="transcript_strand", ctx=ast.Load())))
                return out
            elif isinstance(s, ast.Expr) and isinstance(s.value, ast.Call) and ast.unparse(s.value.func).startswith("logger."):
                continue
            elif isinstance(s, ast.If) is False and isinstance(s, ast.Assign) and ast.unparse(s.targets[0]) in ("transcript_type", "id_suffix"):
                continue
            else:
                out.append(s)
        return out

    # drop the labelling if (verified separately) from the final else branch
    def strip_label(stmts):
        return [s for s in stmts if not (isinstance(s, ast.If) and ast.unparse(s.test).startswith("all((intron in self.known_introns"))]

    cur = node
    while cur.orelse and len(cur.orelse) == 1 and isinstance(cur.orelse[0], ast.If):
        cur = cur.orelse[0]
    cur.orelse = strip_label(cur.orelse)
    body = rewrite([node], True)
    body.append(ast.Return(value=ast.Constant(value=None)))
    names = ["self", "count", "novel_isoform_cutoff", "novel_exons", "polya_site", "transcript_strand", "transcript_clean_strand",
             "intron_path", "transcript_range", "path"]
    args = ast.arguments(posonlyargs=[], args=[ast.arg(arg=a) for a in names], kwonlyargs=[], kw_defaults=[], defaults=[])
    return ast.FunctionDef(name="construct_fl_isoforms", args=args, body=body, decorator_list=[], lineno=node.lineno, col_offset=0)


enum_from_repo("src/graph_based_model_construction.py", "StrandnessReportingLevel")
record("StrandParams", {"require_monointronic_polya": "bool", "report_canonical_strategy": "enum:StrandnessReportingLevel",
                        "use_technical_replicas": "bool"})
record("GeneInfoStrand", {"gene_strands": "dict[str,str]", "chr_id": "str"})
record("PathStorageX", {"paths_to_reads": "any"})
record("ExcludingIdDistributor", {"value": "int", "forbidden_ids": "set[int]"})
record("CtorStrand", {"params": "rec:StrandParams", "gene_info": "rec:GeneInfoStrand", "path_storage": "rec:PathStorageX",
                      "id_distributor": "rec:ExcludingIdDistributor"})

contract(G + "GraphBasedModelConstructor.select_reference_gene",
         {"self": "rec:CtorStrand", "transcript_introns": IVS, "transcript_range": IV, "transcript_strand": "str"},
         returns="opt[str]", trusted=True, props=[], native=False,
         ensures=["result is None or result in self.gene_info.gene_strands"],
         note="overlap scoring against reference genes; assumed: returns None or a reference gene id (an attempt to prove it stopped at "
              "sets nested in dict values, which the engine cannot iterate)")
# proved against the contract of ExcludingIdDistributor.increment (C17): the number is new, larger than every number handed out before and
# not one the reference annotation already uses
contract(G + "GraphBasedModelConstructor.get_transcript_id", {"self": "rec:CtorStrand"}, returns="int", props=["C17", "C04"], native=False,
         modifies=["self.id_distributor.value"], requires=["self.id_distributor.value >= 0"],
         ensures=["result >= 1", "result > old(self.id_distributor.value)", "result not in self.id_distributor.forbidden_ids",
                  "self.id_distributor.value == result"])

contract(G + "GraphBasedModelConstructor.construct_fl_isoforms#strand",
         {"self": "rec:CtorStrand", "count": "int", "novel_isoform_cutoff": "int", "novel_exons": IVS, "polya_site": "bool",
          "transcript_strand": "str", "transcript_clean_strand": "str", "intron_path": IVS, "transcript_range": IV, "path": "any"},
         returns="opt[str]", props=["C04", "C18"], extract=_strand_extract, native=False,
         bind={"CtorStrand.select_reference_gene": G + "GraphBasedModelConstructor.select_reference_gene",
               "CtorStrand.get_transcript_id": G + "GraphBasedModelConstructor.get_transcript_id"},
         modifies=["self.id_distributor.value"],
         requires=[
             "self.id_distributor.value >= 0",
             # what the StrandDetector contracts (C18) establish about the two strands handed in
             "transcript_strand == '+' or transcript_strand == '-' or transcript_strand == '.'",
             "transcript_clean_strand == '+' or transcript_clean_strand == '-' or transcript_clean_strand == '.'",
             "transcript_clean_strand == '.' or transcript_strand == transcript_clean_strand",
             "not self.params.use_technical_replicas",
             "all(self.gene_info.gene_strands[g] == '+' or self.gene_info.gene_strands[g] == '-' for g in self.gene_info.gene_strands)"],
         ensures=[
             # a reported novel spliced model carries a definite strand under both documented filtering levels ...
             "result is None or not (self.params.report_canonical_strategy == StrandnessReportingLevel.only_canonical or "
             "self.params.report_canonical_strategy == StrandnessReportingLevel.only_stranded) or result == '+' or result == '-'",
             # ... equal to the splice-site strand whenever the splice sites decide ...
             "result is None or transcript_strand == '.' or result == transcript_strand",
             # ... below the coverage cut-off nothing is reported, and a mono-intronic model needs a clean strand
             "count >= novel_isoform_cutoff or result is None",
             "not (len(novel_exons) == 2 and transcript_clean_strand == '.') or result is None",
             "not (len(novel_exons) == 2 and self.params.require_monointronic_polya and not polya_site) or result is None"],
         canary="result is None")


# ---- intron evidence ------------------------------------------------------------------------------------------------------------------
record("ReadWithIntrons", {"corrected_introns": "opt[list[tuple[int,int]]]", "multimapper": "bool"})
record("IntronCollector", {"intron_correction_map": "dict[tuple[int,int],tuple[int,int]]", "discarded_introns": "set[tuple[int,int]]",
                           "clustered_introns": "defaultdict[tuple[int,int],int,0]"})
record("IntronGraphX", {"intron_collector": "rec:IntronCollector"})
record("IntronPathProcessor", {"intron_graph": "rec:IntronGraphX"})

contract(IG + "IntronCollector.collect_introns", {"self": "rec:IntronCollector", "read_assignments": "list[rec:ReadWithIntrons]"},
         returns="defaultdict[tuple[int,int],int,0]", props=["C04", "C08"], locals={"all_introns": "defaultdict[tuple[int,int],int,0]"},
         native=False,
         ensures=[
             # every counted intron is present in the corrected alignment of at least one read that is not a suppressed multi-mapper
             "all(result[k] >= 1 and any(not read_assignments[a].multimapper and read_assignments[a].corrected_introns is not None and "
             "any(read_assignments[a].corrected_introns[j] == k for j in range(len(read_assignments[a].corrected_introns))) "
             "for a in range(len(read_assignments))) for k in result)",
             # and no intron of such a read is forgotten
             "all(read_assignments[a].multimapper or read_assignments[a].corrected_introns is None or "
             "all(read_assignments[a].corrected_introns[j] in result for j in range(len(read_assignments[a].corrected_introns))) "
             "for a in range(len(read_assignments)))"],
         loops={0: {"inv": [
                    "all(all_introns[k] >= 1 and any(not read_assignments[a].multimapper and read_assignments[a].corrected_introns is not None and "
                    "any(read_assignments[a].corrected_introns[j] == k for j in range(len(read_assignments[a].corrected_introns))) "
                    "for a in range(_k0)) for k in all_introns)",
                    "all(read_assignments[a].multimapper or read_assignments[a].corrected_introns is None or "
                    "all(read_assignments[a].corrected_introns[j] in all_introns for j in range(len(read_assignments[a].corrected_introns))) "
                    "for a in range(_k0))"]},
                1: {"inv": [
                    "not assignment.multimapper and assignment.corrected_introns is not None and assignment == read_assignments[_k0]",
                    "all(all_introns[k] >= 1 and (any(not read_assignments[a].multimapper and read_assignments[a].corrected_introns is not None and "
                    "any(read_assignments[a].corrected_introns[j] == k for j in range(len(read_assignments[a].corrected_introns))) "
                    "for a in range(_k0)) or any(assignment.corrected_introns[j] == k for j in range(_k1))) for k in all_introns)",
                    "all(read_assignments[a].multimapper or read_assignments[a].corrected_introns is None or "
                    "all(read_assignments[a].corrected_introns[j] in all_introns for j in range(len(read_assignments[a].corrected_introns))) "
                    "for a in range(_k0))",
                    "all(assignment.corrected_introns[j] in all_introns for j in range(_k1))"]}},
         shards=4, timeout=30000)

contract(IG + "IntronCollector.substitute", {"self": "rec:IntronCollector", "v": IV}, returns=IV, transparent=True, props=["C04"],
         ensures=["result == (self.intron_correction_map[v] if v in self.intron_correction_map else v)"], native=False)

contract(G + "IntronPathProcessor.thread_introns", {"self": "rec:IntronPathProcessor", "introns": IVS}, returns="opt[list[tuple[int,int]]]",
         props=["C04"], locals={"path": IVS}, native=False,
         # a read is threaded through the graph only if none of its introns was discarded; vertex i is the (substituted) intron i
         ensures=["(result is None) == any(introns[i] in self.intron_graph.intron_collector.discarded_introns for i in range(len(introns)))",
                  "result is None or (len(result) == len(introns) and all(result[i] == "
                  "(self.intron_graph.intron_collector.intron_correction_map[introns[i]] if introns[i] in self.intron_graph.intron_collector.intron_correction_map else introns[i]) "
                  "for i in range(len(introns))))"],
         loops={0: {"inv": ["len(path) == _k0",
                            "not any(introns[i] in self.intron_graph.intron_collector.discarded_introns for i in range(_k0))",
                            "all(path[i] == (self.intron_graph.intron_collector.intron_correction_map[introns[i]] if introns[i] in "
                            "self.intron_graph.intron_collector.intron_correction_map else introns[i]) for i in range(_k0))"]}},
         canary="result is None")


@finite("C04.multimapper_exclusion", ["C04", "C08"], note="the three places that feed reads into transcript construction skip reads "
        "flagged as (suppressed / ambiguous) multi-mappers before anything else: IntronPathStorage.fill, IntronCollector.collect_introns, "
        "and the path suppression `elif intron_path in self.known_isoforms_in_graph: continue` is in place; read from the AST")
def c04_static(tier, rng):
    obl = dis = 0
    viol = []

    def first_guard(qual, must):
        nonlocal obl, dis
        obl += 1
        try:
            fdef, _, _ = front.find_def(qual)
            loop = next(n for n in front.strip_doc(fdef.body) if isinstance(n, ast.For))
            s0 = loop.body[0]
            ok = isinstance(s0, ast.If) and must in ast.unparse(s0.test) and isinstance(s0.body[-1], ast.Continue)
            detail = ast.unparse(s0)[:100]
        except (front.Missing, StopIteration) as e:
            ok, detail = False, repr(e)
        if ok:
            dis += 1
        else:
            viol.append({"obligation": "C04.skip_multimappers.%s" % qual.split(":")[1], "inputs": None, "observed": detail,
                         "required": "the loop over reads starts with `if ...multimapper...: continue`"})

    first_guard(G + "IntronPathStorage.fill", "a.multimapper")
    first_guard(IG + "IntronCollector.collect_introns", "assignment.multimapper")
    obl += 1
    try:
        fdef, _, _ = front.find_def(G + "GraphBasedModelConstructor.construct_fl_isoforms")
        ok = any(isinstance(n, ast.If) and ast.unparse(n.test) == "intron_path in self.known_isoforms_in_graph"
                 and isinstance(n.body[-1], ast.Continue) for n in ast.walk(fdef))
    except front.Missing:
        ok = False
    if ok:
        dis += 1
    else:
        viol.append({"obligation": "C04.reference_chain_not_novel", "inputs": None, "observed": "suppression branch missing",
                     "required": "a path equal to a reference intron chain is not emitted as novel"})
    # frame of `known_introns`, the set the .nic / .nnic decision reads ("all introns annotated"): inside GraphBasedModelConstructor it is
    # bound to the annotated introns of the region (gene_info.intron_profiles.features) and to the empty set in __init__, and nothing else
    # writes or mutates it - a set grown from graph paths would contain substituted (unannotated) introns
    obl += 1
    try:
        import re
        src = open(front.REPO + "/src/graph_based_model_construction.py").read()
        tree = ast.parse(src)
        cls = next(n for n in tree.body if isinstance(n, ast.ClassDef) and n.name == "GraphBasedModelConstructor")
        writes = []
        for n in ast.walk(cls):
            if isinstance(n, (ast.Assign, ast.AugAssign, ast.AnnAssign)):
                tg = n.targets if isinstance(n, ast.Assign) else [n.target]
                if any(ast.unparse(t) == "self.known_introns" for t in tg):
                    writes.append(ast.unparse(n.value) if not isinstance(n, ast.AugAssign) else "aug:" + ast.unparse(n))
            if isinstance(n, ast.Call) and isinstance(n.func, ast.Attribute) and ast.unparse(n.func.value) == "self.known_introns" \
                    and n.func.attr in ("add", "update", "discard", "remove", "clear", "pop", "difference_update", "intersection_update", "symmetric_difference_update"):
                writes.append("mutation:" + ast.unparse(n))
        pat = re.compile(r"^(frozen)?set\(((self\.)?gene_info)\.intron_profiles\.features\)$")
        mutated = [w for w in writes if w.startswith("mutation:") or w.startswith("aug:")]
        unknown = [w for w in writes if w not in mutated and w != "set()" and not pat.match(w)]
        ok = not mutated and not unknown and any(pat.match(w) for w in writes)
        undecided = not mutated      # an assignment this rule does not recognise is not a refutation
        detail = "writes of self.known_introns: %s" % writes
    except (StopIteration, SyntaxError, OSError) as e:
        ok, undecided, detail = False, True, repr(e)
    if ok:
        dis += 1
    else:
        viol.append({"obligation": "C04.known_introns_are_annotated_introns", "inputs": None, "observed": detail,
                     "required": "known_introns = the annotated introns of the region, never grown from graph paths", "undecided": undecided})
    return {"obligations": obl, "discharged": dis, "violations": viol, "cases": obl, "exhaustive": True, "bound": "4 sites",
            "samples": [{"site": "IntronPathStorage.fill"}]}


# ---- output-level invariants of novel models on the bundled data (bounded: two pipeline runs) -------------------------------------------
def _run_pipeline(extra, with_annotation=True, prepare=None):
    import os, shutil, subprocess, sys, tempfile
    base = os.path.join(os.path.dirname(os.path.dirname(os.path.abspath(__file__))), ".run")
    os.makedirs(base, exist_ok=True)
    d = tempfile.mkdtemp(prefix="c04_", dir=base)
    data = os.path.join(front.REPO, "tests", "simple_data")
    for f in ("chr9.4M.ont.sim.polya.bam", "chr9.4M.ont.sim.polya.bam.bai", "chr9.4M.gtf.gz", "chr9.4M.fa.gz"):
        shutil.copy(os.path.join(data, f), d)
    env = dict(os.environ, HOME=os.path.join(d, "home"))
    os.makedirs(env["HOME"], exist_ok=True)
    bam, gtf = "chr9.4M.ont.sim.polya.bam", "chr9.4M.gtf.gz"
    if prepare:
        bam, gtf = prepare(d)
    cmd = [sys.executable, os.path.join(front.REPO, "isoquant.py"), "-d", "nanopore", "--bam", bam,
           "-r", "chr9.4M.fa.gz", "-o", "out", "-t", "1", "-p", "S"] + (["--genedb", gtf, "--complete_genedb"] if with_annotation else []) + extra
    p = subprocess.run(cmd, cwd=d, env=env, capture_output=True, text=True, timeout=900)
    p.gtf = gtf
    return d, p


def _parse_gtf(path):
    import gzip
    tr = {}
    opener = gzip.open if path.endswith(".gz") else open
    for line in opener(path, "rt"):
        if line.startswith("#"):
            continue
        f = line.rstrip("\n").split("\t")
        attrs = dict((kv.strip().split(" ", 1)[0], kv.strip().split(" ", 1)[1].strip('"')) for kv in f[8].split(";") if " " in kv.strip())
        if f[2] == "transcript":
            tr.setdefault(attrs["transcript_id"], {"chr": f[0], "strand": f[6], "gene": attrs["gene_id"], "span": (int(f[3]), int(f[4])), "exons": []})
        elif f[2] == "exon":
            tr.setdefault(attrs["transcript_id"], {"chr": f[0], "strand": f[6], "gene": attrs["gene_id"], "span": None, "exons": []})["exons"].append((int(f[3]), int(f[4])))
    for t in tr.values():
        t["exons"].sort()
        t["introns"] = tuple((t["exons"][i][1] + 1, t["exons"][i + 1][0] - 1) for i in range(len(t["exons"]) - 1))
    return tr


def _novel_output_problems(with_annotation, prepare=None, expect=None, extra=()):
    import gzip, os, shutil
    d, p = _run_pipeline(list(extra), with_annotation, prepare)
    problems = []
    try:
        if p.returncode != 0:
            return ["isoquant exited %d: %s" % (p.returncode, p.stderr[-300:])]
        out = os.path.join(d, "out", "S")
        models = _parse_gtf(os.path.join(out, "S.transcript_models.gtf"))
        ref = _parse_gtf(os.path.join(d, p.gtf)) if with_annotation else {}
        ref_introns = {i for t in ref.values() for i in t["introns"]}
        ref_chains = {(t["strand"], t["introns"]) for t in ref.values() if t["introns"]}
        read_introns = set()
        bedf = os.path.join(out, "S.corrected_reads.bed.gz")
        for line in gzip.open(bedf, "rt"):
            if line.startswith("#"):
                continue
            f = line.rstrip("\n").split("\t")
            cs = int(f[1]); sizes = [int(x) for x in f[10].split(",")]; starts = [int(x) for x in f[11].split(",")]
            ex = [(cs + s + 1, cs + s + z) for s, z in zip(starts, sizes)]
            for i in range(len(ex) - 1):
                read_introns.add((ex[i][1] + 1, ex[i + 1][0] - 1))
        support = {}
        r2t = os.path.join(out, "S.transcript_model_reads.tsv.gz")
        for line in gzip.open(r2t, "rt"):
            if line.startswith("#"):
                continue
            r, t = line.rstrip("\n").split("\t")[:2]
            if t != "*":
                support[t] = support.get(t, 0) + 1
                if t not in models:
                    problems.append("transcript_model_reads names %s which is not in transcript_models.gtf" % t)
        chains = {}
        for tid, t in models.items():
            novel = tid.startswith("transcript") and (".nic" in tid or ".nnic" in tid or not with_annotation)
            if not t["exons"] or t["span"] != (t["exons"][0][0], t["exons"][-1][1]):
                problems.append("%s: transcript record does not span its exons" % tid)
            if any(t["exons"][i][1] >= t["exons"][i + 1][0] for i in range(len(t["exons"]) - 1)) or t["exons"][0][0] < 1:
                problems.append("%s: exons overlap / unsorted" % tid)
            if tid in ref:
                if ref[tid]["exons"] != t["exons"] or ref[tid]["strand"] != t["strand"] or ref[tid]["gene"] != t["gene"]:
                    problems.append("%s reported under a reference id with different exons / strand / gene" % tid)
                continue
            if not with_annotation and not t["gene"].startswith("novel_gene_"):
                problems.append("%s in an annotation-free run belongs to gene %s" % (tid, t["gene"]))
            if t["introns"]:
                if t["strand"] not in "+-":
                    problems.append("%s: novel spliced model without a definite strand" % tid)
                if with_annotation:
                    all_known = all(i in ref_introns for i in t["introns"])
                    if tid.endswith(".nic") != all_known or tid.endswith(".nnic") == all_known:
                        problems.append("%s: suffix does not match 'all introns annotated' = %s" % (tid, all_known))
                    if (t["strand"], t["introns"]) in ref_chains:
                        problems.append("%s repeats the intron chain of a reference transcript" % tid)
                key = (t["strand"], t["introns"])
                if key in chains:
                    problems.append("%s and %s share an intron chain" % (tid, chains[key]))
                chains[key] = tid
                for i in t["introns"]:
                    if i not in read_introns:
                        problems.append("%s: intron %s is in no corrected read alignment" % (tid, i))
            if support.get(tid, 0) < 1:
                problems.append("%s has no supporting read in transcript_model_reads" % tid)
        if expect:
            problems += expect(models)
    finally:
        shutil.rmtree(d, ignore_errors=True)
    return problems


def replay_outputs(d):
    p = _novel_output_problems(d["inputs"]["with_annotation"])
    return (not p), "with_annotation=%s: %s" % (d["inputs"]["with_annotation"], p[:5] or "outputs consistent")


@bounded("C04.pipeline_outputs", ["C04", "C03"], note="two real pipeline runs on the bundled chr9 data (with the reference annotation, and "
         "annotation-free): every novel spliced model has a definite strand, a .nic/.nnic suffix that matches 'all introns annotated', an "
         "intron chain unlike every reference and every other novel model, introns present in corrected_reads.bed, at least one supporting "
         "read; the reads table names only printed models; reference ids carry reference exons; annotation-free models sit in novel_gene_*")
def c04_outputs(tier, rng):
    viol = []
    cases = 0
    for wa in (True, False):
        cases += 1
        p = _novel_output_problems(wa)
        if p:
            viol.append({"obligation": "C04.pipeline_outputs.%s" % ("annotated" if wa else "annotation_free"), "inputs": {"with_annotation": wa},
                         "observed": p[:5], "required": "novel models evidence-backed, labelled, non-redundant",
                         "replay_call": "contracts.c_novel:replay_outputs"})
    return {"cases": cases, "bound": "bundled chr9 data, 2 runs", "violations": viol, "samples": [{"with_annotation": True}]}


# ---- synthetic loci: situations the bundled data does not contain -------------------------------------------------------------------------
def _synthetic_inputs(d):
    """a standalone annotation and reads placed in a gene-free stretch of the bundled chr9 reference:
    locus 1: reads follow T1 except that the second intron ends 3 bp before the annotated acceptor (near-annotated, NOT annotated);
    locus 2: reads combine annotated introns of two isoforms into a chain no isoform has (novel in catalog);
    locus 3: reads carry an intron unrelated to any annotated one"""
    import gzip, os, random
    import pysam
    seq = "".join(l.strip() for l in gzip.open(os.path.join(d, "chr9.4M.fa.gz"), "rt") if not l.startswith(">"))
    inp = pysam.AlignmentFile(os.path.join(d, "chr9.4M.ont.sim.polya.bam"))
    tid = inp.get_tid("chr9")
    base = 3041000     # inside the long gene-free stretch after the first gene cluster of the bundled annotation
    loci = []
    gtf = []
    def gene(gid, strand, transcripts):
        lo = min(e[0] for _, ex in transcripts for e in ex); hi = max(e[1] for _, ex in transcripts for e in ex)
        gtf.append("chr9\tsyn\tgene\t%d\t%d\t.\t%s\t.\tgene_id \"%s\";" % (lo, hi, strand, gid))
        for t, ex in transcripts:
            gtf.append("chr9\tsyn\ttranscript\t%d\t%d\t.\t%s\t.\tgene_id \"%s\"; transcript_id \"%s\";" % (ex[0][0], ex[-1][1], strand, gid, t))
            for a, b in ex:
                gtf.append("chr9\tsyn\texon\t%d\t%d\t.\t%s\t.\tgene_id \"%s\"; transcript_id \"%s\";" % (a, b, strand, gid, t))
    o = base
    A, B, C, D, E = (o + 1000, o + 1100), (o + 2000, o + 2100), (o + 3000, o + 3100), (o + 4000, o + 4100), (o + 5000, o + 5200)
    gene("synG1", "+", [("synG1.t1", [A, B, C, E]), ("synG1.t2", [A, C, D, E])])
    # a chain no isoform has (A-B-C-D-E) whose intron C->D ends 3 bp before the annotated acceptor: near-annotated, NOT annotated
    reads1 = [A, B, C, (D[0] - 3, D[1]), E]
    o = base + 10000
    A2, B2, C2, D2, E2 = (o + 1000, o + 1100), (o + 2000, o + 2100), (o + 3000, o + 3100), (o + 4000, o + 4100), (o + 5000, o + 5200)
    gene("synG2", "+", [("synG2.t1", [A2, B2, C2, E2]), ("synG2.t2", [A2, C2, D2, E2])])
    reads2 = [A2, B2, C2, D2, E2]                           # introns all annotated, chain in no isoform
    o = base + 20000
    A3, B3, C3 = (o + 1000, o + 1100), (o + 2000, o + 2100), (o + 3000, o + 3200)
    gene("synG3", "+", [("synG3.t1", [A3, B3, C3])])
    reads3 = [A3, (o + 2500, o + 2600), C3]                 # both introns unannotated
    rng = random.Random(5)
    recs = []
    for li, ex in enumerate((reads1, reads2, reads3)):
        for k in range(10):
            e = list(ex)
            e[0] = (e[0][0] + rng.randint(0, 5), e[0][1]); e[-1] = (e[-1][0], e[-1][1] - rng.randint(0, 5))
            a = pysam.AlignedSegment(inp.header)
            a.query_name, a.flag, a.reference_id, a.reference_start, a.mapping_quality = "syn%d_%d" % (li, k), 0, tid, e[0][0] - 1, 60
            cig = []
            s_ = ""
            for i, (x, y) in enumerate(e):
                if i:
                    cig.append((3, x - e[i - 1][1] - 1))
                cig.append((0, y - x + 1)); s_ += seq[x - 1:y]
            a.cigartuples, a.query_sequence = cig, s_
            a.query_qualities = pysam.qualitystring_to_array("I" * len(s_))
            recs.append(a)
    with pysam.AlignmentFile(os.path.join(d, "syn.bam"), "wb", template=inp) as out:
        for a in sorted(recs, key=lambda x: x.reference_start):
            out.write(a)
    pysam.index(os.path.join(d, "syn.bam"))
    open(os.path.join(d, "syn.gtf"), "w").write("\n".join(gtf) + "\n")
    return "syn.bam", "syn.gtf"


def _synthetic_expect(models):
    problems = []
    novel = {t: m for t, m in models.items() if t.startswith("transcript")}
    if not novel:
        problems.append("no novel model was reported for the synthetic loci (the scenario no longer exercises the labelling)")
    return problems


def replay_synthetic(d):
    p = _novel_output_problems(True, _synthetic_inputs, _synthetic_expect)
    return (not p), "synthetic loci: %s" % (p[:5] or "labels, strands, chains consistent")


@bounded("C04.synthetic_loci", ["C04"], note="one pipeline run on three synthetic loci written into a gene-free stretch of the bundled reference "
         "(own GTF, pysam-written reads): an intron 3 bp off an annotated acceptor, a novel combination of annotated introns, an unrelated "
         "novel intron; the same output invariants as C04.pipeline_outputs (suffix .nic iff all introns annotated, definite strand, ...)")
def c04_synthetic(tier, rng):
    p = _novel_output_problems(True, _synthetic_inputs, _synthetic_expect)
    viol = []
    if p:
        viol.append({"obligation": "C04.synthetic_loci", "inputs": {"scenario": "synthetic"}, "observed": p[:5],
                     "required": "novel models labelled by whether ALL their introns are annotated", "replay_call": "contracts.c_novel:replay_synthetic"})
    return {"cases": 3, "bound": "3 synthetic loci, 10 reads each", "violations": viol, "samples": [{"locus": "near-annotated acceptor (3 bp)"}]}


# ---- alternative polyA sites behind one intron chain (annotation-free run): novel models must not repeat a chain ---------------------------
def _altpolya_inputs(d):
    """three unannotated '+' loci in the gene-free stretch of the bundled reference, splice sites moved to the nearest GT / AG so that the
    strand is definite; every read carries a 30-base polyA tail (soft clip):
    A: a 4-exon isoform with two polyA sites 300 bp apart, the reads of the distal site start 99 bp later than those of the proximal one
    B: the same shape, all reads start at the same place
    C: a 2-exon isoform with two polyA sites 300 bp apart"""
    import gzip, os
    import pysam
    seq = "".join(l.strip() for l in gzip.open(os.path.join(d, "chr9.4M.fa.gz"), "rt") if not l.startswith(">")).upper()
    inp = pysam.AlignmentFile(os.path.join(d, "chr9.4M.ont.sim.polya.bam"))
    tid = inp.get_tid("chr9")

    def exons_at(o, shape):
        # shape: exon (start, end) offsets; each intron is snapped to a canonical GT..AG pair of the reference
        ex = [(o + a, o + b) for a, b in shape]
        out = [list(ex[0])]
        for k in range(1, len(ex)):
            s = seq.find("GT", out[-1][1])                 # 0-based index of G: intron starts at 1-based s + 1
            e = seq.find("AG", ex[k][0] - 30) + 2          # 1-based end of the intron (the G of AG)
            out[-1][1] = s
            out.append([e + 1, ex[k][1] + (e + 1 - ex[k][0])])
        return [tuple(x) for x in out]

    def variant(ex, start_shift, end_cut):
        return [(ex[0][0] + start_shift, ex[0][1])] + ex[1:-1] + [(ex[-1][0], ex[-1][1] - end_cut)]
    base = 3041000
    four = [(1001, 1200), (1501, 1700), (2001, 2200), (2501, 2900)]
    A = exons_at(base, four)
    B = exons_at(base + 10000, four)
    C = exons_at(base + 20000, [(1001, 1200), (2501, 2900)])
    groups = [("A_distal", variant(A, 99, 0)), ("A_proximal", variant(A, 0, 300)), ("B_distal", variant(B, 0, 0)), ("B_proximal", variant(B, 0, 300)),
              ("C_distal", variant(C, 0, 0)), ("C_proximal", variant(C, 0, 300))]
    recs = []
    for name, ex in groups:
        for k in range(6):
            a = pysam.AlignedSegment(inp.header)
            a.query_name, a.flag, a.reference_id, a.reference_start, a.mapping_quality = "%s_%d" % (name, k), 0, tid, ex[0][0] - 1, 60
            cig, s_ = [], ""
            for i, (x, y) in enumerate(ex):
                if i:
                    cig.append((3, x - ex[i - 1][1] - 1))
                cig.append((0, y - x + 1)); s_ += seq[x - 1:y]
            cig.append((4, 30)); s_ += "A" * 30
            a.cigartuples, a.query_sequence = cig, s_
            a.query_qualities = pysam.qualitystring_to_array("I" * len(s_))
            a.set_tag("NM", 0)
            recs.append(a)
    with pysam.AlignmentFile(os.path.join(d, "alt.bam"), "wb", template=inp) as out:
        for a in sorted(recs, key=lambda x: x.reference_start):
            out.write(a)
    pysam.index(os.path.join(d, "alt.bam"))
    return "alt.bam", "chr9.4M.gtf.gz"


def _altpolya_run():
    import os, shutil
    d, p = _run_pipeline([], False, _altpolya_inputs)
    try:
        if p.returncode != 0:
            return None, ["isoquant exited %d: %s" % (p.returncode, p.stderr[-300:])]
        models = _parse_gtf(os.path.join(d, "out", "S", "S.transcript_models.gtf"))
    finally:
        shutil.rmtree(d, ignore_errors=True)
    pairs = []
    seen = {}
    for tid in sorted(models):
        t = models[tid]
        if not t["introns"]:
            continue
        key = (t["strand"], t["introns"])
        if key in seen:
            o = models[seen[key]]
            pairs.append({"models": [seen[key], tid], "exon_counts": [len(o["exons"]), len(t["exons"])], "strand": t["strand"],
                          "introns": list(t["introns"]), "spans": [o["span"], t["span"]]})
        else:
            seen[key] = tid
    return models, pairs


def kf_two_exon_alt_polya(inputs):
    """known-finding class: the two novel models that share the intron chain are both mono-intronic (2 exons): detect_similar_isoforms
    never uses a model with <= 2 exons as the absorbing one, so alternative polyA sites of a 2-exon isoform are reported as two models"""
    return isinstance(inputs, dict) and inputs.get("exon_counts") and all(c == 2 for c in inputs["exon_counts"])


def replay_altpolya(d):
    models, pairs = _altpolya_run()
    want = d["inputs"].get("introns")
    hit = [p for p in (pairs or []) if isinstance(p, dict) and [list(i) for i in p["introns"]] == [list(i) for i in (want or [])]]
    return (not hit), "novel models sharing the intron chain %s: %s" % (want, hit or "none")


@bounded("C04.alt_polya_loci", ["C04"], note="one annotation-free pipeline run on three synthetic '+' loci with alternative polyA sites behind one "
         "intron chain (4-exon isoform with staggered and with common read starts, 2-exon isoform): no two reported novel models share strand and "
         "intron chain")
def c04_altpolya(tier, rng):
    models, pairs = _altpolya_run()
    if models is None:
        return {"cases": 3, "bound": "3 synthetic loci", "error": "; ".join(pairs)}
    viol = [{"obligation": "C04.alt_polya_loci.%s" % "_".join(p["models"]), "inputs": p,
             "observed": "%s and %s (%s exons) share the intron chain %s on %s" % (p["models"][0], p["models"][1], p["exon_counts"], p["introns"], p["strand"]),
             "required": "the intron chain differs from that of every other reported novel transcript on the same strand",
             "replay_call": "contracts.c_novel:replay_altpolya"} for p in pairs]
    if not any(t["introns"] for t in models.values()):
        viol.append({"obligation": "C04.alt_polya_loci.nontrivial", "inputs": None, "observed": "no spliced novel model reported: the scenario no longer exercises the filter",
                     "required": "at least one spliced novel model", "undecided": True})
    return {"cases": 3, "bound": "3 synthetic loci, 12 polyA reads each", "violations": viol, "samples": [{"models": sorted(models)[:6]}]}


# ---- random loci: the same output invariants on generated annotations and read sets ---------------------------------------------------------
def _random_loci(seed):
    """6 loci, 9 kb apart, in the gene-free stretch of the bundled reference. Per locus: a strand, 4-6 exons, 1-3 annotated isoforms (the full
    chain, an exon-skipping variant, an alternative-acceptor variant) and 1-3 read populations of 4-8 identical-chain reads each: an annotated
    isoform, a novel combination of annotated introns, a chain with one splice site moved by 15-40 bp, or a chain with an extra unannotated
    exon skipped. Every read carries a soft-clipped polyA tail (polyT head on '-'), MAPQ 60, no mismatches."""
    import random
    rng = random.Random(seed)
    base = 3041000
    loci = []
    for li in range(6):
        o = base + 9000 * li
        strand = rng.choice("+-")
        n = rng.randint(4, 6)
        pos = o + 500
        exons = []
        for k in range(n):
            ln = rng.randint(100, 260)
            exons.append((pos, pos + ln - 1))
            pos += ln + rng.randint(300, 900)
        iso = {"full": list(exons)}
        inner = list(range(1, n - 1))
        if rng.random() < .7:
            sk = rng.choice(inner)
            iso["skip"] = [e for i, e in enumerate(exons) if i != sk]
        if rng.random() < .5:
            j = rng.choice(inner)
            sh = rng.randint(20, 60)
            iso["altacc"] = [((e[0] + sh, e[1]) if i == j else e) for i, e in enumerate(exons)]
        pops = []
        for _ in range(rng.randint(1, 3)):
            kind = rng.choice(["known", "combo", "shift", "skip2"])
            if kind == "known":
                chain = list(iso[rng.choice(sorted(iso))])
            elif kind == "combo":
                # skip another inner exon than the annotated skipping variant (all introns of the result that exist in some isoform stay annotated only by chance)
                sk2 = rng.choice(inner)
                chain = [e for i, e in enumerate(exons) if i != sk2]
            elif kind == "shift":
                j = rng.choice(inner)
                sh = rng.choice([-1, 1]) * rng.randint(15, 40)
                chain = [((e[0], e[1] + sh) if i == j else e) for i, e in enumerate(exons)]
            else:
                two = rng.sample(inner, min(2, len(inner)))
                chain = [e for i, e in enumerate(exons) if i not in two]
            if len(chain) >= 3:
                pops.append((kind, chain, rng.randint(4, 8)))
        # a minor variant next to a dominant chain (own generator: earlier seeds keep their loci): the acceptor of one intron moved 8-21 bp
        # upstream, a micro-exon of 6-12 bp, and a next intron that starts inside the dominant intron - collapsing the similar splice
        # sites in the intron graph must not fuse the two into an intron no read has
        rng2 = random.Random(seed * 7 + li)
        if rng2.random() < .3 and n >= 5:
            j = rng2.randint(2, n - 2)
            d_end = exons[j][0] - 1
            sh, ml = rng2.choice([8, 10, 12, 15, 17, 19, 20, 20, 21]), rng2.randint(6, 12)
            micro = (d_end - sh + 1, d_end - sh + ml)
            if micro[1] < d_end and micro[0] > exons[j - 1][1] + 50:
                pops.append(("known_dominant", list(exons), 10))
                pops.append(("micro_variant", exons[:j] + [micro] + exons[j + 1:], 4))
        loci.append({"gene": "rndG%d" % li, "strand": strand, "isoforms": iso, "reads": pops})
    return loci


def _random_loci_prepare(seed):
    def prepare(d):
        import gzip, os, random
        import pysam
        seq = "".join(l.strip() for l in gzip.open(os.path.join(d, "chr9.4M.fa.gz"), "rt") if not l.startswith(">")).upper()
        inp = pysam.AlignmentFile(os.path.join(d, "chr9.4M.ont.sim.polya.bam"))
        tid = inp.get_tid("chr9")
        rng = random.Random(seed + 1)
        gtf, recs = [], []
        for L in _random_loci(seed):
            lo = min(e[0] for ex in L["isoforms"].values() for e in ex); hi = max(e[1] for ex in L["isoforms"].values() for e in ex)
            gtf.append("chr9\tsyn\tgene\t%d\t%d\t.\t%s\t.\tgene_id \"%s\";" % (lo, hi, L["strand"], L["gene"]))
            for name, ex in sorted(L["isoforms"].items()):
                t = "%s.%s" % (L["gene"], name)
                gtf.append("chr9\tsyn\ttranscript\t%d\t%d\t.\t%s\t.\tgene_id \"%s\"; transcript_id \"%s\";" % (ex[0][0], ex[-1][1], L["strand"], L["gene"], t))
                for a, b in ex:
                    gtf.append("chr9\tsyn\texon\t%d\t%d\t.\t%s\t.\tgene_id \"%s\"; transcript_id \"%s\";" % (a, b, L["strand"], L["gene"], t))
            for pi, (kind, chain, cnt) in enumerate(L["reads"]):
                for k in range(cnt):
                    e = list(chain)
                    if L["strand"] == "+":
                        e[0] = (e[0][0] + rng.randint(0, 5), e[0][1])
                    else:
                        e[-1] = (e[-1][0], e[-1][1] - rng.randint(0, 5))
                    a = pysam.AlignedSegment(inp.header)
                    a.query_name, a.reference_id, a.reference_start, a.mapping_quality = "%s_p%d_%s_%d" % (L["gene"], pi, kind, k), tid, e[0][0] - 1, 60
                    a.flag = 0 if L["strand"] == "+" else 16
                    cig, s_ = [], ""
                    for i, (x, y) in enumerate(e):
                        if i:
                            cig.append((3, x - e[i - 1][1] - 1))
                        cig.append((0, y - x + 1)); s_ += seq[x - 1:y]
                    if L["strand"] == "+":
                        cig.append((4, 30)); s_ += "A" * 30
                    else:
                        cig.insert(0, (4, 30)); s_ = "T" * 30 + s_
                    a.cigartuples, a.query_sequence = cig, s_
                    a.query_qualities = pysam.qualitystring_to_array("I" * len(s_))
                    a.set_tag("NM", 0)
                    recs.append(a)
        with pysam.AlignmentFile(os.path.join(d, "rnd.bam"), "wb", template=inp) as out:
            for a in sorted(recs, key=lambda x: x.reference_start):
                out.write(a)
        pysam.index(os.path.join(d, "rnd.bam"))
        open(os.path.join(d, "rnd.gtf"), "w").write("\n".join(gtf) + "\n")
        return "rnd.bam", "rnd.gtf"
    return prepare


def _random_loci_problems(seed, annotated, counter=None):
    def expect(models):
        if counter is not None:
            counter.append(sum(1 for t in models if t.startswith("transcript")))
        return []
    return _novel_output_problems(annotated, _random_loci_prepare(seed), expect)


def replay_random_loci(d):
    p = _random_loci_problems(d["inputs"]["seed"], d["inputs"]["with_annotation"])
    return (not p), "seed %s, with_annotation=%s: %s" % (d["inputs"]["seed"], d["inputs"]["with_annotation"], p[:5] or "outputs consistent")


@bounded("C04.random_loci", ["C04", "C03"], shards=8, note="pipeline runs on generated loci (6 per run: random strand, 4-6 exons, 1-3 annotated isoforms, "
         "1-3 read populations: annotated chains, novel combinations of annotated introns, splice sites moved by 15-40 bp, double exon "
         "skipping, a minor variant with an acceptor 8-21 bp upstream of the dominant one followed by a micro-exon; polyA tails), with the generated annotation and annotation-free: the output invariants of C04.pipeline_outputs")
def c04_random_loci(tier, rng):
    n = 2 if tier == "quick" else 20
    base = rng.randrange(10 ** 9)
    viol, novel = [], []
    cases = 0
    for k in range(n):
        for wa in (True, False):
            if tier == "quick" and wa != (k % 2 == 0):
                continue
            cases += 1
            p = _random_loci_problems(base + k, wa, novel)
            if p:
                viol.append({"obligation": "C04.random_loci.%s" % ("annotated" if wa else "annotation_free"),
                             "inputs": {"seed": base + k, "with_annotation": wa}, "observed": p[:5],
                             "required": "novel models evidence-backed, labelled, non-redundant", "replay_call": "contracts.c_novel:replay_random_loci"})
                break
        if viol:
            break
    if not viol and sum(novel) == 0:
        viol.append({"obligation": "C04.random_loci.nontrivial", "inputs": None, "observed": "no novel model in %d runs" % cases, "required": "some novel models",
                     "undecided": True})
    return {"cases": cases, "bound": "%d pipeline runs x 6 generated loci (%d novel models reported)" % (cases, sum(novel)), "violations": viol,
            "samples": [{"seed": base, "novel_models": sum(novel)}]}


# ---- which tail evidence a novel FL path hands to the strand decision ----------------------------------------------------------------------------
def _tail_evidence_extract(fdef):
    """construct_fl_isoforms: the assignments of has_polyt / has_polya / polya_site for a novel FL path, as a function of `path` and
    `intron_path`, returning (has_polya, has_polyt, polya_site); the VERTEX_* names are replaced by their values in src/intron_graph.py;
    everything else of the method is dropped"""
    import copy
    ig = native.repo_import("src/intron_graph.py")
    keep = []
    for n in ast.walk(fdef):
        if isinstance(n, ast.Assign) and isinstance(n.targets[0], ast.Name) and n.targets[0].id in ("has_polyt", "has_polya", "polya_site"):
            keep.append(copy.deepcopy(n))
    if {k.targets[0].id for k in keep} != {"has_polyt", "has_polya", "polya_site"}:
        raise front.Missing("has_polyt / has_polya / polya_site not found in construct_fl_isoforms")
    keep.sort(key=lambda n: n.lineno)

    class Consts(ast.NodeTransformer):
        def visit_Name(self, node):
            if node.id.startswith("VERTEX_") and hasattr(ig, node.id):
                return ast.copy_location(ast.Constant(value=getattr(ig, node.id)), node)
            return node
    keep = [Consts().visit(k) for k in keep]
    ret = ast.Return(value=ast.Tuple(elts=[ast.Name(id=x, ctx=ast.Load()) for x in ("has_polya", "has_polyt", "polya_site")], ctx=ast.Load()))
    args = ast.arguments(posonlyargs=[], args=[ast.arg(arg=a) for a in ("self", "path", "intron_path")], kwonlyargs=[], kw_defaults=[], defaults=[])
    return ast.fix_missing_locations(ast.FunctionDef(name="construct_fl_isoforms", args=args, body=keep + [ret], decorator_list=[],
                                                     lineno=fdef.lineno, col_offset=0))


contract(G + "GraphBasedModelConstructor.construct_fl_isoforms#tail_evidence", {"self": "rec:CtorStrand", "path": IVS, "intron_path": IVS},
         returns="tuple[bool,bool,bool]", props=["C18", "C04", "C11"], extract=_tail_evidence_extract, native=False,
         # shape of a full-length path in the intron graph: a start vertex (polyT -20 or read start -21), the introns, an end vertex (polyA -10
         # or read end -11); intron_path is the path without its two terminal vertices
         requires=["len(path) >= 3", "len(intron_path) == len(path) - 2", "all(intron_path[i] == path[i + 1] for i in range(len(intron_path)))",
                   "all(intron_path[i][0] >= 0 for i in range(len(intron_path)))",
                   "path[0][0] == -20 or path[0][0] == -21", "path[len(path) - 1][0] == -10 or path[len(path) - 1][0] == -11"],
         # polyT evidence = the path starts at a polyT vertex, polyA evidence = it ends at a polyA vertex (mirror images), and the model counts
         # as having a polyA site when either holds
         ensures=["result[1] == (path[0][0] == -20)", "result[0] == (path[len(path) - 1][0] == -10)", "result[2] == (result[0] or result[1])"],
         canary="not result[1]")


# ---- clustering of read ends: the step that keeps two models with one intron chain from being built around neighbouring end positions -----------
def _end_clustering_problems(seed):
    """random position tables through the real IntronGraph.cluster_polya_positions (all clusters kept: cutoffs 0) and the real
    GraphBasedModelConstructor.cluster_monoexons; clauses, over the input table and the returned clusters only: (1) every read end is
    counted in exactly one cluster (sum of counts kept / every read in one list); (2) every observed position lies within apa_delta of
    a cluster position; (3) two cluster positions that are not annotated ends are more than apa_delta apart - the thread step accepts a
    vertex within apa_delta (closed), so two closer clusters give two full-length paths with one intron chain"""
    import random
    import types
    ig = native.repo_import("src/intron_graph.py")
    gm = native.repo_import("src/graph_based_model_construction.py")
    rng = random.Random(seed)
    problems = []
    for _ in range(60):
        d = rng.choice((1, 5, 10, 50))
        read_end = rng.random() < .5
        intron = (1000, 2000)
        lo = 2001 if read_end else 1
        centre = lo + 4 * d + rng.randrange(600)
        offs = [0, d, -d, d + 1, -d - 1, 2 * d, -2 * d, 2 * d + 1] + [rng.randrange(-3 * d, 3 * d + 1) for _ in range(4)]
        positions = {}
        for o in rng.sample(offs, rng.randrange(1, len(offs))):
            p = centre + o
            if (p > intron[1]) if read_end else (0 < p < intron[0] - 4 * d):
                positions[p] = rng.randrange(1, 6)
        if not positions:
            continue
        known = sorted(set(centre + rng.choice((-d - 3, 3 * d + 7, 7 * d)) for _ in range(rng.randrange(0, 3))))
        known = [k for k in known if ((k > intron[1] + d) if read_end else (d < k < intron[0] - d))]
        g = ig.IntronGraph.__new__(ig.IntronGraph)
        g.params = types.SimpleNamespace(apa_delta=d, terminal_position_abs=0, terminal_position_rel=0.0)
        g.terminal_known_positions = {intron: known}
        g.starting_known_positions = {intron: known}
        try:
            res = g.cluster_polya_positions(dict(positions), intron, read_end)
        except AssertionError:
            continue   # a snapped position on the wrong side of the intron: the function's own precondition, not ours
        tag = "cluster_polya_positions(apa_delta=%d, positions=%s, annotated=%s)" % (d, sorted(positions.items()), known)
        if sum(res.values()) != sum(positions.values()):
            problems.append("%s -> %s: %d read ends in, %d in the clusters" % (tag, sorted(res.items()), sum(positions.values()), sum(res.values())))
        for p in positions:
            if not any(abs(p - k) <= d for k in res):
                problems.append("%s -> %s: position %d is in no cluster" % (tag, sorted(res.items()), p))
        free = sorted(k for k in res if k not in known)
        for a, b in zip(free, free[1:]):
            if b - a <= d:
                problems.append("%s -> %s: clusters %d and %d are %d apart (must be more than apa_delta)" % (tag, sorted(res.items()), a, b, b - a))
        # mono-exon clustering: same shape, lists of reads instead of counts
        c = gm.GraphBasedModelConstructor.__new__(gm.GraphBasedModelConstructor)
        c.params = types.SimpleNamespace(apa_delta=d)
        grouped = dict((p, ["r%d_%d" % (p, i) for i in range(n)]) for p, n in positions.items())
        res2 = c.cluster_monoexons(dict((k, list(v)) for k, v in grouped.items()))
        tag2 = "cluster_monoexons(apa_delta=%d, %s)" % (d, sorted((p, len(v)) for p, v in grouped.items()))
        allr = sorted(r for v in res2.values() for r in v)
        if allr != sorted(r for v in grouped.values() for r in v):
            problems.append("%s: reads in the clusters differ from the reads given" % tag2)
        for k, v in res2.items():
            for r in v:
                if abs(int(r[1:].split("_")[0]) - k) > d:
                    problems.append("%s: read %s in the cluster at %d" % (tag2, r, k))
        ks = sorted(res2)
        for a, b in zip(ks, ks[1:]):
            if b - a <= d:
                problems.append("%s: clusters %d and %d are %d apart" % (tag2, a, b, b - a))
        if problems:
            break
    return problems


def replay_end_clustering(d):
    p = _end_clustering_problems(d["inputs"]["seed"])
    return (not p), "seed %s: %s" % (d["inputs"]["seed"], p[:3] or "clusters consistent")


@bounded("C04.end_clustering", ["C04"], note="random tables of observed read-end positions (offsets 0, +-apa_delta, +-(apa_delta+1), +-2*apa_delta and "
         "random ones around a peak; with and without annotated ends nearby) through the real IntronGraph.cluster_polya_positions and "
         "GraphBasedModelConstructor.cluster_monoexons: every read end in exactly one cluster, every position within apa_delta of its "
         "cluster, clusters that are not annotated ends more than apa_delta apart")
def c04_end_clustering(tier, rng):
    n = 10 if tier == "quick" else 200
    base = rng.randrange(10 ** 9)
    for k in range(n):
        p = _end_clustering_problems(base + k)
        if p:
            return {"cases": (k + 1) * 60, "bound": "random tables", "violations": [
                {"obligation": "C04.end_clustering", "inputs": {"seed": base + k}, "observed": p[:3],
                 "required": "clusters partition the read ends; distinct clusters more than apa_delta apart", "replay_call": "contracts.c_novel:replay_end_clustering"}]}
    return {"cases": n * 60, "bound": "%d x 60 random position tables, apa_delta in {1,5,10,50}" % n, "violations": [], "samples": [{"seed": base}]}


# ---- which full-length paths are turned into exons at all: never one with two overlapping or touching neighbouring introns ---------------------------
def _path_guard_extract(fdef):
    """construct_fl_isoforms: the statements of the loop body from `intron_path = path[1:-1]` up to (not including) the assignment of
    transcript_range, as a function of `path` returning whether the path goes on to get_exons: every `continue` becomes `return False`, the
    end of the slice `return True`; everything else of the method is dropped"""
    import copy
    loop = [n for n in ast.walk(fdef) if isinstance(n, ast.For) and isinstance(n.target, ast.Name) and n.target.id == "path"]
    if not loop:
        raise front.Missing("loop over FL paths not found in construct_fl_isoforms")
    body = loop[0].body
    start = [i for i, s_ in enumerate(body) if isinstance(s_, ast.Assign) and ast.unparse(s_.targets[0]) == "intron_path"]
    stop = [i for i, s_ in enumerate(body) if isinstance(s_, ast.Assign) and ast.unparse(s_.targets[0]) == "transcript_range"]
    if not start or not stop or stop[0] <= start[0]:
        raise front.Missing("intron_path / transcript_range assignments not found in construct_fl_isoforms")
    keep = [copy.deepcopy(s_) for s_ in body[start[0]:stop[0]]]

    class Cont(ast.NodeTransformer):
        def visit_Continue(self, node):
            return ast.copy_location(ast.Return(value=ast.Constant(value=False)), node)
    keep = [Cont().visit(k) for k in keep]
    args = ast.arguments(posonlyargs=[], args=[ast.arg(arg=a) for a in ("self", "path")], kwonlyargs=[], kw_defaults=[], defaults=[])
    return ast.fix_missing_locations(ast.FunctionDef(name="construct_fl_isoforms", args=args, body=keep + [ast.Return(value=ast.Constant(value=True))],
                                                     decorator_list=[], lineno=fdef.lineno, col_offset=0))


contract(G + "GraphBasedModelConstructor.construct_fl_isoforms#path_guard", {"self": "rec:CtorStrand", "path": IVS},
         returns="bool", props=["C04", "C03"], extract=_path_guard_extract, native=False,
         locals={"intron_path": IVS},
         requires=["len(path) >= 2"],
         # a path goes on to get_exons exactly when it has an intron and every two neighbouring introns leave room for an exon between
         # them - the precondition under which get_exons returns the exons between the introns (its contract) and no intron is fused
         ensures=["result == (len(path) > 2 and all(path[i + 1][1] + 1 < path[i + 2][0] for i in range(len(path) - 3)))"],
         canary="not result")


# ---- which strandness level a run without --report_canonical gets -------------------------------------------------------------------------------------
@finite("C04.default_strand_level", ["C04", "C18"], note="the default of --report_canonical, read from the add_argument call in isoquant.py, through the real "
        "set_model_construction_options for all eight model construction strategies: a run that does not ask for it never reports models of "
        "undetermined strand (the resolved level is only_canonical or only_stranded); an explicit level is taken as given")
def c04_default_strand_level(tier, rng):
    from argparse import Namespace
    from contracts import pipeline_harness as H
    m = H.isoquant_main()
    tree = ast.parse(open(front.REPO + "/isoquant.py").read())
    calls = [n for n in ast.walk(tree) if isinstance(n, ast.Call) and any(isinstance(a, ast.Constant) and a.value == "--report_canonical" for a in n.args)]
    if len(calls) != 1:
        raise front.Missing("the --report_canonical option is not declared exactly once in isoquant.py")
    dflt = [k.value for k in calls[0].keywords if k.arg == "default"]
    if not dflt:
        raise front.Missing("--report_canonical has no default")
    default = eval(compile(ast.Expression(dflt[0]), "<default>", "eval"), vars(m))
    level = m.StrandnessReportingLevel
    strategies = ["reliable", "default_pacbio", "sensitive_pacbio", "default_ont", "sensitive_ont", "fl_pacbio", "all", "assembly"]
    obl = dis = 0
    viol = []
    for s_ in strategies:
        for explicit in (None, "only_canonical", "only_stranded"):
            obl += 1
            args = Namespace(report_canonical=explicit or default, model_construction_strategy=s_, graph_clustering_distance=None,
                             report_novel_unspliced=None, no_model_construction=True, polya_requirement="auto")
            try:
                m.set_model_construction_options(args)
                got = args.report_canonical_strategy
            except Exception as e:
                got = "%s: %s" % (type(e).__name__, e)
            ok = got == level[explicit] if explicit else got in (level.only_canonical, level.only_stranded)
            if ok:
                dis += 1
            else:
                viol.append({"obligation": "C04.default_strand_level.%s.%s" % (s_, explicit or "default"),
                             "inputs": {"model_construction_strategy": s_, "report_canonical": explicit or "(default) %s" % default},
                             "observed": str(got), "required": explicit or "only_canonical or only_stranded"})
    return {"obligations": obl, "discharged": dis, "violations": viol[:4], "cases": obl, "exhaustive": True,
            "bound": "8 strategies x {default, only_canonical, only_stranded}", "samples": [{"model_construction_strategy": "all", "default": str(default)}]}


# ---- novel mono-exon models: reads are registered for models that exist ---------------------------------------------------------------------------------
def _monoexon_registration_problems(seed):
    """the real generate_monoexon_from_clustered on random clusters of tailed unspliced reads next to 0-2 existing models (clusters inside an
    exon of an existing model, overlapping it by half, or apart from it; counts around min_novel_count): every read registered for a
    transcript id is registered for a model in transcript_model_storage, a reported model has at least min_novel_count reads, all of its
    cluster, and spans them"""
    import random
    import types
    from collections import defaultdict
    gm = native.repo_import("src/graph_based_model_construction.py")
    gi = native.repo_import("src/gene_info.py")
    idp = native.repo_import("src/id_policy.py")
    rng = random.Random(seed)
    problems = []
    for _ in range(30):
        c = gm.GraphBasedModelConstructor.__new__(gm.GraphBasedModelConstructor)
        c.params = types.SimpleNamespace(min_novel_count=rng.choice([1, 2, 3]))
        c.gene_info = types.SimpleNamespace(chr_id="chr1")
        c.id_distributor = idp.SimpleIDDistributor()
        c.chr_record = None
        c.transcript_read_ids, c.internal_counter, c.read_assignment_counts = defaultdict(list), defaultdict(int), defaultdict(int)
        existing = []
        for k in range(rng.randint(0, 2)):
            a = 1000 + 3000 * k
            existing.append(gi.TranscriptModel("chr1", "+", "old%d" % k, "g", [(a, a + 600), (a + 1200, a + 1500)], gi.TranscriptModelType.novel_not_in_catalog))
        c.transcript_model_storage = list(existing)
        forward = rng.random() < .5
        clusters = {}
        rid = 0
        for k in range(rng.randint(1, 3)):
            anchor = rng.choice([1100, 1350, 1650, 2300, 4100, 8000]) + rng.randint(0, 40)
            ln = rng.choice([200, 300, 500, 900])
            reads = []
            for _r in range(rng.randint(1, 4)):
                s_, e_ = (anchor - ln - rng.randint(0, 30), anchor) if forward else (anchor, anchor + ln + rng.randint(0, 30))
                reads.append(types.SimpleNamespace(read_id="r%d" % rid, corrected_exons=[(s_, e_)]))
                rid += 1
            clusters.setdefault(anchor, []).extend(reads)
        before = len(c.transcript_model_storage)
        c.generate_monoexon_from_clustered(clusters, forward)
        models = {m.transcript_id: m for m in c.transcript_model_storage}
        tag = "min_novel_count %d, existing %s, clusters %s" % (c.params.min_novel_count, [m.exon_blocks for m in existing],
                                                                 {k: [r.corrected_exons[0] for r in v] for k, v in clusters.items()})
        for tid, reads in c.transcript_read_ids.items():
            if reads and tid not in models:
                problems.append("%s: %d reads are registered for %s, which is not among the models %s" % (tag, len(reads), tid, sorted(models)))
        for m in c.transcript_model_storage[before:]:
            reads = c.transcript_read_ids.get(m.transcript_id, [])
            if len(reads) < c.params.min_novel_count:
                problems.append("%s: model %s %s has %d reads" % (tag, m.transcript_id, m.exon_blocks, len(reads)))
            if any(r.corrected_exons[0][0] < m.exon_blocks[0][0] or r.corrected_exons[-1][1] > m.exon_blocks[-1][1] for r in reads):
                problems.append("%s: model %s %s does not span its reads" % (tag, m.transcript_id, m.exon_blocks))
        if problems:
            break
    return problems


def replay_monoexon_registration(d):
    p = _monoexon_registration_problems(d["inputs"]["seed"])
    return (not p), "seed %s: %s" % (d["inputs"]["seed"], p[:2] or "reads registered for existing models only")


@bounded("C04.monoexon_registration", ["C04"], note="the real GraphBasedModelConstructor.generate_monoexon_from_clustered on random clusters of tailed unspliced reads "
         "next to 0-2 existing models (inside an exon of a model, overlapping it, apart from it; counts around min_novel_count): reads are registered "
         "only for transcripts that are in the model storage, a new model has at least min_novel_count reads and spans them")
def c04_monoexon_registration(tier, rng):
    n = 40 if tier == "quick" else 1500
    base = rng.randrange(10 ** 9)
    for k in range(n):
        try:
            p = _monoexon_registration_problems(base + k)
        except Exception as e:
            p = ["exception %s: %s" % (type(e).__name__, e)]
        if p:
            return {"cases": (k + 1) * 30, "bound": "random clusters", "violations": [{
                "obligation": "C04.monoexon_registration", "inputs": {"seed": base + k}, "observed": p[:2],
                "required": "transcript_model_reads references only reported transcripts", "replay_call": "contracts.c_novel:replay_monoexon_registration"}]}
    return {"cases": n * 30, "bound": "%d x 30 random cluster sets" % n, "violations": [], "samples": [{"seed": base}]}



# ---- a rare isoform next to a highly expressed one: reads freed by a deleted model are not listed for it ---------------------------------------------------
def _rare_isoform_inputs(d):
    """annotation-free: 300 reads of a 4-exon isoform and 2 reads of its exon-skipping variant in the gene-free stretch of the bundled reference
    (PacBio settings: the rare model passes the absolute cut-off of the path stage and is deleted by the relative one afterwards)"""
    import gzip, os
    import pysam
    seq = "".join(l.strip() for l in gzip.open(os.path.join(d, "chr9.4M.fa.gz"), "rt") if not l.startswith(">")).upper()
    inp = pysam.AlignmentFile(os.path.join(d, "chr9.4M.ont.sim.polya.bam"))
    tid = inp.get_tid("chr9")
    base = 3041000
    full = [(base + 1000, base + 1300), (base + 2000, base + 2200), (base + 3000, base + 3200), (base + 4000, base + 4400)]
    skip = [full[0], full[1], full[3]]
    recs = []
    for name, ex, n in (("major", full, 300), ("minor", skip, 2)):
        for k in range(n):
            a = pysam.AlignedSegment(inp.header)
            a.query_name, a.flag, a.reference_id, a.reference_start, a.mapping_quality = "%s_%d" % (name, k), 0, tid, ex[0][0] - 1, 60
            cig, s_ = [], ""
            for i, (x, y) in enumerate(ex):
                if i:
                    cig.append((3, x - ex[i - 1][1] - 1))
                cig.append((0, y - x + 1)); s_ += seq[x - 1:y]
            cig.append((4, 30)); s_ += "A" * 30
            a.cigartuples, a.query_sequence = cig, s_
            a.query_qualities = pysam.qualitystring_to_array("I" * len(s_))
            a.set_tag("NM", 0)
            recs.append(a)
    with pysam.AlignmentFile(os.path.join(d, "rare.bam"), "wb", template=inp) as out:
        for a in recs:
            out.write(a)
    pysam.index(os.path.join(d, "rare.bam"))
    return "rare.bam", "chr9.4M.gtf.gz"


def replay_rare_isoform(d):
    p = _novel_output_problems(False, _rare_isoform_inputs, None, ["-d", "pacbio_ccs"])
    return (not p), "rare isoform next to a major one: %s" % (p[:3] or "outputs consistent")


@bounded("C04.rare_isoform_reads", ["C04"], note="one annotation-free PacBio run on 300 reads of a 4-exon isoform and 2 reads of its exon-skipping variant: the output "
         "invariants of C04.pipeline_outputs, in particular transcript_model_reads names only transcripts of transcript_models.gtf")
def c04_rare_isoform(tier, rng):
    p = _novel_output_problems(False, _rare_isoform_inputs, None, ["-d", "pacbio_ccs"])
    viol = [{"obligation": "C04.rare_isoform_reads", "inputs": {"scenario": "300 + 2 reads"}, "observed": p[:4],
             "required": "novel models evidence-backed; the reads table names reported transcripts only", "replay_call": "contracts.c_novel:replay_rare_isoform"}] if p else []
    return {"cases": 1, "bound": "1 pipeline run", "violations": viol, "samples": [{"major": 300, "minor": 2}]}
