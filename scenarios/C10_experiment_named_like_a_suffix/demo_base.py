#!/usr/bin/env python
# Property C10: experiments processed in one invocation are independent of each other.
#
# One YAML with two experiments is run through the real isoquant.py:
#   REP    - two BAM files (so it gets the implied per-file read grouping)
#   SINGLE - one BAM file
# Each experiment is also run on its own from a YAML that contains only that experiment.
# The sentence checked: "Running several experiments from one YAML ... produces, for each experiment,
# exactly the files that a separate single-experiment run would produce, irrespective of the order of
# the experiments" - file names and file contents (the '# Command line' header line aside), for both
# orders of the experiments in the joint YAML.
#
# exit 0 + PASS when the property holds, exit 1 with a description otherwise.

import gzip
import os
import random
import shutil
import subprocess
import sys
import tempfile

import pysam

ROOT = os.path.dirname(os.path.dirname(os.path.abspath(__file__)))
ISOQUANT = os.path.join(ROOT, "isoquant.py")
CHR = "chr1"
CHR_LEN = 6000

# 1-based closed exon coordinates
T1 = [(501, 700), (1001, 1200), (1501, 1800)]
T2 = [(501, 700), (1501, 1800)]
T3 = [(3001, 3300), (3601, 3900)]          # second gene, minus strand


def make_reference(path):
    rnd = random.Random(7)
    seq = [rnd.choice("ACGT") for _ in range(CHR_LEN)]
    # canonical splice sites for all introns used (GT..AG on +, CT..AC on -)
    for exons, strand in ((T1, "+"), (T2, "+"), (T3, "-")):
        for (_, e_end), (n_start, _) in zip(exons[:-1], exons[1:]):
            donor, acceptor = ("GT", "AG") if strand == "+" else ("CT", "AC")
            seq[e_end], seq[e_end + 1] = donor          # first two intron bases (0-based e_end)
            seq[n_start - 3], seq[n_start - 2] = acceptor
    seq = "".join(seq)
    with open(path, "w") as f:
        f.write(">%s\n" % CHR)
        for i in range(0, CHR_LEN, 60):
            f.write(seq[i:i + 60] + "\n")
    pysam.faidx(path)
    return seq


def make_gtf(path):
    def attrs(g, t=None):
        s = 'gene_id "%s";' % g
        if t:
            s += ' transcript_id "%s";' % t
        return s

    lines = []
    def gene(gid, strand, transcripts):
        start = min(e[0] for _, ex in transcripts for e in ex)
        end = max(e[1] for _, ex in transcripts for e in ex)
        lines.append("\t".join([CHR, "demo", "gene", str(start), str(end), ".", strand, ".", attrs(gid)]))
        for tid, exons in transcripts:
            lines.append("\t".join([CHR, "demo", "transcript", str(exons[0][0]), str(exons[-1][1]), ".", strand, ".",
                                    attrs(gid, tid)]))
            for e in exons:
                lines.append("\t".join([CHR, "demo", "exon", str(e[0]), str(e[1]), ".", strand, ".", attrs(gid, tid)]))

    gene("G1", "+", [("G1.T1", T1), ("G1.T2", T2)])
    gene("G2", "-", [("G2.T3", T3)])
    with open(path, "w") as f:
        f.write("\n".join(lines) + "\n")


def make_bam(path, ref_seq, reads):
    # reads: list of (name, exons, is_reverse); exons 1-based closed, trimmed a little at the ends
    header = {"HD": {"VN": "1.6", "SO": "coordinate"}, "SQ": [{"SN": CHR, "LN": CHR_LEN}]}
    unsorted = path + ".unsorted.bam"
    with pysam.AlignmentFile(unsorted, "wb", header=header) as out:
        for name, exons, is_reverse in reads:
            a = pysam.AlignedSegment(out.header)
            a.query_name = name
            a.reference_id = 0
            a.reference_start = exons[0][0] - 1
            a.mapping_quality = 60
            a.flag = 16 if is_reverse else 0
            cigar = []
            seq = ""
            for i, (s, e) in enumerate(exons):
                if i > 0:
                    cigar.append((3, s - exons[i - 1][1] - 1))
                cigar.append((0, e - s + 1))
                seq += ref_seq[s - 1:e]
            a.cigartuples = cigar
            a.query_sequence = seq
            a.query_qualities = pysam.qualitystring_to_array("I" * len(seq))
            a.set_tag("NM", 0)
            out.write(a)
    pysam.sort("-o", path, unsorted)
    os.remove(unsorted)
    pysam.index(path)


def trimmed(exons, left, right):
    ex = list(exons)
    ex[0] = (ex[0][0] + left, ex[0][1])
    ex[-1] = (ex[-1][0], ex[-1][1] - right)
    return ex


def write_yaml(path, experiments):
    with open(path, "w") as f:
        f.write("[\n  {\"data format\": \"bam\"}")
        for name, files in experiments:
            f.write(",\n  {\"name\": \"%s\", \"long read files\": [%s]}" %
                    (name, ", ".join('"%s"' % x for x in files)))
        f.write("\n]\n")


def run_isoquant(yaml_path, out_dir, ref, gtf, home, threads=1):
    env = dict(os.environ)
    env["HOME"] = home
    cmd = [sys.executable, ISOQUANT, "--yaml", yaml_path, "-o", out_dir, "--reference", ref,
           "--genedb", gtf, "--complete_genedb", "--data_type", "nanopore", "--threads", str(threads)]
    res = subprocess.run(cmd, cwd=home, env=env, stdout=subprocess.PIPE, stderr=subprocess.STDOUT, text=True)
    if res.returncode != 0:
        print(res.stdout[-3000:])
        raise RuntimeError("isoquant.py failed for %s (exit %d)" % (yaml_path, res.returncode))


def experiment_files(out_dir, name):
    """relative file name -> content (header line with the command line removed); aux directory excluded"""
    base = os.path.join(out_dir, name)
    result = {}
    for dirpath, dirnames, filenames in os.walk(base):
        dirnames[:] = [d for d in dirnames if d != "aux"]
        for fn in filenames:
            full = os.path.join(dirpath, fn)
            opener = gzip.open if fn.endswith(".gz") else open     # gzip headers carry a time stamp: compare the text
            with opener(full, "rb") as f:
                lines = [l for l in f.read().split(b"\n") if not l.startswith(b"# Command line:")]
            result[os.path.relpath(full, base)] = b"\n".join(lines)
    return result


def compare(joint, alone, label, problems):
    extra = sorted(set(joint) - set(alone))
    missing = sorted(set(alone) - set(joint))
    if extra:
        problems.append("%s: files that the stand-alone run does not produce: %s" % (label, ", ".join(extra)))
    if missing:
        problems.append("%s: files of the stand-alone run that are missing: %s" % (label, ", ".join(missing)))
    for fn in sorted(set(joint) & set(alone)):
        if joint[fn] != alone[fn]:
            jl, al = joint[fn].split(b"\n"), alone[fn].split(b"\n")
            diff = next(((x, y) for x, y in zip(jl, al) if x != y), (b"<length differs>", b""))
            problems.append("%s: %s differs from the stand-alone run\n      joint: %s\n      alone: %s" %
                            (label, fn, diff[0].decode(errors="replace")[:200], diff[1].decode(errors="replace")[:200]))


def main():
    tmp = tempfile.mkdtemp(prefix="c10_demo_")
    try:
        home = os.path.join(tmp, "home")
        os.makedirs(home)
        ref = os.path.join(tmp, "ref.fa")
        gtf = os.path.join(tmp, "genes.gtf")
        ref_seq = make_reference(ref)
        make_gtf(gtf)

        bams = {}
        def bam(name, reads):
            bams[name] = os.path.join(tmp, name + ".bam")
            make_bam(bams[name], ref_seq, reads)

        bam("rep_a", [("ra1", trimmed(T1, 5, 10), False), ("ra2", trimmed(T1, 0, 20), False),
                      ("ra3", trimmed(T2, 10, 0), False), ("ra4", trimmed(T3, 3, 3), True)])
        bam("rep_b", [("rb1", trimmed(T2, 2, 12), False), ("rb2", trimmed(T2, 8, 8), False),
                      ("rb3", trimmed(T1, 4, 4), False)])
        bam("single", [("s1", trimmed(T1, 6, 6), False), ("s2", trimmed(T2, 1, 9), False),
                       ("s3", trimmed(T3, 0, 15), True), ("s4", trimmed(T3, 7, 2), True),
                       ("s5", trimmed(T1, 12, 3), False)])

        experiments = {"REP": [bams["rep_a"], bams["rep_b"]], "SINGLE": [bams["single"]]}

        # stand-alone runs: one YAML per experiment
        alone = {}
        for name, files in experiments.items():
            y = os.path.join(tmp, "alone_%s.yaml" % name)
            write_yaml(y, [(name, files)])
            out = os.path.join(tmp, "out_alone_" + name)
            run_isoquant(y, out, ref, gtf, home)
            alone[name] = experiment_files(out, name)
            if not any(".read_assignments.tsv" in fn for fn in alone[name]):
                raise RuntimeError("stand-alone run of %s produced no read assignments" % name)

        problems = []
        for order in (["REP", "SINGLE"], ["SINGLE", "REP"]):
            tag = "_".join(order)
            y = os.path.join(tmp, "joint_%s.yaml" % tag)
            write_yaml(y, [(n, experiments[n]) for n in order])
            out = os.path.join(tmp, "out_joint_" + tag)
            run_isoquant(y, out, ref, gtf, home)
            for name in order:
                compare(experiment_files(out, name), alone[name],
                        "joint run [%s], experiment %s" % (", ".join(order), name), problems)

        if problems:
            print("FAIL: experiments of one invocation are not independent of each other")
            for p in problems:
                print("  - " + p)
            return 1
        print("PASS: each experiment of the joint runs has exactly the files and contents of its stand-alone run "
              "(%s)" % "; ".join("%s: %d files" % (n, len(alone[n])) for n in sorted(alone)))
        return 0
    finally:
        shutil.rmtree(tmp, ignore_errors=True)


if __name__ == "__main__":
    sys.exit(main())
