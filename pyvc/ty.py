"""Types of the pyvc input language and their z3 sorts.

A type is written in contracts as a string, e.g. "list[tuple[int,int]]", "opt[int]",
"dict[str,int]", "set[tuple[int,int]]", "rec:ReadWeightCounter", "enum:CigarEvent".
"""
import ast
import z3


class Ty:
    def __repr__(self):
        return self.name

    def __eq__(self, o):
        return isinstance(o, Ty) and self.name == o.name

    def __hash__(self):
        return hash(self.name)


class TPrim(Ty):
    def __init__(self, name):
        self.name = name


INT = TPrim("int")
BOOL = TPrim("bool")
REAL = TPrim("real")
STR = TPrim("str")
NONE = TPrim("none")
ANY = TPrim("any")  # opaque value: only stored, passed around, compared for identity


class TTuple(Ty):
    def __init__(self, items):
        self.items = list(items)
        self.name = "tuple[%s]" % ",".join(i.name for i in self.items)


class TList(Ty):
    def __init__(self, elem):
        self.elem = elem
        self.name = "list[%s]" % elem.name


class TOpt(Ty):
    def __init__(self, inner):
        self.inner = inner
        self.name = "opt[%s]" % inner.name


class TSet(Ty):
    def __init__(self, key):
        self.key = key
        self.name = "set[%s]" % key.name


class TDict(Ty):
    def __init__(self, key, val, default=None):
        self.key = key
        self.val = val
        self.default = default  # None: plain dict; else python literal source for the default value ("0", "[]")
        self.name = "dict[%s,%s]" % (key.name, val.name) + ("" if default is None else "~" + default)


class TEnum(Ty):
    """Finite enumeration read from a class body in the repo AST (members in source order)."""

    def __init__(self, ename, members, values):
        self.ename = ename
        self.members = list(members)
        self.values = dict(values)  # member -> python constant
        self.name = "enum:" + ename


class TRec(Ty):
    """Object shape: declared field -> type. Declared in sidecars."""

    def __init__(self, rname, fields):
        self.rname = rname
        self.fields = dict(fields)  # name -> Ty
        self.name = "rec:" + rname


RECORDS = {}  # name -> TRec   (filled by contracts)
ENUMS = {}  # name -> TEnum  (filled by the front end from the repo AST)


def parse_type(s):
    if isinstance(s, Ty):
        return s
    s = s.strip()
    default = None
    node = ast.parse(s.replace("rec:", "rec__").replace("enum:", "enum__"), mode="eval").body
    return _from_node(node)


def _from_node(n):
    if isinstance(n, ast.Name):
        nm = n.id
        if nm == "int":
            return INT
        if nm == "bool":
            return BOOL
        if nm in ("real", "float"):
            return REAL
        if nm == "str":
            return STR
        if nm in ("none", "None"):
            return NONE
        if nm == "any":
            return ANY
        if nm == "interval":
            return TTuple([INT, INT])
        if nm == "intervals":
            return TList(TTuple([INT, INT]))
        if nm.startswith("rec__"):
            r = nm[5:]
            if r not in RECORDS:
                raise KeyError("undeclared record shape " + r)
            return RECORDS[r]
        if nm.startswith("enum__"):
            e = nm[6:]
            if e not in ENUMS:
                raise KeyError("unknown enum " + e)
            return ENUMS[e]
        raise ValueError("unknown type name " + nm)
    if isinstance(n, ast.Constant) and n.value is None:
        return NONE
    if isinstance(n, ast.Subscript):
        head = n.value.id
        sl = n.slice
        args = list(sl.elts) if isinstance(sl, ast.Tuple) else [sl]
        if head == "list":
            return TList(_from_node(args[0]))
        if head == "tuple":
            return TTuple([_from_node(a) for a in args])
        if head == "opt":
            return TOpt(_from_node(args[0]))
        if head == "set":
            return TSet(_from_node(args[0]))
        if head == "dict":
            return TDict(_from_node(args[0]), _from_node(args[1]))
        if head == "defaultdict":
            d = ast.unparse(args[2]) if len(args) > 2 else "0"
            if isinstance(args[2], ast.Constant) and isinstance(args[2].value, str):
                d = args[2].value
            return TDict(_from_node(args[0]), _from_node(args[1]), default=d)
        raise ValueError("unknown type constructor " + head)
    raise ValueError("bad type syntax " + ast.dump(n))


# ---------------------------------------------------------------------------------------------
# z3 sorts

_sort_cache = {}

StrSort = None
NoneSort = None
AnySort = None


def _mangle(name):
    return (name.replace("[", "_L_").replace("]", "_R_").replace(",", "_").replace(":", "_")
            .replace("~", "_d_").replace(" ", ""))


class SortInfo:
    """z3 datatype wrappers"""

    def __init__(self, sort, **kw):
        self.sort = sort
        self.__dict__.update(kw)


def sort_info(ty):
    key = ty.name
    if key in _sort_cache:
        return _sort_cache[key]
    si = _mk_sort(ty)
    _sort_cache[key] = si
    return si


def sort_of(ty):
    return sort_info(ty).sort


def _mk_sort(ty):
    if ty == INT:
        return SortInfo(z3.IntSort())
    if ty == BOOL:
        return SortInfo(z3.BoolSort())
    if ty == REAL:
        return SortInfo(z3.RealSort())
    if ty == STR:
        return SortInfo(z3.StringSort())
    if ty == NONE:
        d = z3.Datatype("NoneT")
        d.declare("none_v")
        s = d.create()
        return SortInfo(s, none=s.none_v)
    if ty == ANY:
        return SortInfo(z3.DeclareSort("AnyT"))
    if isinstance(ty, TTuple):
        d = z3.Datatype("T_" + _mangle(ty.name))
        d.declare("mk", *[("f%d" % i, sort_of(t)) for i, t in enumerate(ty.items)])
        s = d.create()
        return SortInfo(s, mk=s.mk, acc=[getattr(s, "f%d" % i) for i in range(len(ty.items))])
    if isinstance(ty, TList):
        es = sort_of(ty.elem)
        d = z3.Datatype("L_" + _mangle(ty.name))
        d.declare("mk", ("n", z3.IntSort()), ("a", z3.ArraySort(z3.IntSort(), es)))
        s = d.create()
        return SortInfo(s, mk=s.mk, n=s.n, a=s.a)
    if isinstance(ty, TOpt):
        d = z3.Datatype("O_" + _mangle(ty.name))
        d.declare("none")
        d.declare("some", ("v", sort_of(ty.inner)))
        s = d.create()
        return SortInfo(s, none=s.none, some=s.some, v=s.v, is_none=s.is_none, is_some=s.is_some)
    if isinstance(ty, TSet):
        ks = sort_of(ty.key)
        d = z3.Datatype("S_" + _mangle(ty.name))
        d.declare("mk", ("m", z3.ArraySort(ks, z3.BoolSort())), ("c", z3.IntSort()))
        s = d.create()
        return SortInfo(s, mk=s.mk, m=s.m, c=s.c)
    if isinstance(ty, TDict):
        ks = sort_of(ty.key)
        vs = sort_of(ty.val)
        d = z3.Datatype("D_" + _mangle(ty.name))
        d.declare("mk", ("m", z3.ArraySort(ks, z3.BoolSort())), ("a", z3.ArraySort(ks, vs)), ("c", z3.IntSort()))
        s = d.create()
        return SortInfo(s, mk=s.mk, m=s.m, a=s.a, c=s.c)
    if isinstance(ty, TEnum):
        s, consts = z3.EnumSort("E_" + ty.ename, ["%s__%s" % (ty.ename, m) for m in ty.members])
        return SortInfo(s, consts=dict(zip(ty.members, consts)))
    if isinstance(ty, TRec):
        d = z3.Datatype("R_" + ty.rname)
        names = sorted(ty.fields)
        d.declare("mk", *[("%s__%s" % (ty.rname, f), sort_of(ty.fields[f])) for f in names])
        s = d.create()
        return SortInfo(s, mk=s.mk, names=names,
                        acc={f: getattr(s, "%s__%s" % (ty.rname, f)) for f in names})
    raise ValueError("no sort for " + repr(ty))
