import sys, time
sys.path.insert(0, '/verif')
from pyvc import api, engine
from pyvc.api import contract, spec
import z3

IV = "tuple[int,int]"
IVS = "list[tuple[int,int]]"

@spec("list[tuple[int,int]], int -> int")
def slen(L, n):
    return 0 if n <= 0 else slen(L, n - 1) + (L[n - 1][1] - L[n - 1][0] + 1)

contract("src/common.py:overlaps", {"range1": IV, "range2": IV}, returns="bool", transparent=True,
   ensures=["result == (max(range1[0], range2[0]) <= min(range1[1], range2[1]))"])
contract("src/common.py:interval_len", {"interval": IV}, returns="int", transparent=True,
   ensures=["result == interval[1] - interval[0] + 1"])
contract("src/common.py:intervals_total_length", {"sorted_range_list": IVS}, returns="int",
   ensures=["result == slen(sorted_range_list, len(sorted_range_list))"],
   loops={0: {"inv": ["total_len == slen(sorted_range_list, _k0)"]}})
contract("src/common.py:junctions_from_blocks", {"sorted_blocks": IVS}, returns=IVS,
   ensures=["len(result) <= max(0, len(sorted_blocks) - 1)"],
   loops={0: {"inv": ["len(junctions) <= _k0"]}})
contract("src/common.py:equal_ranges", {"range1": IV, "range2": IV, "delta": "int"}, returns="bool",
   ensures=["result == (abs(range1[0]-range2[0]) <= delta and abs(range1[1]-range2[1]) <= delta)"])
contract("src/common.py:argmin", {"l": "list[int]"}, returns="int",
   ensures=["(result == -1) == (len(l) == 0)", "len(l) == 0 or (0 <= result < len(l) and all(l[result] <= l[j] for j in range(len(l))))"],
   loops={0: {"inv": ["0 <= min_i < len(l)", "min_v == l[min_i]", "all(min_v <= l[j] for j in range(_k0))"]}})

eng = engine.Engine()
for q, c in api.REG.items():
    t0 = time.time()
    try:
        n, fdef, text = eng.generate(c)
    except Exception as e:
        import traceback; traceback.print_exc()
        print(q, "ERROR", e); continue
    res = {}
    for ob in eng.obligations:
        r = engine.solve(ob, 10000)
        res.setdefault(ob.name, []).append(r[0])
        if r[0] != "unsat":
            print("   ", ob.name, r[0], ob.info, "line", ob.line)
            if r[0] == "sat" and r[2] is not None:
                from pyvc.val import to_python
                print("      inputs:", {k: to_python(v, r[2]) for k, v in ob.inputs.items()})
    print(q, "paths", n, "obls", len(eng.obligations), "%.2fs" % (time.time() - t0), {k: v for k, v in res.items() if set(v) != {"unsat"}})
