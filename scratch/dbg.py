import sys, time
sys.path.insert(0, '/verif')
from pyvc import api, engine, run
run.load_contracts()
import z3
q = sys.argv[1]
c = api.REG[q]
eng = engine.Engine(run.class_home())
n, fdef, text = eng.generate(c)
for ob in eng.obligations:
    t0=time.time()
    r = engine.solve(ob, int(sys.argv[2]) if len(sys.argv)>2 else 10000)
    if r[0] != 'unsat' or '-a' in sys.argv:
        print(ob.name, 'path', ob.path, r[0], '%.2fs'%(time.time()-t0), ob.info, 'line', ob.line)
        if '-s' in sys.argv and r[0] != 'unsat':
            for a in ob.assumptions: print('   A:', a)
            print('   G:', ob.goal)
