#!/usr/bin/env python3
"""
Side observation 2 at baseline (C14): --splice_correction_strategy none does not switch off the short-read
based correction.  With --illumina_bam an intergenic read whose intron is 4 bp off a short-read junction is
moved onto that junction, so corrected_reads.bed differs from the input alignment although the strategy is none.

"... and with --splice_correction_strategy none the corrected alignment equals the input alignment."

AlignmentCollector.process_intergenic builds an IlluminaExonCorrector whenever illumina_bam is set; none of the
correct_* flags derived from the strategy is consulted on that path.  (The new splice site is also neither the
read's own nor an annotated one - it is an unannotated short-read junction - which is the design of that corrector.)

exit 1: observation reproduced (property violated on unmodified code); exit 0: not reproduced.
"""
import gzip
import os
import random
import shutil
import subprocess
import sys
import tempfile

import pysam

WORKTREE = os.path.dirname(os.path.dirname(os.path.abspath(__file__)))
CHR = "chr1"
CHR_LEN = 9000

GENE_EXONS = [(6001, 6200), (7001, 7200)]         # annotated gene far away from the reads

LONG_READS = {
    # intron 1201-2000; the short reads support 1201-2004
    "ig_4bp_off": [(1000, 1200), (2001, 2300)],
    # control without short-read support
    "ig_plain": [(3000, 3200), (4001, 4300)],
}
SHORT_READS = {
    "sr1": [(1151, 1200), (2005, 2054)],
    "sr2": [(1141, 1200), (2005, 2044)],
}


def make_genome(path):
    rnd = random.Random(141)
    seq = "".join(rnd.choice("ACGT") for _ in range(CHR_LEN))
    with open(path, "w") as f:
        f.write(">%s\n" % CHR)
        for i in range(0, len(seq), 60):
            f.write(seq[i:i + 60] + "\n")
    pysam.faidx(path)
    return seq


def make_gtf(path):
    attr_g = 'gene_id "G1"; gene_name "G1";'
    attr_t = 'gene_id "G1"; transcript_id "T1"; gene_name "G1";'
    with open(path, "w") as f:
        f.write("\t".join([CHR, "demo", "gene", str(GENE_EXONS[0][0]), str(GENE_EXONS[-1][1]), ".", "+", ".", attr_g]) + "\n")
        f.write("\t".join([CHR, "demo", "transcript", str(GENE_EXONS[0][0]), str(GENE_EXONS[-1][1]), ".", "+", ".", attr_t]) + "\n")
        for e in GENE_EXONS:
            f.write("\t".join([CHR, "demo", "exon", str(e[0]), str(e[1]), ".", "+", ".", attr_t]) + "\n")


def make_bam(path, genome, reads):
    header = pysam.AlignmentHeader.from_dict({"HD": {"VN": "1.0", "SO": "coordinate"},
                                              "SQ": [{"SN": CHR, "LN": CHR_LEN}]})
    records = []
    for name, blocks in reads.items():
        a = pysam.AlignedSegment(header)
        a.query_name = name
        a.reference_id = 0
        a.reference_start = blocks[0][0] - 1
        a.flag = 0
        a.mapping_quality = 60
        cigar = []
        seq = ""
        for i, b in enumerate(blocks):
            if i > 0:
                cigar.append((3, b[0] - blocks[i - 1][1] - 1))
            cigar.append((0, b[1] - b[0] + 1))
            seq += genome[b[0] - 1:b[1]]
        a.cigartuples = cigar
        a.query_sequence = seq
        a.query_qualities = pysam.qualitystring_to_array("I" * len(seq))
        records.append(a)
    records.sort(key=lambda r: r.reference_start)
    unsorted = path + ".unsorted.bam"
    with pysam.AlignmentFile(unsorted, "wb", header=header) as out:
        for r in records:
            out.write(r)
    pysam.sort("-o", path, unsorted)
    os.remove(unsorted)
    pysam.index(path)


def read_bed(path):
    opener = gzip.open if path.endswith(".gz") else open
    res = {}
    with opener(path, "rt") as f:
        for line in f:
            if line.startswith("#") or not line.strip():
                continue
            t = line.rstrip("\n").split("\t")
            start = int(t[1])
            sizes = [int(x) for x in t[10].split(",")]
            starts = [int(x) for x in t[11].split(",")]
            res[t[3]] = [(start + s + 1, start + s + l) for s, l in zip(starts, sizes)]
    return res


def main():
    tmp = tempfile.mkdtemp(prefix="c14_side2_")
    try:
        home = os.path.join(tmp, "home")
        os.makedirs(home)
        fasta = os.path.join(tmp, "genome.fa")
        gtf = os.path.join(tmp, "genes.gtf")
        bam = os.path.join(tmp, "long.bam")
        sbam = os.path.join(tmp, "short.bam")
        out = os.path.join(tmp, "out")
        genome = make_genome(fasta)
        make_gtf(gtf)
        make_bam(bam, genome, LONG_READS)
        make_bam(sbam, genome, SHORT_READS)
        env = dict(os.environ)
        env["HOME"] = home
        cmd = [sys.executable, os.path.join(WORKTREE, "isoquant.py"),
               "--reference", fasta, "--genedb", gtf, "--complete_genedb",
               "--bam", bam, "--illumina_bam", sbam, "--data_type", "pacbio_ccs", "--splice_correction_strategy", "none",
               "--no_model_construction", "-p", "demo", "-t", "1", "-o", out]
        p = subprocess.run(cmd, cwd=tmp, env=env, stdout=subprocess.PIPE, stderr=subprocess.STDOUT, text=True)
        if p.returncode != 0:
            print(p.stdout[-3000:])
            print("isoquant.py failed with code %d - observation not reproduced" % p.returncode)
            return 0
        bed_path = None
        for cand in ("demo.corrected_reads.bed.gz", "demo.corrected_reads.bed"):
            if os.path.exists(os.path.join(out, "demo", cand)):
                bed_path = os.path.join(out, "demo", cand)
        bed = read_bed(bed_path)
        bad = []
        for read_id, blocks in LONG_READS.items():
            if read_id not in bed:
                print("%s: not in corrected_reads.bed" % read_id)
                continue
            print("%-22s input %s\n%-22s bed   %s" % (read_id, blocks, "", bed[read_id]))
            if bed[read_id] != blocks:
                bad.append("%s: input alignment %s, corrected_reads.bed %s" % (read_id, blocks, bed[read_id]))
        if bad:
            print("REPRODUCED (baseline violation): corrected alignment differs from the input under strategy none:")
            for b in bad:
                print("  - " + b)
            return 1
        print("not reproduced: corrected alignments equal the input alignments")
        return 0
    finally:
        shutil.rmtree(tmp, ignore_errors=True)


if __name__ == "__main__":
    sys.exit(main())
