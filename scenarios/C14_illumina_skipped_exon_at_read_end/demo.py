#!/usr/bin/env python3
"""
Side observation for property C14 on the UNMODIFIED code (sentence "A corrected read keeps its
original start and end unless a terminal-exon correction enabled by the chosen strategy applies").

A long read outside annotated genes skips a 30 bp exon and its last exon is short (16 bases) and
placed 5 bases too early.  The short reads support the two introns around the 30 bp exon; the
second of them ends 5 bases beyond the end of the long read.  The short-read corrector accepts
the pair (outer sites within 25 bases) and the last exon of the read silently disappears, so the
record in corrected_reads.bed ends ~600 bases before the end of the input alignment.

Runs the real isoquant.py in a temporary directory.  Exit 1 when the record does not keep the
start/end of the input alignment, exit 0 (PASS) otherwise.
"""
import gzip
import os
import random
import shutil
import subprocess
import sys
import tempfile

import pysam

WORKTREE = os.path.dirname(os.path.dirname(os.path.abspath(__file__)))
CHROM = "chr1"
CHR_LEN = 12000


def cigar_of(blocks):
    cigar = []
    for k, (s, e) in enumerate(blocks):
        if k > 0:
            cigar.append((3, s - blocks[k - 1][1] - 1))
        cigar.append((0, e - s + 1))
    return cigar


def record(header, name, blocks, seq):
    a = pysam.AlignedSegment(header)
    a.query_name = name
    a.flag = 0
    a.reference_id = 0
    a.reference_start = blocks[0][0] - 1
    a.mapping_quality = 60
    a.cigartuples = cigar_of(blocks)
    a.query_sequence = "".join(seq[s - 1:e] for s, e in blocks)
    a.query_qualities = pysam.qualitystring_to_array("I" * len(a.query_sequence))
    return a


def write_bam(path, header, records):
    unsorted = path + ".unsorted.bam"
    with pysam.AlignmentFile(unsorted, "wb", header=header) as out:
        for r in records:
            out.write(r)
    pysam.sort("-o", path, unsorted)
    os.remove(unsorted)
    pysam.index(path)


def main():
    tmp = tempfile.mkdtemp(prefix="c14_side_")
    try:
        home = os.path.join(tmp, "home")
        os.makedirs(home)
        rnd = random.Random(141)
        seq = "".join(rnd.choice("ACGT") for _ in range(CHR_LEN))
        ref = os.path.join(tmp, "ref.fa")
        with open(ref, "w") as f:
            f.write(">%s\n" % CHROM)
            for i in range(0, len(seq), 60):
                f.write(seq[i:i + 60] + "\n")
        pysam.faidx(ref)
        header = pysam.AlignmentHeader.from_dict({"HD": {"VN": "1.0", "SO": "coordinate"},
                                                  "SQ": [{"SN": CHROM, "LN": CHR_LEN}]})
        s = 3000
        long_exons = [(s, s + 296), (s + 1300, s + 1315)]
        true_exons = [(s, s + 299), (s + 700, s + 729), (s + 1321, s + 1400)]
        shorts = []
        for j in range(4):
            blocks = [(true_exons[0][1] - 34 - j, true_exons[0][1]), true_exons[1],
                      (true_exons[2][0], true_exons[2][0] + 34 + j)]
            shorts.append(record(header, "short_%d" % j, blocks, seq))
        long_bam = os.path.join(tmp, "long.bam")
        short_bam = os.path.join(tmp, "short.bam")
        write_bam(long_bam, header, [record(header, "long_read", long_exons, seq)])
        write_bam(short_bam, header, shorts)

        out_dir = os.path.join(tmp, "out")
        env = dict(os.environ)
        env["HOME"] = home
        env["PYTHONDONTWRITEBYTECODE"] = "1"
        cmd = [sys.executable, os.path.join(WORKTREE, "isoquant.py"),
               "--reference", ref, "--bam", long_bam, "--illumina_bam", short_bam,
               "--data_type", "nanopore", "--prefix", "side", "--threads", "1", "-o", out_dir]
        res = subprocess.run(cmd, cwd=tmp, env=env, stdout=subprocess.PIPE, stderr=subprocess.STDOUT, text=True)
        if res.returncode != 0:
            print(res.stdout[-3000:])
            print("FAIL: isoquant.py exited with code %d" % res.returncode)
            return 1
        bed = os.path.join(out_dir, "side", "side.corrected_reads.bed")
        opener = open
        if not os.path.exists(bed):
            bed += ".gz"
            opener = gzip.open
        rec = None
        with opener(bed, "rt") as f:
            for line in f:
                v = line.rstrip("\n").split("\t")
                if not line.startswith("#") and len(v) >= 12 and v[3] == "long_read":
                    rec = v
        if rec is None:
            print("FAIL: long_read has no record in corrected_reads.bed")
            return 1
        print("input alignment  : %d-%d, exons %s" % (long_exons[0][0], long_exons[-1][1], long_exons))
        print("corrected record : %d-%d, blockSizes %s blockStarts %s" % (int(rec[1]) + 1, int(rec[2]), rec[10], rec[11]))
        if int(rec[1]) + 1 != long_exons[0][0] or int(rec[2]) != long_exons[-1][1]:
            print("FAIL: the corrected read does not keep the start/end of the input alignment "
                  "(no terminal exon correction exists on this path)")
            return 1
        print("PASS")
        return 0
    finally:
        shutil.rmtree(tmp, ignore_errors=True)


if __name__ == "__main__":
    sys.exit(main())
