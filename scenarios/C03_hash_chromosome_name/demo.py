#!/usr/bin/env python
"""
Side observation at baseline (property C03, "per-chromosome files merged"): src/file_utils.py merge_files()
counts the leading lines that start with '#' as header lines of a per-chromosome file and, with copy_header=False,
skips them.  The per-chromosome GTF files have no header, and their lines start with the chromosome name, so for a
chromosome whose name starts with '#' (legal in FASTA / SAM) every record is taken for a header line and dropped:
transcript_models.gtf comes out empty although models were constructed.

Check: the same reads on the same sequence are processed twice without annotation, once with the chromosome
called "c1" and once called "#1"; the models must be the same up to the chromosome name.  Exit 1 if they differ.
"""
import importlib.util
import os
import shutil
import subprocess
import sys
import tempfile

HERE = os.path.dirname(os.path.abspath(__file__))
spec = importlib.util.spec_from_file_location("seed_demo", os.path.join(HERE, "demo_base.py"))
demo = importlib.util.module_from_spec(spec)
spec.loader.exec_module(demo)


def run(chr_name):
    demo.CHR = chr_name
    tmp = tempfile.mkdtemp(prefix="seed_C03_side_")
    try:
        genome = demo.make_genome()
        fasta, _, bam = demo.write_inputs(tmp, genome)
        home = os.path.join(tmp, "home")
        os.makedirs(home)
        out_dir = os.path.join(tmp, "out")
        cmd = [sys.executable, os.path.join(demo.ROOT, "isoquant.py"), "--reference", fasta, "--bam", bam,
               "--data_type", "nanopore", "--polya_requirement", "never", "-o", out_dir, "--prefix", "side",
               "--threads", "1"]
        res = subprocess.run(cmd, cwd=tmp, env=dict(os.environ, HOME=home), stdout=subprocess.PIPE,
                             stderr=subprocess.STDOUT, text=True)
        if res.returncode != 0:
            print(res.stdout[-3000:])
            raise SystemExit("isoquant.py exited with %d for chromosome %r" % (res.returncode, chr_name))
        _, transcripts, exons = demo.parse_gtf(os.path.join(out_dir, "side", "side.transcript_models.gtf"))
        return sorted((rec[0][1:4], tuple(exons[t])) for t, rec in transcripts.items())
    finally:
        shutil.rmtree(tmp, ignore_errors=True)


plain = run("c1")
hashed = run("#1")
if not plain:
    raise SystemExit("setup problem: no models for the plain chromosome name")
if plain != hashed:
    print("FAIL:")
    print("models for chromosome 'c1': %d" % len(plain))
    print("models for chromosome '#1': %d%s" % (len(hashed), "" if not hashed or all(m in plain for m in hashed) else " (other models than for 'c1')"))
    sys.exit(1)
print("PASS: %d model(s) for both chromosome names" % len(plain))
