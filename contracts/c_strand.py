"""Contracts for canonical-site flags and strand rules (C18): src/assignment_io.py, src/common.py, src/gene_info.py."""
from pyvc.api import contract, spec, lemma, record, finite, bounded
from pyvc import native, front

IV = "tuple[int,int]"
IVS = "list[tuple[int,int]]"
CLASS_HOME = {"IOSupport": "src/assignment_io.py", "StrandDetector": "src/gene_info.py", "GeneInfo": "src/gene_info.py"}


@spec("str, int, tuple[int,int], str -> bool")
def canon(ref, start, intron, strand):
    # the dinucleotides at both ends of the intron, read (case-insensitively) from the reference window that starts at `start`,
    # form a canonical pair for the given strand (left site first): GT-AG, GC-AG, AT-AC and their reverse complements
    return ((ref[intron[0] - start:intron[0] - start + 2].upper(), ref[intron[1] - start - 1:intron[1] - start + 1].upper())
            in {("GT", "AG"), ("GC", "AG"), ("AT", "AC")}) if strand == '+' else \
        ((ref[intron[0] - start:intron[0] - start + 2].upper(), ref[intron[1] - start - 1:intron[1] - start + 1].upper())
         in {("CT", "AC"), ("CT", "GC"), ("GT", "AT")})


record("GeneInfoCanon", {"canonical_sites": "dict[tuple[tuple[int,int],str],bool]", "all_read_region_start": "int",
                         "reference_region": "str"})
record("IOSupport", {})
native.RECORD_CLASSES["GeneInfoCanon"] = ("src/gene_info.py", "GeneInfo")
native.RECORD_CLASSES["IOSupport"] = ("src/assignment_io.py", "IOSupport")


def _gen_canon(rng):
    ref = "".join(rng.choice(["GT", "AG", "CT", "AC", "GC", "AT", "NN", "gt"]) for _ in range(12))
    start = rng.randint(1, 5)
    def intron():
        a = rng.randrange(0, 10) * 2
        b = a + 3 + 2 * rng.randint(0, 4)
        return (a + start, min(b, len(ref) - 1) + start)
    introns = [intron() for _ in range(rng.randint(1, 3))]
    memo = {}
    # memo as earlier calls would have left it (possibly for the opposite strand)
    ios = native.real_callable("src/assignment_io.py:IOSupport")
    io = ios.__new__(ios)
    gi_cls = native.real_callable("src/gene_info.py:GeneInfo")
    gi = gi_cls.__new__(gi_cls)
    gi.canonical_sites = {}
    gi.all_read_region_start = start
    gi.reference_region = ref
    if rng.random() < 0.7:
        io.check_sites_are_canonical([rng.choice(introns)] if rng.random() < .5 else introns, gi, rng.choice("+-"))
    return {"self": {"__rec__": "IOSupport"},
            "read_introns": introns,
            "gene_info": {"__rec__": "GeneInfoCanon", "canonical_sites": dict(gi.canonical_sites),
                          "all_read_region_start": start, "reference_region": ref},
            "strand": rng.choice("+-")}


contract("src/assignment_io.py:IOSupport.check_sites_are_canonical",
         {"self": "rec:IOSupport", "read_introns": IVS, "gene_info": "rec:GeneInfoCanon", "strand": "str"},
         returns="bool", props=["C18"], modifies=["gene_info.canonical_sites"],
         requires=["strand == '+' or strand == '-'",
                   "all(gene_info.all_read_region_start <= i[0] and i[0] + 2 <= i[1] and "
                   "i[1] - gene_info.all_read_region_start < len(gene_info.reference_region) for i in read_introns)",
                   # memo invariant: whatever earlier calls (for either strand, in any order) have stored is the truth
                   "all(gene_info.canonical_sites[k] == canon(gene_info.reference_region, gene_info.all_read_region_start, k[0], k[1]) "
                   "    for k in gene_info.canonical_sites)"],
         ensures=[
             # pure function of the reference sequence, whatever was processed before
             "result == all(canon(gene_info.reference_region, gene_info.all_read_region_start, i, strand) for i in read_introns)",
             "all(gene_info.canonical_sites[k] == canon(gene_info.reference_region, gene_info.all_read_region_start, k[0], k[1]) "
             "    for k in gene_info.canonical_sites)"],
         loops={0: {"inv": [
             "all(canon(gene_info.reference_region, gene_info.all_read_region_start, read_introns[j], strand) for j in range(_k0))",
             "all(gene_info.canonical_sites[k] == canon(gene_info.reference_region, gene_info.all_read_region_start, k[0], k[1]) "
             "    for k in gene_info.canonical_sites)"]}},
         gen=lambda rng, n: (_gen_canon(rng) for _ in range(n)),
         canary="result == all(canon(gene_info.reference_region, gene_info.all_read_region_start, i, '+') for i in read_introns)")


# ---- StrandDetector (src/gene_info.py): strand of a novel model from its splice sites, polyA/T as tie-break ---------------
record("StrandDetector", {"strand_dict": "dict[tuple[int,int],str]", "chr_record": "str"})


@spec("str, int, tuple[int,int] -> str", opaque=True)
def istrand(ref, start, intron):
    # the strand the splice sites of one intron speak for, read from the sequence `ref` whose first base has coordinate `start`
    return '+' if canon(ref, start, intron, '+') else ('-' if canon(ref, start, intron, '-') else '.')


# the reference is a string here (a pyfaidx record is sliced and converted with str() in exactly the same way); which sequence and which
# offset the callers hand over is part of what is proved below
contract("src/common.py:get_intron_strand", {"intron": IV, "reference_region": "str", "ref_region_start": "int"},
         returns="str", props=["C18"],
         requires=["ref_region_start <= intron[0]", "intron[0] + 1 <= intron[1]", "intron[1] - ref_region_start < len(reference_region)"],
         ensures=["result == istrand(reference_region, ref_region_start, intron)"], reveal=["istrand"], native=False)

_IN_CHR = lambda v: "1 <= %s[0] and %s[0] + 1 <= %s[1] and %s[1] <= len(self.chr_record)" % (v, v, v, v)

contract("src/gene_info.py:StrandDetector.set_strand", {"self": "rec:StrandDetector", "intron": IV, "strand": "opt[str]"}, returns="none",
         props=["C18"], modifies=["self.strand_dict"], requires=[_IN_CHR("intron")],
         # an explicit (annotation) strand is stored as given; without one the strand is read from the CHROMOSOME sequence at the
         # intron's chromosome coordinates
         ensures=["all(k in self.strand_dict and (k == intron or self.strand_dict[k] == old(self.strand_dict)[k]) for k in old(self.strand_dict))",
                  "strand is None or len(strand) == 0 or self.strand_dict[intron] == strand",
                  "not (strand is None or len(strand) == 0) or len(self.chr_record) == 0 or self.strand_dict[intron] == istrand(self.chr_record, 1, intron)"],
         native=False)

@spec("dict[tuple[int,int],str], list[tuple[int,int]], int, str -> int")
def votes(sd, introns, n, s):
    # how many of the first n introns carry the strand s in the memo
    return 0 if n <= 0 else votes(sd, introns, n - 1, s) + (1 if sd[introns[n - 1]] == s else 0)


lemma("votes_frame", {"sd1": "dict[tuple[int,int],str]", "sd2": "dict[tuple[int,int],str]", "introns": IVS, "n": "int", "s": "str"}, props=["C18"],
      # a memo that only grew (old entries kept) gives the same votes on introns it already knew
      requires=["0 <= n <= len(introns)", "all(introns[j] in sd1 and introns[j] in sd2 and sd2[introns[j]] == sd1[introns[j]] for j in range(n))"],
      ensures=["votes(sd2, introns, n, s) == votes(sd1, introns, n, s)"], induct="n", base="0")


contract("src/gene_info.py:StrandDetector.count_canonical_sites", {"self": "rec:StrandDetector", "introns": IVS},
         returns="tuple[int,int]", props=["C18"], modifies=["self.strand_dict"],
         requires=["all(1 <= introns[j][0] and introns[j][0] + 1 <= introns[j][1] and introns[j][1] <= len(self.chr_record) for j in range(len(introns)))"],
         ensures=["all(k in self.strand_dict and self.strand_dict[k] == old(self.strand_dict)[k] for k in old(self.strand_dict))",
                  # an intron the memo did not know is given the strand its splice sites have in the chromosome sequence
                  "all(introns[j] in old(self.strand_dict) or self.strand_dict[introns[j]] == istrand(self.chr_record, 1, introns[j]) for j in range(len(introns)))",
                  "all(introns[j] in self.strand_dict for j in range(len(introns)))",
                  "result[0] >= 0 and result[1] >= 0 and result[0] + result[1] <= len(introns)",
                  "(result[0] > 0) == any(self.strand_dict[introns[j]] == '+' for j in range(len(introns)))",
                  "(result[1] > 0) == any(self.strand_dict[introns[j]] == '-' for j in range(len(introns)))",
                  # unanimous evidence is counted in full
                  "not all(self.strand_dict[introns[j]] == '+' for j in range(len(introns))) or result == (len(introns), 0)",
                  "not all(self.strand_dict[introns[j]] == '-' for j in range(len(introns))) or result == (0, len(introns))",
                  # the two counts are exactly the numbers of '+' and '-' introns (in the memo as it stands after the call)
                  "result[0] == votes(self.strand_dict, introns, len(introns), '+')",
                  "result[1] == votes(self.strand_dict, introns, len(introns), '-')"],
         loops={0: {"inv": [
             "count_fwd == votes(self.strand_dict, introns, _k0, '+')", "count_rev == votes(self.strand_dict, introns, _k0, '-')",
             "all(k in self.strand_dict and self.strand_dict[k] == old(self.strand_dict)[k] for k in old(self.strand_dict))",
             "all(introns[j] in self.strand_dict for j in range(_k0))",
             "all(introns[j] in old(self.strand_dict) or self.strand_dict[introns[j]] == istrand(self.chr_record, 1, introns[j]) for j in range(_k0))",
             # the memo holds nothing but what it held before and the introns seen so far
             "all(k in old(self.strand_dict) or any(k == introns[j] for j in range(_k0)) for k in self.strand_dict)",
             "count_fwd >= 0 and count_rev >= 0 and count_fwd + count_rev <= _k0",
             "(count_fwd > 0) == any(self.strand_dict[introns[j]] == '+' for j in range(_k0))",
             "(count_rev > 0) == any(self.strand_dict[introns[j]] == '-' for j in range(_k0))",
             "not all(self.strand_dict[introns[j]] == '+' for j in range(_k0)) or (count_fwd == _k0 and count_rev == 0)",
             "not all(self.strand_dict[introns[j]] == '-' for j in range(_k0)) or (count_rev == _k0 and count_fwd == 0)"],
             "locals": {"strand": "str"},
             "hints": ["votes_frame(_at_head_self.strand_dict, self.strand_dict, introns, _k0 - 1, '+')",
                       "votes_frame(_at_head_self.strand_dict, self.strand_dict, introns, _k0 - 1, '-')"]}},
         native=False)

contract("src/gene_info.py:StrandDetector.get_clean_strand", {"self": "rec:StrandDetector", "introns": IVS},
         returns="str", props=["C18", "C04"], modifies=["self.strand_dict"],
         requires=["all(1 <= introns[j][0] and introns[j][0] + 1 <= introns[j][1] and introns[j][1] <= len(self.chr_record) for j in range(len(introns)))"],
         # '+' / '-' only on unanimous splice-site evidence, '.' otherwise
         ensures=["(result == '+') == (any(self.strand_dict[introns[j]] == '+' for j in range(len(introns))) and "
                  "not any(self.strand_dict[introns[j]] == '-' for j in range(len(introns))))",
                  "(result == '-') == (any(self.strand_dict[introns[j]] == '-' for j in range(len(introns))) and "
                  "not any(self.strand_dict[introns[j]] == '+' for j in range(len(introns))))",
                  "result == '+' or result == '-' or result == '.'"],
         native=False)

contract("src/gene_info.py:StrandDetector.get_strand",
         {"self": "rec:StrandDetector", "introns": IVS, "has_polya": "bool", "has_polyt": "bool"},
         returns="str", props=["C18", "C04"], modifies=["self.strand_dict"],
         requires=["all(1 <= introns[j][0] and introns[j][0] + 1 <= introns[j][1] and introns[j][1] <= len(self.chr_record) for j in range(len(introns)))"],
         ensures=["result == '+' or result == '-' or result == '.'",
                  # never contradicts all available evidence: unanimous splice sites decide the strand ...
                  "not (len(introns) > 0 and all(self.strand_dict[introns[j]] == '+' for j in range(len(introns)))) or result == '+'",
                  "not (len(introns) > 0 and all(self.strand_dict[introns[j]] == '-' for j in range(len(introns)))) or result == '-'",
                  # ... a strand is only reported if some evidence supports it ...
                  "result != '+' or any(self.strand_dict[introns[j]] == '+' for j in range(len(introns))) or (has_polya and not has_polyt)",
                  "result != '-' or any(self.strand_dict[introns[j]] == '-' for j in range(len(introns))) or (has_polyt and not has_polya)",
                  # ... and when the splice sites are uninformative the polyA/polyT evidence decides
                  "any(self.strand_dict[introns[j]] == '+' or self.strand_dict[introns[j]] == '-' for j in range(len(introns))) "
                  "or result == ('+' if has_polya and not has_polyt else '-' if has_polyt and not has_polya else '.')",
                  # agrees with the splice sites: the majority decides; a tie (including no canonical site at all) is uninformative and
                  # leaves the decision to the polyA / polyT evidence, '.' without it
                  "result == ('+' if votes(self.strand_dict, introns, len(introns), '+') > votes(self.strand_dict, introns, len(introns), '-') else "
                  "'-' if votes(self.strand_dict, introns, len(introns), '-') > votes(self.strand_dict, introns, len(introns), '+') else "
                  "('+' if has_polya and not has_polyt else '-' if has_polyt and not has_polya else '.'))"],
         native=False)


@finite("C18.intron_strand_table", ["C18", "C11"], note="get_intron_strand / get_strand of src/common.py enumerated over every pair of "
        "site dinucleotides over {A,C,G,T,N,a,c,g,t}; the forward and reverse tables are reverse complements of each other")
def c18_table(tier, rng):
    com = native.repo_import("src/common.py")
    import itertools
    FWD = {("GT", "AG"), ("GC", "AG"), ("AT", "AC")}
    comp = {"A": "T", "C": "G", "G": "C", "T": "A"}
    rc = lambda s: "".join(comp[c] for c in reversed(s))
    obl = dis = 0
    viol = []
    # table lemma: REV == { (rc(right), rc(left)) for (left,right) in FWD }
    obl += 1
    if com.CANONICAL_REV_SITES == {(rc(r), rc(l)) for l, r in com.CANONICAL_FWD_SITES} and com.CANONICAL_FWD_SITES == FWD:
        dis += 1
    else:
        viol.append({"obligation": "C18.tables_are_reverse_complements", "inputs": None,
                     "observed": "FWD=%s REV=%s" % (com.CANONICAL_FWD_SITES, com.CANONICAL_REV_SITES), "required": "REV = revcomp(FWD)"})
    alpha = "ACGTNacgt"
    dinucs = ["".join(p) for p in itertools.product(alpha, repeat=2)]
    for l in dinucs:
        for r in dinucs:
            obl += 1
            seq = "NN" + l + "NNNN" + r + "NN"
            intron = (10 + 2, 10 + 2 + 2 + 4 + 2 - 1)  # 1-based-in-window coordinates with ref_region_start = 10
            got = com.get_intron_strand(intron, seq, 10)
            L, R = l.upper(), r.upper()
            f = (L, R) in FWD
            v = (L, R) in {(rc(b), rc(a)) for a, b in FWD}
            want = '.' if f == v else ('+' if f else '-')
            if got == want:
                dis += 1
            elif len(viol) < 3:
                viol.append({"obligation": "C18.get_intron_strand.%s_%s" % (l, r), "inputs": {"left": l, "right": r},
                             "observed": got, "required": want})
    return {"obligations": obl, "discharged": dis, "violations": viol, "cases": obl, "exhaustive": True,
            "bound": "all 81x81 site dinucleotide pairs", "samples": [{"left": "GT", "right": "AG", "strand": "+"}]}


@finite("C18.strand_vote", ["C18", "C04"], note="the real StrandDetector.get_strand / get_clean_strand on every assignment of '+', '-', '.' "
        "to <= 5 introns (memo preset through set_strand) x the four polyA/polyT flag pairs: majority of the canonical sites decides, a tie "
        "(or no canonical site) leaves the decision to the tails and gives '.' without them; get_clean_strand needs unanimity")
def c18_vote(tier, rng):
    import itertools
    gi = native.repo_import("src/gene_info.py")
    obl = dis = 0
    viol = []
    for n in range(0, 6):
        introns = [(100 * k + 10, 100 * k + 60) for k in range(n)]
        for strands in itertools.product("+-.", repeat=n):
            for pa in (False, True):
                for pt in (False, True):
                    obl += 1
                    d = gi.StrandDetector(None)
                    for i, s_ in zip(introns, strands):
                        d.set_strand(i, s_)
                    got = d.get_strand(list(introns), pa, pt)
                    clean = d.get_clean_strand(list(introns))
                    f, r = strands.count("+"), strands.count("-")
                    want = "+" if f > r else "-" if r > f else ("+" if pa and not pt else "-" if pt and not pa else ".")
                    want_clean = "+" if f > 0 and r == 0 else "-" if r > 0 and f == 0 else "."
                    if got == want and clean == want_clean:
                        dis += 1
                    elif len(viol) < 3:
                        viol.append({"obligation": "C18.strand_vote.%s.%s%s" % ("".join(strands).replace("+", "p").replace("-", "m").replace(".", "n") or "none",
                                                                                   "A" if pa else "", "T" if pt else ""),
                                     "inputs": {"intron_strands": list(strands), "has_polya": pa, "has_polyt": pt},
                                     "observed": {"get_strand": got, "get_clean_strand": clean}, "required": {"get_strand": want, "get_clean_strand": want_clean}})
    return {"obligations": obl, "discharged": dis, "violations": viol, "cases": obl, "exhaustive": True,
            "bound": "all strand assignments of <= 5 introns x 4 tail flag pairs", "samples": [{"intron_strands": ["+", "-"], "has_polya": True, "want": "+"}]}


@finite("C18.annotated_intron_strands", ["C18", "C04"], note="the real GraphBasedModelConstructor.set_gene_properties on every annotation of one "
        "intron by 1-3 isoforms with strands from {+,-} x 3 reference contexts (GT..AG, CT..AC, non-canonical): an intron annotated on one "
        "strand only takes that strand, an intron annotated on both strands is decided by the reference dinucleotides - never by how many "
        "isoforms or which of them comes first")
def c18_annotated(tier, rng):
    import itertools, types
    from collections import defaultdict
    gm = native.repo_import("src/graph_based_model_construction.py")
    gi = native.repo_import("src/gene_info.py")
    obl = dis = 0
    viol = []
    contexts = {"+": ("GT", "AG"), "-": ("CT", "AC"), ".": ("AA", "TT")}
    intron = (11, 40)
    for ref_strand, (l, r) in contexts.items():
        seq = "N" * 10 + l + "N" * 26 + r + "N" * 10          # 1-based positions 11..40 hold the intron
        for n in (1, 2, 3):
            for strands in itertools.product("+-", repeat=n):
                obl += 1
                g = types.SimpleNamespace(all_isoforms_introns={"t%d" % k: [intron] for k in range(n)},
                                          isoform_strands={"t%d" % k: s_ for k, s_ in enumerate(strands)},
                                          gene_id_map={"t%d" % k: "g%s" % ("P" if s_ == "+" else "M") for k, s_ in enumerate(strands)})
                c = gm.GraphBasedModelConstructor.__new__(gm.GraphBasedModelConstructor)
                c.gene_info, c.chr_record = g, seq
                c.strand_detector = gi.StrandDetector(seq)
                c.intron_genes = defaultdict(set)
                try:
                    c.set_gene_properties()
                    got = c.strand_detector.strand_dict.get(intron)
                except Exception as e:
                    got = "%s: %s" % (type(e).__name__, e)
                want = strands[0] if len(set(strands)) == 1 else ref_strand
                if got == want:
                    dis += 1
                elif len(viol) < 3:
                    viol.append({"obligation": "C18.annotated_intron_strands.%s.%s" % ({"+": "fwd", "-": "rev", ".": "none"}[ref_strand], "".join(strands).replace("+", "p").replace("-", "m")),
                                 "inputs": {"isoform_strands": list(strands), "reference_sites": [l, r]}, "observed": got, "required": want})
    return {"obligations": obl, "discharged": dis, "violations": viol, "cases": obl, "exhaustive": True,
            "bound": "1-3 isoforms x strands x 3 reference contexts", "samples": [{"isoform_strands": ["+", "-", "-"], "reference_sites": ["GT", "AG"], "want": "+"}]}


@finite("C18.canonical_flag_table", ["C18"], note="the real IOSupport.check_sites_are_canonical on every pair of site dinucleotides over "
        "{A,C,G,T,N,a,c,g,t} x both strands: True exactly when the pair, read case-insensitively (a soft-masked reference holds the same "
        "bases in lower case), is a canonical pair of that strand")
def c18_flag_table(tier, rng):
    import itertools, types
    aio = native.repo_import("src/assignment_io.py")
    io_ = aio.IOSupport.__new__(aio.IOSupport)
    FWD = {("GT", "AG"), ("GC", "AG"), ("AT", "AC")}
    comp = {"A": "T", "C": "G", "G": "C", "T": "A"}
    REV = {("".join(comp[c] for c in reversed(r)), "".join(comp[c] for c in reversed(l))) for l, r in FWD}
    dinucs = ["".join(p) for p in itertools.product("ACGTNacgt", repeat=2)]
    obl = dis = 0
    viol = []
    for strand, table in (("+", FWD), ("-", REV)):
        for l in dinucs:
            for r in dinucs:
                obl += 1
                g = types.SimpleNamespace(reference_region="NN" + l + "NNNN" + r + "NN", all_read_region_start=10, canonical_sites={})
                got = io_.check_sites_are_canonical([(12, 19)], g, strand)
                want = (l.upper(), r.upper()) in table
                if got == want:
                    dis += 1
                elif len(viol) < 3:
                    viol.append({"obligation": "C18.canonical_flag_table.%s.%s_%s" % ("fwd" if strand == "+" else "rev", l, r),
                                 "inputs": {"left": l, "right": r, "strand": strand}, "observed": got, "required": want})
    return {"obligations": obl, "discharged": dis, "violations": viol, "cases": obl, "exhaustive": True,
            "bound": "81 x 81 dinucleotide pairs x 2 strands", "samples": [{"left": "gt", "right": "ag", "strand": "+", "want": True}]}


def _isolation_case(seed):
    import random
    rng = random.Random(seed)
    gi = native.repo_import("src/gene_info.py")
    com = native.repo_import("src/common.py")
    aio = native.repo_import("src/assignment_io.py")
    def seq():
        return "".join(rng.choice(["GT", "AG", "CT", "AC", "GC", "AT", "NN"]) for _ in range(15))
    problems = []
    introns = [(2 * rng.randint(0, 5) + 1, 2 * rng.randint(7, 13)) for _ in range(rng.randint(1, 3))]
    s1, s2 = seq(), seq()
    d1 = gi.StrandDetector(s1)
    for i in introns:
        d1.set_strand(i) if rng.random() < .5 else d1.get_strand([i])
        if rng.random() < .3:
            d1.set_strand(i, rng.choice("+-"))        # strand taken from the annotation of the first chromosome
    d2 = gi.StrandDetector(s2)                          # a new chromosome / locus: must not see anything of the first
    for i in introns:
        want = com.get_intron_strand(i, s2)
        got_clean = d2.get_clean_strand([i])
        if got_clean != (want if want in "+-" else "."):
            problems.append("fresh detector on a new sequence answers %s for intron %s, its own sequence says %s" % (got_clean, i, want))
    # canonical flag on a fresh gene_info must not depend on earlier gene_infos either
    io = aio.IOSupport.__new__(aio.IOSupport)
    for s in (s1, s2):
        g = gi.GeneInfo.from_region("chr", 1, len(s))
        g.all_read_region_start, g.reference_region = 1, s
        for i in introns:
            for strand in "+-":
                tbl = com.CANONICAL_FWD_SITES if strand == "+" else com.CANONICAL_REV_SITES
                want = (s[i[0] - 1:i[0] + 1], s[i[1] - 2:i[1]]) in tbl
                if io.check_sites_are_canonical([i], g, strand) != want:
                    problems.append("canonical flag of %s on %s differs from the sequence" % (i, strand))
    return problems


def replay_isolation(d):
    p = _isolation_case(d["inputs"]["seed"])
    return (not p), "seed %s: %s" % (d["inputs"]["seed"], p or "isolated")


@bounded("C18.history_isolation", ["C18", "C10"], shards=4, note="a StrandDetector / GeneInfo created for a second chromosome after a first one was "
         "processed (same intron coordinates, different sequence, annotation strands set on the first) must answer from its own "
         "sequence only; bound: N random sequence pairs")
def c18_isolation(tier, rng):
    n = 300 if tier == "quick" else 20000
    base = rng.randrange(10 ** 9)
    for k in range(n):
        p = _isolation_case(base + k)
        if p:
            return {"cases": k + 1, "bound": "%d pairs" % n, "violations": [{
                "obligation": "C18.history_isolation", "inputs": {"seed": base + k}, "observed": p[:3],
                "required": "answers depend on the record's own reference sequence only",
                "replay_call": "contracts.c_strand:replay_isolation"}]}
    return {"cases": n, "bound": "%d random sequence pairs" % n, "violations": [], "samples": [{"seed": base}]}


# ---- Canonical flags and model strands recounted from the bundled FASTA on generated loci (pipeline runs) -------------------------------------
_FWD = {("GT", "AG"), ("GC", "AG"), ("AT", "AC")}
_REV = {("CT", "AC"), ("CT", "GC"), ("GT", "AT")}


def _snapped_loci_prepare(seed):
    """loci as in C04.random_loci, but every splice site of about half of the loci is moved to the nearest canonical dinucleotide of the locus
    strand in the bundled reference (GT..AG on '+', CT..AC on '-'), so both values of the flag occur"""
    from contracts import c_novel
    import random

    def prepare(d):
        import gzip, os
        seq = "".join(l.strip() for l in gzip.open(os.path.join(d, "chr9.4M.fa.gz"), "rt") if not l.startswith(">")).upper()
        rng = random.Random(seed + 7)
        orig = c_novel._random_loci

        def snapped(s):
            loci = orig(s)
            for L in loci:
                if rng.random() < .5:
                    continue
                left, right = ("GT", "AG") if L["strand"] == "+" else ("CT", "AC")
                full = L["isoforms"]["full"]
                m = {}
                for i in range(len(full) - 1):
                    a = seq.find(left, full[i][1], full[i][1] + 60)          # intron starts at 1-based a+1: exon ends at a
                    b = seq.rfind(right, full[i + 1][0] - 60, full[i + 1][0] - 1)   # intron ends at 1-based b+2: next exon starts at b+3
                    if a > 0 and b > 0:
                        m[("e", full[i][1])] = a
                        m[("s", full[i + 1][0])] = b + 3
                def mv(ex):
                    return [(m.get(("s", x), x), m.get(("e", y), y)) for x, y in ex]
                L["isoforms"] = {k: mv(v) for k, v in L["isoforms"].items()}
                L["reads"] = [(kind, mv(chain), cnt) for kind, chain, cnt in L["reads"]]
                L["snapped"] = True
            return loci
        c_novel._random_loci = snapped
        try:
            return c_novel._random_loci_prepare(seed)(d)
        finally:
            c_novel._random_loci = orig
    return prepare


def _canon_recount(seq, introns, strand):
    if not introns:
        return "Unspliced"
    table = _FWD if strand == "+" else _REV
    return str(all((seq[a - 1:a + 1], seq[b - 2:b]) in table for a, b in introns))


def _canonical_pipeline_problems(seed, annotated):
    import gzip, os, shutil
    from contracts import c_novel
    d, p = c_novel._run_pipeline(["--check_canonical"], annotated, _snapped_loci_prepare(seed))
    problems, stats = [], {"True": 0, "False": 0, "Unspliced": 0, "models": 0}
    try:
        if p.returncode != 0:
            return ["isoquant exited %d: %s" % (p.returncode, p.stderr[-300:])], stats
        seq = "".join(l.strip() for l in gzip.open(os.path.join(d, "chr9.4M.fa.gz"), "rt") if not l.startswith(">")).upper()
        out = os.path.join(d, "out", "S")
        ra = os.path.join(out, "S.read_assignments.tsv.gz")
        if annotated and os.path.exists(ra):
            for line in gzip.open(ra, "rt"):
                if line.startswith("#"):
                    continue
                f = line.rstrip("\n").split("\t")
                info = dict(kv.strip().split("=", 1) for kv in f[8].strip().strip(";").split(";") if "=" in kv)
                if "Canonical" not in info:
                    continue
                ex = [tuple(int(x) for x in e.split("-")) for e in f[7].split(",")]
                introns = [(ex[i][1] + 1, ex[i + 1][0] - 1) for i in range(len(ex) - 1)]
                want = _canon_recount(seq, introns, f[2])
                stats[want] = stats.get(want, 0) + 1
                if info["Canonical"].strip() != want and f[2] in "+-":
                    problems.append("read %s strand %s exons %s: Canonical=%s, recount from the FASTA gives %s" % (f[0], f[2], f[7], info["Canonical"], want))
        for line in open(os.path.join(out, "S.transcript_models.gtf")):
            if line.startswith("#"):
                continue
            f = line.rstrip("\n").split("\t")
            if f[2] != "transcript":
                continue
            attrs = dict((kv.strip().split(" ", 1)[0], kv.strip().split(" ", 1)[1].strip('"')) for kv in f[8].split(";") if " " in kv.strip())
            tid = attrs["transcript_id"]
            models = c_novel._parse_gtf(os.path.join(out, "S.transcript_models.gtf")) if "models" not in locals() else models
            t = models[tid]
            if "Canonical" in attrs and t["strand"] in "+-":
                want = _canon_recount(seq, list(t["introns"]), t["strand"])
                stats["models"] += 1
                if attrs["Canonical"] != want:
                    problems.append("model %s strand %s introns %s: Canonical %s, recount gives %s" % (tid, t["strand"], t["introns"], attrs["Canonical"], want))
            # strand of a novel spliced model against the evidence: all reads of the generated locus carry the tail of the locus strand; the
            # splice sites speak for the strand on which all of them are canonical (if any)
            if tid.startswith("transcript") and t["introns"]:
                # the splice sites vote intron by intron (StrandDetector: majority of canonical sites); a tie leaves the decision to the tails
                fwd = sum(1 for a, b in t["introns"] if (seq[a - 1:a + 1], seq[b - 2:b]) in _FWD)
                rev = sum(1 for a, b in t["introns"] if (seq[a - 1:a + 1], seq[b - 2:b]) in _REV)
                li = (t["exons"][0][0] - 3041000) // 9000
                loci = c_novel._random_loci(seed)
                if 0 <= li < len(loci):
                    tail = loci[li]["strand"]
                    want = "+" if fwd > rev else "-" if rev > fwd else tail
                    # with an annotation, annotated introns carry the strand of their gene (the locus strand, = tail here): the sentence that
                    # is then decidable from outside is the last one - the reported strand does not contradict ALL the evidence
                    if (t["strand"] != want) if not annotated else (t["strand"] not in (want, tail)):
                        problems.append("novel model %s is reported on strand %s; canonical splice sites: %d on '+', %d on '-', tails of all its reads: %s" % (
                            tid, t["strand"], fwd, rev, tail))
    finally:
        shutil.rmtree(d, ignore_errors=True)
    return problems, stats


def replay_canonical_pipeline(d):
    p, stats = _canonical_pipeline_problems(d["inputs"]["seed"], d["inputs"]["with_annotation"])
    return (not p), "seed %s, with_annotation=%s: %s (%s)" % (d["inputs"]["seed"], d["inputs"]["with_annotation"], p[:4] or "flags and strands agree with the FASTA", stats)


@bounded("C18.random_loci", ["C18"], shards=8, note="pipeline runs with --check_canonical on generated loci (as C04.random_loci; the splice sites of about half "
         "of the loci moved to canonical dinucleotides of the locus strand in the bundled reference): the Canonical flag of every read and "
         "the Canonical attribute of every model equal a recount from the FASTA on the reported strand; a novel spliced model is reported on the strand the majority "
         "of its canonical splice sites vote for, on the strand of its reads' tails when they tie")
def c18_random_loci(tier, rng):
    n = 2 if tier == "quick" else 10
    base = rng.randrange(10 ** 9)
    viol, total = [], {}
    cases = 0
    for k in range(n):
        for wa in (True, False):
            if tier == "quick" and wa != (k % 2 == 0):
                continue
            cases += 1
            p, stats = _canonical_pipeline_problems(base + k, wa)
            for a, b in stats.items():
                total[a] = total.get(a, 0) + b
            if p:
                viol.append({"obligation": "C18.random_loci.%s" % ("annotated" if wa else "annotation_free"),
                             "inputs": {"seed": base + k, "with_annotation": wa}, "observed": p[:5],
                             "required": "flags and strands are functions of the reference sequence", "replay_call": "contracts.c_strand:replay_canonical_pipeline"})
                break
        if viol:
            break
    if not viol and tier != "quick" and (total.get("True", 0) == 0 or total.get("False", 0) == 0):
        viol.append({"obligation": "C18.random_loci.nontrivial", "inputs": None, "observed": str(total), "required": "both flag values occur", "undecided": True})
    return {"cases": cases, "bound": "%d pipeline runs x 6 generated loci (read flags %s)" % (cases, total), "violations": viol, "samples": [{"seed": base, "flags": total}]}


# ---- what the StrandDetector proofs assume about their object: chr_record is the CHROMOSOME, coordinates are chromosome coordinates ---------------
@finite("C18.detector_wiring", ["C18"], note="every construction of a StrandDetector in the sources hands it the chromosome record (the proved contracts "
        "read splice sites from self.chr_record at chromosome coordinates, first base = 1); read from the AST of all files under src/")
def c18_detector_wiring(tier, rng):
    import ast, glob, os
    obl = dis = 0
    viol = []
    for path in sorted(glob.glob(os.path.join(front.REPO, "src", "*.py")) + [os.path.join(front.REPO, "isoquant.py")]):
        try:
            tree = ast.parse(open(path).read())
        except SyntaxError:
            continue
        for n in ast.walk(tree):
            if isinstance(n, ast.Call) and isinstance(n.func, ast.Name) and n.func.id == "StrandDetector":
                obl += 1
                args = [ast.unparse(a) for a in n.args] + ["%s=%s" % (k.arg, ast.unparse(k.value)) for k in n.keywords]
                if args in (["self.chr_record"], ["chr_record"], ["current_chr_record"]):
                    dis += 1
                else:
                    viol.append({"obligation": "C18.detector_wiring.%s.%d" % (os.path.basename(path), n.lineno), "inputs": None,
                                 "observed": "StrandDetector(%s)" % ", ".join(args), "required": "StrandDetector(<the chromosome record>)",
                                 "undecided": not any("region" in a or "window" in a for a in args)})
    if obl == 0:
        viol.append({"obligation": "C18.detector_wiring.none", "inputs": None, "observed": "no construction found", "required": "some", "undecided": True})
    return {"obligations": obl, "discharged": dis, "violations": viol, "cases": obl, "exhaustive": True, "bound": "all StrandDetector(...) calls in the sources",
            "samples": [{"call": "StrandDetector(self.chr_record)"}]}


# ---- the reference window of a region covers every read assigned in it (what check_sites_are_canonical requires of its caller) --------------------
def _window_extract(fdef):
    """process_alignments_in_region: the block that extends the reference window over the reads of the region (`if self.params.needs_reference
    and assignment_storage: ...`), as a function of (self, gene_info, assignment_storage); drops the construction of gene_info and the two
    calls that assign the reads"""
    import ast, copy
    blk = next((n for n in fdef.body if isinstance(n, ast.If) and "needs_reference" in ast.unparse(n.test)), None)
    if blk is None:
        raise front.Missing("window extension block not found in process_alignments_in_region")
    args = ast.arguments(posonlyargs=[], args=[ast.arg(arg=a) for a in ("self", "gene_info", "assignment_storage")], kwonlyargs=[], kw_defaults=[], defaults=[])
    return ast.fix_missing_locations(ast.FunctionDef(name="process_alignments_in_region", args=args, body=[copy.deepcopy(blk)], decorator_list=[],
                                                     lineno=fdef.lineno, col_offset=0))


record("WinParams", {"needs_reference": "bool"})
record("WinCollector", {"params": "rec:WinParams", "chr_record": "str"})
record("WinGeneInfo", {"all_read_region_start": "int", "all_read_region_end": "int", "reference_region": "str",
                       "canonical_sites": "dict[tuple[tuple[int,int],str],bool]"})
record("WinAssignment", {"exons": IVS})

contract("src/gene_info.py:GeneInfo.set_reference_sequence", {"self": "rec:WinGeneInfo", "start": "int", "end": "int", "chr_record": "str"},
         returns="none", props=["C18"], native=False,
         modifies=["self.all_read_region_start", "self.all_read_region_end", "self.reference_region", "self.canonical_sites"],
         requires=["end >= 1"],
         # 1-based window [max(1, start), end]; the memo of canonical sites belongs to the old window and is dropped
         ensures=["self.all_read_region_start == max(1, start)", "self.all_read_region_end == end", "len(self.canonical_sites) == 0"])

contract("src/alignment_processor.py:AlignmentCollector.process_alignments_in_region#window",
         {"self": "rec:WinCollector", "gene_info": "rec:WinGeneInfo", "assignment_storage": "list[rec:WinAssignment]"},
         returns="none", props=["C18"], extract=_window_extract, native=False,
         bind={"WinGeneInfo.set_reference_sequence": "src/gene_info.py:GeneInfo.set_reference_sequence"},
         modifies=["gene_info.all_read_region_start", "gene_info.all_read_region_end", "gene_info.reference_region", "gene_info.canonical_sites"],
         requires=["all(len(assignment_storage[i].exons) >= 1 and assignment_storage[i].exons[0][0] >= 1 and "
                   "assignment_storage[i].exons[len(assignment_storage[i].exons) - 1][1] >= 1 for i in range(len(assignment_storage)))",
                   "gene_info.all_read_region_start >= 1 and gene_info.all_read_region_end >= 1"],
         # with a reference, every read assigned in the region lies inside the window whose sequence is loaded (first exon start to last
         # exon end), whatever order the reads come in; the window never shrinks
         ensures=["not self.params.needs_reference or all(gene_info.all_read_region_start <= assignment_storage[i].exons[0][0] and "
                  "assignment_storage[i].exons[len(assignment_storage[i].exons) - 1][1] <= gene_info.all_read_region_end "
                  "for i in range(len(assignment_storage)))",
                  "gene_info.all_read_region_start <= old(gene_info.all_read_region_start) and gene_info.all_read_region_end >= old(gene_info.all_read_region_end)"])


# ---- second pass: every region read back from the intermediate file gets the reference window of ITS OWN span -------------------------------------------
def _loader_window_problems(seed):
    """2-4 gene-info records (genes G1 / G2 of an in-memory annotation, consecutive records often with the same gene list but other read
    spans) written with the real TmpFileAssignmentPrinter and read back with the real NormalTmpFileAssignmentLoader over a random
    sequence: each loaded record has its own span (first base clamped to 1) and reference_region is exactly that slice of the sequence"""
    import os, random, shutil, tempfile, types
    import gffutils
    io_ = native.repo_import("src/assignment_io.py")
    gi_mod = native.repo_import("src/gene_info.py")
    rng = random.Random(seed)
    gtf = []
    for g, t, ex in (("G1", "T1", [(1001, 1200), (1501, 1700), (2501, 2800)]), ("G2", "T3", [(5001, 5400), (5601, 5900)])):
        gtf.append('chrA\tsyn\tgene\t%d\t%d\t.\t+\t.\tgene_id "%s";' % (ex[0][0], ex[-1][1], g))
        gtf.append('chrA\tsyn\ttranscript\t%d\t%d\t.\t+\t.\tgene_id "%s"; transcript_id "%s";' % (ex[0][0], ex[-1][1], g, t))
        for a, b in ex:
            gtf.append('chrA\tsyn\texon\t%d\t%d\t.\t+\t.\tgene_id "%s"; transcript_id "%s";' % (a, b, g, t))
    db = gffutils.create_db("\n".join(gtf) + "\n", ":memory:", from_string=True, merge_strategy="error", disable_infer_genes=True,
                            disable_infer_transcripts=True, keep_order=True)
    seq = "".join(rng.choice("ACGT") for _ in range(8000))
    base = os.path.join(os.path.dirname(os.path.dirname(os.path.abspath(__file__))), ".run")
    os.makedirs(base, exist_ok=True)
    d = tempfile.mkdtemp(prefix="ldw", dir=base)
    problems = []
    try:
        spans = []
        pr = io_.TmpFileAssignmentPrinter(os.path.join(d, "t.save"), types.SimpleNamespace())
        gene = rng.choice(["G1", "G2"])
        for _ in range(rng.randint(2, 4)):
            if rng.random() < .3:
                gene = rng.choice(["G1", "G2"])
            g = gi_mod.GeneInfo([db[gene]], db, 0)
            s_, e_ = g.start - rng.choice([0, 0, 20, 50, 400, 1000, 1001]), g.end + rng.choice([0, 0, 20, 50, 400])
            g.all_read_region_start, g.all_read_region_end = max(0, s_), e_
            pr.add_gene_info(g)
            spans.append((gene, max(0, s_), e_))
        del pr
        ld = io_.NormalTmpFileAssignmentLoader(os.path.join(d, "t.save"), db, seq)
        k = 0
        while ld.has_next():
            o = ld.get_object()
            if o is None:
                break
            gene, s_, e_ = spans[k]
            s1 = max(1, s_)
            if (o.all_read_region_start, o.all_read_region_end) != (s1, e_):
                problems.append("record %d (%s, span %d-%d of %s): loaded with window %d-%d" % (k, gene, s_, e_, spans, o.all_read_region_start, o.all_read_region_end))
            elif o.reference_region != seq[s1 - 1:e_]:
                problems.append("record %d (%s, span %d-%d of %s): reference_region is not the sequence of its own window (length %d for a window of %d)"
                                % (k, gene, s_, e_, spans, len(o.reference_region), e_ - s1 + 1))
            k += 1
        if k != len(spans):
            problems.append("%d of %d records read back" % (k, len(spans)))
        del ld
    finally:
        shutil.rmtree(d, ignore_errors=True)
    return problems


def replay_loader_windows(d):
    p = _loader_window_problems(d["inputs"]["seed"])
    return (not p), "seed %s: %s" % (d["inputs"]["seed"], p[:2] or "every record has the sequence of its own window")


@bounded("C18.loader_windows", ["C18", "C15"], note="the real TmpFileAssignmentPrinter / NormalTmpFileAssignmentLoader on 2-4 gene-info records, consecutive ones "
         "often with the same gene list and different read spans (reads before the gene start, up to the first base of the sequence): every "
         "record read back carries its own span and the reference sequence of exactly that window - what the Canonical flags of the second pass are read from")
def c18_loader_windows(tier, rng):
    n = 40 if tier == "quick" else 1500
    base = rng.randrange(10 ** 9)
    for k in range(n):
        try:
            p = _loader_window_problems(base + k)
        except Exception as e:
            p = ["exception %s: %s" % (type(e).__name__, e)]
        if p:
            return {"cases": k + 1, "bound": "%d files" % n, "violations": [{
                "obligation": "C18.loader_windows", "inputs": {"seed": base + k}, "observed": p[:2],
                "required": "each region read back has the reference window of its own span", "replay_call": "contracts.c_strand:replay_loader_windows"}]}
    return {"cases": n, "bound": "%d random intermediate files" % n, "violations": [], "samples": [{"seed": base}]}


# ---- the extended annotation: every reference transcript lies inside the reference window its Canonical attribute is read from -------------------------
@finite("C18.extended_storage_window", ["C18"], note="the real create_extended_storage over in-memory gffutils annotations in which the gene listed last does not "
        "end last (a short gene nested in a long one) and the gene listed first does not start first, on random sequences: for every reference "
        "transcript of the sequence the Canonical value computed through the returned gene info (check_sites_are_canonical) equals the recount from the sequence")
def c18_extended_storage_window(tier, rng):
    import random
    import gffutils
    tp = native.repo_import("src/transcript_printer.py")
    io_ = native.repo_import("src/assignment_io.py")
    com = native.repo_import("src/common.py")
    obl = dis = 0
    viol = []
    layouts = {
        "nested_last": [("A", "+", [(301, 500), (901, 1100), (3001, 3300)]), ("B", "-", [(1501, 1600), (1901, 2000)])],
        "first_starts_later": [("B", "-", [(1501, 1600), (1901, 2000)]), ("A", "+", [(301, 500), (901, 1100), (3001, 3300)])],
        "single": [("A", "+", [(301, 500), (901, 1100), (3001, 3300)])],
    }
    for lname, genes in layouts.items():
        gtf = []
        for g, strand, ex in genes:
            gtf.append('chrA\tsyn\tgene\t%d\t%d\t.\t%s\t.\tgene_id "%s";' % (ex[0][0], ex[-1][1], strand, g))
            gtf.append('chrA\tsyn\ttranscript\t%d\t%d\t.\t%s\t.\tgene_id "%s"; transcript_id "%s.t";' % (ex[0][0], ex[-1][1], strand, g, g))
            for a, b in ex:
                gtf.append('chrA\tsyn\texon\t%d\t%d\t.\t%s\t.\tgene_id "%s"; transcript_id "%s.t";' % (a, b, strand, g, g))
        db = gffutils.create_db("\n".join(gtf) + "\n", ":memory:", from_string=True, merge_strategy="error", disable_infer_genes=True,
                                disable_infer_transcripts=True, keep_order=True)
        for sd in range(3):
            r = random.Random(sd)
            seq = [r.choice("ACGT") for _ in range(4000)]
            for g, strand, ex in genes:
                for i in range(len(ex) - 1):
                    l, rr = ex[i][1] + 1, ex[i + 1][0] - 1
                    # sequence 0: every intron canonical on its strand; 1: all but the first of each transcript; 2: none
                    site = (("GT", "AG") if strand == "+" else ("CT", "AC")) if (sd == 0 or (sd == 1 and i > 0)) else ("AA", "TT")
                    seq[l - 1:l + 1] = site[0]
                    seq[rr - 2:rr] = site[1]
            seq = "".join(seq)
            models, gene_info = tp.create_extended_storage(db, "chrA", seq, [])
            ios = io_.IOSupport(type("P", (), {"check_canonical": True})())
            for m in models:
                obl += 1
                introns = [(m.exon_blocks[i][1] + 1, m.exon_blocks[i + 1][0] - 1) for i in range(len(m.exon_blocks) - 1)]
                table = com.CANONICAL_FWD_SITES if m.strand == "+" else com.CANONICAL_REV_SITES
                want = all((seq[a - 1:a + 1], seq[b - 2:b]) in table for a, b in introns)
                try:
                    got = ios.check_sites_are_canonical(introns, gene_info, m.strand)
                except Exception as e:
                    got = "%s: %s" % (type(e).__name__, e)
                if got == want:
                    dis += 1
                elif len(viol) < 3:
                    viol.append({"obligation": "C18.extended_storage_window.%s.%s.%d" % (lname, m.transcript_id, sd),
                                 "inputs": {"layout": lname, "transcript": m.transcript_id, "sequence_seed": sd},
                                 "observed": "%s (reference window %s-%s)" % (got, getattr(gene_info, "all_read_region_start", None), getattr(gene_info, "all_read_region_end", None)),
                                 "required": want})
    return {"obligations": obl, "discharged": dis, "violations": viol, "cases": obl, "exhaustive": True,
            "bound": "3 gene layouts x 3 sequences x reference transcripts", "samples": [{"layout": "nested_last"}]}
