import sys
sys.path.insert(0, '/verif')
from pyvc import run
run.load_contracts()
from contracts import c_assign
from collections import Counter
c = Counter(); bad = []
for s in range(int(sys.argv[1]), int(sys.argv[1]) + int(sys.argv[2])):
    try:
        d, p = c_assign._assign_case(s)
    except Exception as e:
        d, p = {"kind": "exc"}, [repr(e)]
    if d is None: continue
    c[(d["kind"], d.get("type"), d.get("n_isoforms") == 1)] += 1
    if p: bad.append((s, d, p))
for k in sorted(c): print(k, c[k])
print(len(bad), bad[:3])
