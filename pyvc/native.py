"""Native side: evaluates the same contract text with CPython against the real function from /repo.
Used for (a) replaying solver counterexamples, (b) small-scope / random search when the solver gives no usable
model, (c) the bounded stand-ins, (d) the encoder cross-check."""
import ast
import copy
import importlib
import itertools
import os
import random
import sys

from . import api, front
from . import ty as T

REPO = front.REPO


def repo_import(rel):
    if rel.startswith("verif/"):
        return importlib.import_module(rel[6:-3].replace("/", "."))
    import logging
    logging.getLogger("IsoQuant").setLevel(logging.CRITICAL + 1)
    if REPO not in sys.path:
        sys.path.insert(0, REPO)
    mod = rel[:-3].replace("/", ".")
    return importlib.import_module(mod)


def real_callable(qual):
    rel, name = qual.split("#")[0].split(":")
    obj = repo_import(rel)
    for part in name.split("."):
        obj = getattr(obj, part)
    return obj


def extracted_callable(c):
    """the mechanically extracted text of the real function (c.extract applied to the current source), compiled in the namespace of the
    real module: counterexamples of extracted contracts are replayed on exactly the code the VCs were generated from"""
    rel = c.qual.split("#")[0].split(":")[0]
    fdef, _, _ = front.find_def(c.qual)
    ex = c.extract(copy.deepcopy(fdef))
    mod = ast.parse(ast.unparse(ast.fix_missing_locations(ex)))  # fresh, consistent line numbers
    ns = dict(vars(repo_import(rel)))
    exec(compile(mod, "<extracted %s>" % c.qual, "exec"), ns)
    return ns[ex.name]


def real_enum(ename):
    e = T.ENUMS[ename]
    return getattr(repo_import(e.rel), ename)


# ---- contract vocabulary, native reading
def implies(a, b):
    return (not a) or b


def unchanged_except(a, b, *skip):
    names = set(vars(a)) | set(vars(b))
    return all(getattr(a, f, None) == getattr(b, f, None) for f in names if f not in skip)


def native_env():
    from . import streams
    env = {"implies": implies, "math": __import__("math"), "new_stream": streams.new_stream, "utf8len": streams.utf8len,
           "unchanged_except": unchanged_except}
    for n, s in api.SPECS.items():
        env[n] = s.fn
    for n, l in api.LEMMAS.items():
        env[n] = (lambda *a: True)
    for en in T.ENUMS:
        try:
            env[en] = real_enum(en)
        except Exception:
            pass
    # spec functions are plain Python defined in the sidecar modules: give them the same vocabulary
    for n, s in api.SPECS.items():
        g = s.fn.__globals__
        for k, v in env.items():
            g.setdefault(k, v)
    return env


class _OldLift(ast.NodeTransformer):
    def __init__(self):
        self.olds = []

    def visit_Call(self, node):
        if isinstance(node.func, ast.Name) and node.func.id == "old":
            k = len(self.olds)
            self.olds.append(node.args[0])
            return ast.Name(id="__old_%d" % k, ctx=ast.Load())
        return self.generic_visit(node)


def compile_ensure(src):
    tree = ast.parse(src, mode="eval")
    lift = _OldLift()
    tree = ast.fix_missing_locations(lift.visit(tree))
    olds = [compile(ast.fix_missing_locations(ast.Expression(body=o)), "<old>", "eval") for o in lift.olds]
    return compile(tree, "<ensures>", "eval"), olds


NS_RECORDS = [False]  # records without a registered class become attribute namespaces (replay of extracted functions)


def to_real(v):
    """python value produced by val.to_python -> real object (enums, records stay dicts unless a builder is given)"""
    if isinstance(v, tuple) and len(v) == 3 and v[0] == "enum":
        return getattr(real_enum(v[1]), v[2])
    if isinstance(v, tuple):
        return tuple(to_real(x) for x in v)
    if isinstance(v, list):
        return [to_real(x) for x in v]
    if isinstance(v, dict) and "__rec__" in v:
        rn = v["__rec__"]
        if rn not in RECORD_CLASSES and NS_RECORDS[0]:
            import types
            return types.SimpleNamespace(**{k: to_real(x) for k, x in v.items() if k != "__rec__"})
        if rn in RECORD_CLASSES and RECORD_CLASSES[rn][0] == "builtin":
            import types
            return types.SimpleNamespace(**{k: to_real(x) for k, x in v.items() if k != "__rec__"})
        if rn in RECORD_CLASSES:
            rel, cn = RECORD_CLASSES[rn]
            cls = getattr(repo_import(rel), cn)
            o = cls.__new__(cls)
            for k, x in v.items():
                if k != "__rec__":
                    setattr(o, k, to_real(x))
            return o
        return {k: to_real(x) for k, x in v.items()}
    if isinstance(v, dict):
        return {to_real(k): to_real(x) for k, x in v.items()}
    if isinstance(v, set):
        return {to_real(x) for x in v}
    return v


RECORD_CLASSES = {}  # record shape name -> (repo file, class name); filled by contracts


class NativeOutcome:
    def __init__(self):
        self.pre_ok = None
        self.raised = None
        self.result = None
        self.failed = []  # list of ensures clauses (or 'raises X') violated
        self.detail = ""

    @property
    def violates(self):
        return bool(self.pre_ok) and bool(self.failed)


def check_native(c, argmap, env=None, fn=None):
    """Call the real function on argmap (param name -> python value) and evaluate the contract natively."""
    out = NativeOutcome()
    env = dict(env or native_env())
    fdef, _, _ = front.find_def(c.qual)
    if fn is not None and c.extract:
        fdef = c.extract(copy.deepcopy(fdef))
    params = [a.arg for a in fdef.args.args]
    # build the real call arguments first (stubs, streams, real objects), then snapshot them as the pre-state
    try:
        callargs = c.native_args(copy.deepcopy(argmap)) if c.native_args else copy.deepcopy(dict(argmap))
    except Exception as ex:
        out.pre_ok = False
        out.detail = "argument builder raised %r" % ex
        return out
    e0 = dict(env)
    e0.update(copy.deepcopy(callargs))
    try:
        out.pre_ok = all(eval(r, e0) for r in c.requires)
        if c.known and out.pre_ok and eval(c.known, e0):
            out.pre_ok = False
            out.detail = "inside known-finding class"
    except Exception as ex:
        out.pre_ok = False
        out.detail = "precondition raised %r" % ex
        return out
    if not out.pre_ok:
        return out
    compiled = [compile_ensure(e) for e in (c.native_ensures if c.native_ensures is not None else c.ensures)]
    texts = c.native_ensures if c.native_ensures is not None else c.ensures
    olds = []
    for code, ol in compiled:
        vals = []
        for o in ol:
            vals.append(copy.deepcopy(eval(o, e0)))
        olds.append(vals)
    fn = fn or real_callable(c.qual)
    try:
        if params and params[0] in ("self", "cls") and c.args.get(params[0]) is None:
            out.result = fn(*[callargs[p] for p in params[1:] if p in callargs])
        else:
            out.result = fn(*[callargs[p] for p in params if p in callargs])
    except AssertionError as ex:
        out.raised = ex
        out.failed.append("source assert failed: %r" % (ex,))
        return out
    except Exception as ex:
        out.raised = ex
        nm = type(ex).__name__
        cond = c.raises.get(nm)
        ok = False
        if cond is not None:
            try:
                ok = bool(eval(cond, e0))
            except Exception:
                ok = False
        if not ok:
            out.failed.append("raised %s: %s" % (nm, ex))
        return out
    e1 = dict(env)
    e1.update(callargs)  # post-state of (possibly mutated) arguments
    e1["result"] = out.result
    for (code, _), vals, text in zip(compiled, olds, texts):
        e2 = dict(e1)
        for k, v in enumerate(vals):
            e2["__old_%d" % k] = v
        try:
            ok = bool(eval(code, e2))
        except Exception as ex:
            ok = False
            text = text + "   [evaluation raised %r]" % (ex,)
        if not ok:
            out.failed.append(text)
    return out


# ---- generic small-scope / random generators from declared types -------------------------------------------

def gen_value(ty, rng, size, lo=-2, hi=12):
    if ty == T.INT:
        return rng.randint(lo, hi)
    if ty == T.BOOL:
        return rng.random() < 0.5
    if ty == T.REAL:
        return rng.choice([0.0, 1.0, 0.5, -1.0, 2.5])
    if ty == T.STR:
        return rng.choice(["", "a", "b", "ab", "chr1", "x_y"])
    if ty == T.NONE:
        return None
    if isinstance(ty, T.TTuple):
        if len(ty.items) == 2 and ty.items[0] == T.INT and ty.items[1] == T.INT:
            a = rng.randint(lo, hi)
            b = a + rng.randint(-1, 4) if rng.random() < 0.9 else rng.randint(lo, hi)
            return (a, b)
        return tuple(gen_value(t, rng, size, lo, hi) for t in ty.items)
    if isinstance(ty, T.TList):
        n = rng.randint(0, size)
        if isinstance(ty.elem, T.TTuple) and len(ty.elem.items) == 2 and ty.elem.items == [T.INT, T.INT] and rng.random() < 0.85:
            # mostly well-formed interval lists
            out = []
            p = rng.randint(0, 3)
            for _ in range(n):
                a = p + rng.randint(0, 3)
                b = a + rng.randint(0, 4)
                out.append((a, b))
                p = b + rng.randint(1, 3)
            return out
        return [gen_value(ty.elem, rng, size, lo, hi) for _ in range(n)]
    if isinstance(ty, T.TOpt):
        return None if rng.random() < 0.3 else gen_value(ty.inner, rng, size, lo, hi)
    if isinstance(ty, T.TEnum):
        return getattr(real_enum(ty.ename), rng.choice(ty.members))
    if isinstance(ty, T.TSet):
        return set(gen_value(T.TList(ty.key), rng, size, lo, hi))
    if isinstance(ty, T.TDict):
        ks = gen_value(T.TList(ty.key), rng, size, lo, hi)
        return {k: gen_value(ty.val, rng, size, lo, hi) for k in ks}
    if isinstance(ty, T.TRec):
        return {"__rec__": ty.rname, **{f: gen_value(t, rng, size, lo, hi) for f, t in ty.fields.items()}}
    raise ValueError("no generator for " + repr(ty))


def default_gen(c, rng, n, size=4):
    tys = [(p, T.parse_type(t)) for p, t in c.args.items() if t is not None]
    for _ in range(n):
        yield {p: gen_value(t, rng, size) for p, t in tys}


def regenerate(c, rseed, index, budget=100000):
    """the index-th input the generator produces from seed rseed (replay of generator-made real objects)"""
    rng = random.Random(rseed)
    gen = c.gen(rng, budget) if c.gen else default_gen(c, rng, budget, 4)
    for k, argmap in enumerate(gen):
        if k == index:
            return to_real(argmap)
    raise ValueError("generator exhausted before index %d" % index)


LAST_INDEX = [None]


def search_violation(c, rng, budget=3000, size=4, fn=None):
    """Random small-scope search for an input that satisfies requires and violates ensures natively."""
    if isinstance(rng, int):
        rng = random.Random(rng)
    env = native_env()
    gen = c.gen(rng, budget) if c.gen else default_gen(c, rng, budget, size)
    tried = 0
    valid = 0
    for argmap in gen:
        tried += 1
        try:
            o = check_native(c, to_real(argmap), env, fn=fn)
        except Exception as ex:  # builder problems etc.
            continue
        if o.pre_ok:
            valid += 1
            if o.failed:
                LAST_INDEX[0] = tried - 1
                return argmap, o, tried, valid
        if tried >= budget:
            break
    return None, None, tried, valid


class TimeLimit(Exception):
    pass


def time_limited(fn, seconds, *args, **kw):
    """runs fn(*args) under a wall-clock limit (SIGALRM; checks run in the main thread of their own process): a decoder that loops over a
    corrupted length field must end as a finding with an input, not as a hung check"""
    import signal

    def on_alarm(signum, frame):
        raise TimeLimit("no result within %s s" % seconds)
    old = signal.signal(signal.SIGALRM, on_alarm)
    signal.setitimer(signal.ITIMER_REAL, seconds)
    try:
        return fn(*args, **kw)
    finally:
        signal.setitimer(signal.ITIMER_REAL, 0)
        signal.signal(signal.SIGALRM, old)
