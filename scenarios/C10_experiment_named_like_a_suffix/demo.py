#!/usr/bin/env python
# Side observation 2 at baseline (independent of _seed/patch.diff):
# the per-chromosome pieces of an experiment are located with rreplace(file_name, label, label + "_" + chr_id)
# (src/file_utils.py merge_file_list), i.e. the LAST occurrence of the experiment name in the whole path.
# When the experiment name also occurs in the output suffix ("s" in ".transcript_models.gtf", "gene" in
# ".gene_counts.tsv", "tsv", "read", ...) the wrong occurrence is replaced and the run dies with
# FileNotFoundError. In a joint YAML every experiment listed after such an experiment is never processed, so
# the well-named experiment does not get the files its stand-alone run produces.
#
# exit 1 when experiment GOOD of the joint run [s, GOOD] differs from its stand-alone run, exit 0 otherwise.

import os
import shutil
import sys
import tempfile

sys.path.insert(0, os.path.dirname(os.path.abspath(__file__)))
import demo_base as demo  # helpers only


def main():
    tmp = tempfile.mkdtemp(prefix="c10_side2_")
    try:
        home = os.path.join(tmp, "home")
        os.makedirs(home)
        ref, gtf = os.path.join(tmp, "ref.fa"), os.path.join(tmp, "genes.gtf")
        seq = demo.make_reference(ref)
        demo.make_gtf(gtf)
        bam_a, bam_b = os.path.join(tmp, "a.bam"), os.path.join(tmp, "b.bam")
        demo.make_bam(bam_a, seq, [("ra1", demo.trimmed(demo.T1, 5, 10), False)])
        demo.make_bam(bam_b, seq, [("rb1", demo.trimmed(demo.T2, 5, 10), False), ("rb2", demo.trimmed(demo.T3, 5, 10), True)])

        y_alone = os.path.join(tmp, "alone.yaml")
        demo.write_yaml(y_alone, [("GOOD", [bam_b])])
        out_alone = os.path.join(tmp, "out_alone")
        demo.run_isoquant(y_alone, out_alone, ref, gtf, home)
        alone = demo.experiment_files(out_alone, "GOOD")

        y_joint = os.path.join(tmp, "joint.yaml")
        demo.write_yaml(y_joint, [("s", [bam_a]), ("GOOD", [bam_b])])
        out_joint = os.path.join(tmp, "out_joint")
        failed = None
        try:
            demo.run_isoquant(y_joint, out_joint, ref, gtf, home)
        except RuntimeError as e:
            failed = str(e)
        problems = []
        demo.compare(demo.experiment_files(out_joint, "GOOD"), alone, "joint run [s, GOOD], experiment GOOD", problems)
        if failed or problems:
            print("FAIL: an experiment called 's' breaks the run; experiment GOOD listed after it is incomplete")
            if failed:
                print("  - " + failed)
            for p in problems:
                print("  - " + p[:600])
            return 1
        print("PASS")
        return 0
    finally:
        shutil.rmtree(tmp, ignore_errors=True)


if __name__ == "__main__":
    sys.exit(main())
