"""Contracts for src/id_policy.py (C17): id distributors and the exon-id table."""
from pyvc.api import contract, spec, lemma, record, bounded
from pyvc import native

P = "src/id_policy.py:"
CLASS_HOME = {"SimpleIDDistributor": "src/id_policy.py", "ExcludingIdDistributor": "src/id_policy.py",
              "FeatureIdStorage": "src/id_policy.py"}
KEY = "tuple[str,int,int,str]"

record("SimpleIDDistributor", {"value": "int"})
record("ExcludingIdDistributor", {"value": "int", "forbidden_ids": "set[int]"})
record("FeatureIdStorage", {"id_distributor": "rec:SimpleIDDistributor", "id_dict": "dict[%s,str]" % KEY,
                            "feature_name": "str", "used_ids": "set[str]"})
for _r in ("SimpleIDDistributor", "ExcludingIdDistributor", "FeatureIdStorage"):
    native.RECORD_CLASSES[_r] = ("src/id_policy.py", _r)

contract(P + "SimpleIDDistributor.increment", {"self": "rec:SimpleIDDistributor"}, returns="int", props=["C17"],
         modifies=["self.value"],
         ensures=["result == old(self.value) + 1", "self.value == result"], canary="result == old(self.value)")

contract(P + "ExcludingIdDistributor.increment", {"self": "rec:ExcludingIdDistributor"}, returns="int", props=["C17", "C04"],
         modifies=["self.value"],
         # the next free number: strictly larger than the last one handed out, not forbidden, and nothing free was skipped
         ensures=["result == self.value", "result > old(self.value)", "result not in self.forbidden_ids",
                  "all(v in self.forbidden_ids for v in range(old(self.value) + 1, result))"],
         loops={0: {"inv": ["self.value > old(self.value)",
                            "all(v in self.forbidden_ids for v in range(old(self.value) + 1, self.value))"]}},
         canary="result == old(self.value) + 1",
         gen=lambda rng, n: ({"self": {"__rec__": "ExcludingIdDistributor", "value": rng.randint(0, 5),
                                       "forbidden_ids": set(rng.sample(range(12), rng.randint(0, 6)))}} for _ in range(n)))


@spec("dict[tuple[str,int,int,str],str], set[str] -> bool")
def table_ok(d, used):
    # representation invariant of the exon-id table: ids are pairwise distinct and all recorded as used
    return all(d[k] in used for k in d) and all(d[k1] != d[k2] for k1 in d for k2 in d if k1 != k2)


contract(P + "FeatureIdStorage.get_id",
         {"self": "rec:FeatureIdStorage", "chr_id": "str", "feature": "tuple[int,int]", "strand": "str"},
         returns="str", props=["C17"], modifies=["self.id_dict", "self.id_distributor.value", "self.used_ids"],
         requires=["table_ok(self.id_dict, self.used_ids)"],
         ensures=[
             # functional: the id is the table entry of (chromosome, start, end, strand), now and on every later call
             "(chr_id, feature[0], feature[1], strand) in self.id_dict",
             "result == self.id_dict[(chr_id, feature[0], feature[1], strand)]",
             # ids already handed out (or loaded from the reference) never change
             "all(k in self.id_dict and self.id_dict[k] == old(self.id_dict)[k] for k in old(self.id_dict))",
             # only the queried key can be new
             "all(k in old(self.id_dict) or k == (chr_id, feature[0], feature[1], strand) for k in self.id_dict)",
             # injective: distinct exons carry distinct ids
             "table_ok(self.id_dict, self.used_ids)",
             "(chr_id, feature[0], feature[1], strand) not in old(self.id_dict) or self.id_distributor.value == old(self.id_distributor.value)"],
         loops={0: {"inv": ["self.id_dict == old(self.id_dict)", "self.used_ids == old(self.used_ids)"]}},
         gen=lambda rng, n: (_gen_storage(rng) for _ in range(n)),
         canary="result == chr_id")


def _gen_storage(rng):
    chrs = ["chr1", "chr2"]
    d = {}
    used = set()
    for _ in range(rng.randint(0, 3)):
        k = (rng.choice(chrs), rng.randint(1, 4), rng.randint(5, 8), rng.choice("+-"))
        v = rng.choice(["chr1.%d" % rng.randint(1, 3), "chr2.%d" % rng.randint(1, 3), "ENSE%d" % rng.randint(1, 3)])
        if k not in d and v not in used:
            d[k] = v
            used.add(v)
    return {"self": {"__rec__": "FeatureIdStorage", "id_distributor": {"__rec__": "SimpleIDDistributor", "value": rng.randint(0, 2)},
                     "id_dict": d, "feature_name": "exon", "used_ids": used},
            "chr_id": rng.choice(chrs), "feature": (rng.randint(1, 4), rng.randint(5, 8)), "strand": rng.choice("+-")}


# ---- ExcludingIdDistributor.__init__ parses reference ids through gffutils: outside the subset, bounded natively ----------
class _Feat:
    def __init__(self, id, ft):
        self.id = id
        self.featuretype = ft


class _StubDB:
    """exposes exactly what ExcludingIdDistributor.__init__ uses: region(seqid=, start=, featuretype=)"""
    def __init__(self, feats):
        self.feats = feats

    def region(self, seqid=None, start=None, featuretype=None):
        fts = featuretype if isinstance(featuretype, tuple) else (featuretype,)
        return [f for f in self.feats if f.featuretype in fts]


@bounded("C17.reference_id_parsing", ["C17"], shards=4, note="ids formatted exactly as the model constructor formats them "
         "(transcript<n>.<chr>.nic/.nnic, novel_gene_<chr>_<n>), for chromosome names with dots/underscores/digits, are fed "
         "back as a reference through a stub gene database: every such n must end up forbidden, and increment() must never "
         "return one of them; bound: n in 0..60, 8 chromosome-name shapes, plus foreign ids")
def c17_refparse(tier, rng):
    idp = native.repo_import("src/id_policy.py")
    com = native.repo_import("src/common.py")
    TN = com.TranscriptNaming
    chrs = ["chr1", "1", "chr_1", "GL000194.1", "chrUn_KI270742v1", "scaffold.12_3", "X", "chr1_random.2"]
    cases = 0
    viol = []
    for chr_id in chrs:
        for trial in range(6 if tier == "quick" else 60):
            ns_t = set(rng.sample(range(0, 61), rng.randint(0, 8)))
            ns_g = set(rng.sample(range(0, 61), rng.randint(0, 8)))
            # always: only transcript ids of IsoQuant's shape (all in known genes), only novel genes, and the smallest numbers taken
            if trial == 0:
                ns_g = set()
                ns_t = ns_t | {1, 2}
            elif trial == 1:
                ns_t = set()
                ns_g = ns_g | {1}
            elif trial == 2:
                ns_t, ns_g = {1, 2, 3, 5}, set()
            feats = [_Feat(TN.transcript_prefix + str(n) + "." + chr_id + rng.choice([TN.nic_transcript_suffix, TN.nnic_transcript_suffix]), "transcript") for n in ns_t]
            feats += [_Feat(TN.novel_gene_prefix + chr_id + "_" + str(n), "gene") for n in ns_g]
            feats += [_Feat("ENST0000%d.2" % k, "transcript") for k in range(2)] + [_Feat("ENSG000001.5", "gene"),
                                                                                      _Feat("transcript_like_name", "transcript"),
                                                                                      _Feat("novel_gene_without_number_x", "gene")]
            rng.shuffle(feats)
            d = idp.ExcludingIdDistributor(_StubDB(feats), chr_id)
            cases += 1
            missing = (ns_t | ns_g) - d.forbidden_ids
            got = [d.increment() for _ in range(20)]
            bad = [g for g in got if g in ns_t | ns_g]
            if missing or bad or len(set(got)) != len(got):
                viol.append({"obligation": "C17.reference_id_parsing", "inputs": {"chr": chr_id, "ids": [f.id for f in feats]},
                             "observed": "numbers not excluded: %s; handed out although taken: %s" % (sorted(missing), bad),
                             "required": "every number used in a reference id of IsoQuant's own shape is excluded"})
                return {"cases": cases, "bound": "n<=60", "violations": viol}
    return {"cases": cases, "bound": "n in 0..60, 8 chromosome shapes", "violations": viol, "samples": [{"chr": chrs[3]}]}
