import sys, random
sys.path.insert(0, '/verif')
from pyvc import api, native, run
run.load_contracts()
c = api.REG[sys.argv[1]]
rng = random.Random(1)
env = native.native_env()
n = ok = bad = 0
for am in c.gen(rng, 300):
    n += 1
    try:
        o = native.check_native(c, native.to_real(am), env)
    except Exception as e:
        print("EXC", repr(e)); break
    if o.pre_ok: ok += 1
    else:
        if bad < 3: print("pre fail:", o.detail)
        bad += 1
    if o.failed:
        print("FAILED", o.failed[:1], am); break
print(n, ok, bad)
