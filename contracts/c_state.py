"""C10: frame conditions on process-wide mutable state (class-level / module-level bindings) + a CLI history replay.

A function contract cannot speak about two whole experiments; what it can state is a frame: nothing that one experiment writes
into process-wide state may be read by the next.  The inventory is recomputed from the ASTs of src/*.py and isoquant.py on every
run; every process-wide mutable location is one obligation, discharged either because no code writes it, or because the
justification recorded here is itself checked against the AST (reset at task start / logging only / counter used only through
increment())."""
import ast
import glob
import os
from pyvc.api import finite, bounded
from pyvc import front, native

MUTABLE_CTORS = {"set", "dict", "list", "defaultdict", "OrderedDict", "Counter", "deque", "SimpleIDDistributor", "AtomicIDDistributor"}
MUTATORS = {"add", "append", "update", "extend", "insert", "pop", "remove", "discard", "clear", "setdefault", "increment", "popitem"}

# location -> justification kind (+ data).  A location that is written and has no entry here fails its obligation.
JUSTIFIED = {
    "GraphBasedModelConstructor.detected_known_isoforms": ("reset_in", "src/dataset_processor.py", "construct_models_in_parallel"),
    "MultimapResolver.duplicate_counter": ("logging_only",),
    "ReadAssignment.assignment_id_generator": ("id_counter",),
    "FeatureInfo.feature_id_counter": ("id_counter",),
}


def _files():
    return sorted(glob.glob(os.path.join(front.REPO, "src", "*.py"))) + [os.path.join(front.REPO, "isoquant.py")]


def _is_mutable_value(v):
    if isinstance(v, (ast.Dict, ast.List, ast.Set, ast.ListComp, ast.DictComp, ast.SetComp)):
        return True
    if isinstance(v, ast.Call):
        f = v.func
        name = f.id if isinstance(f, ast.Name) else (f.attr if isinstance(f, ast.Attribute) else None)
        return name in MUTABLE_CTORS
    return False


def inventory():
    """[(location 'Cls.attr' or 'module:name', file, line)] for class-level / module-level bindings to mutable objects,
    plus class-level int counters that some code writes through the class name"""
    locs = {}
    classes = {}
    for path in _files():
        tree = ast.parse(open(path).read())
        rel = os.path.relpath(path, front.REPO)
        for n in tree.body:
            if isinstance(n, ast.ClassDef):
                bases = [b.id for b in n.bases if isinstance(b, ast.Name)]
                if "Enum" in bases:
                    continue
                for s in n.body:
                    if isinstance(s, ast.Assign) and len(s.targets) == 1 and isinstance(s.targets[0], ast.Name):
                        classes.setdefault(n.name, {})[s.targets[0].id] = (rel, s.lineno, s.value)
                        if _is_mutable_value(s.value):
                            locs["%s.%s" % (n.name, s.targets[0].id)] = (rel, s.lineno)
            elif isinstance(n, ast.Assign) and len(n.targets) == 1 and isinstance(n.targets[0], ast.Name):
                if _is_mutable_value(n.value) and not n.targets[0].id.isupper():
                    locs["%s:%s" % (rel, n.targets[0].id)] = (rel, n.lineno)
    return locs, classes


def _uses(locs, classes):
    """writes / reads of Cls.attr through the class name anywhere in the code"""
    writes, reads = {}, {}
    for path in _files():
        tree = ast.parse(open(path).read())
        rel = os.path.relpath(path, front.REPO)
        parents = {}
        for p in ast.walk(tree):
            for ch in ast.iter_child_nodes(p):
                parents[ch] = p
        for n in ast.walk(tree):
            if isinstance(n, ast.Attribute) and isinstance(n.value, ast.Name) and n.value.id in classes and n.attr in classes[n.value.id]:
                loc = "%s.%s" % (n.value.id, n.attr)
                par = parents.get(n)
                is_write = isinstance(n.ctx, ast.Store) or (isinstance(par, ast.AugAssign) and par.target is n)
                if isinstance(par, ast.Attribute) and par.attr in MUTATORS and isinstance(parents.get(par), ast.Call):
                    is_write = True
                if isinstance(par, ast.Subscript) and par.value is n and isinstance(par.ctx, ast.Store):
                    is_write = True
                (writes if is_write else reads).setdefault(loc, []).append((rel, n.lineno, n, parents))
        # a class-level mutable object is also shared when it is mutated through `self.<attr>` and no method of the class
        # ever re-binds `self.<attr>` to a fresh per-instance object
        for cdef in [x for x in tree.body if isinstance(x, ast.ClassDef) and x.name in classes]:
            rebound = {t.attr for m in ast.walk(cdef) if isinstance(m, ast.Assign) for t in m.targets
                       if isinstance(t, ast.Attribute) and isinstance(t.value, ast.Name) and t.value.id == "self"}
            for attr, (rel_, line_, val) in classes[cdef.name].items():
                if not _is_mutable_value(val) or attr in rebound:
                    continue
                loc = "%s.%s" % (cdef.name, attr)
                for n in ast.walk(cdef):
                    if isinstance(n, ast.Attribute) and n.attr == attr and isinstance(n.value, ast.Name) and n.value.id == "self":
                        par = parents.get(n)
                        w = (isinstance(par, ast.Subscript) and par.value is n and isinstance(par.ctx, (ast.Store, ast.Del))) or \
                            (isinstance(par, ast.Attribute) and par.attr in MUTATORS and isinstance(parents.get(par), ast.Call)) or \
                            (isinstance(par, ast.AugAssign) and par.target is n)
                        (writes if w else reads).setdefault(loc, []).append((rel, n.lineno, n, parents))
    return writes, reads


def _enclosing_function(node, parents):
    while node in parents:
        node = parents[node]
        if isinstance(node, ast.FunctionDef):
            return node
    return None


def _check_reset_in(loc, rel, fname):
    try:
        fdef, _, _ = front.find_def("%s:%s" % (rel, fname))
    except front.Missing as e:
        return False, str(e)
    cls, attr = loc.split(".")
    for k, s in enumerate(front.strip_doc(fdef.body)[:6]):
        if isinstance(s, ast.Assign) and len(s.targets) == 1 and ast.unparse(s.targets[0]) == loc and _is_mutable_value(s.value) \
                and not (isinstance(s.value, ast.Call) and s.value.args):
            return True, "%s re-initialised at statement %d of %s" % (loc, k, fname)
        if isinstance(s, ast.Expr) and ast.unparse(s.value) == loc + ".clear()":
            return True, "%s cleared at statement %d of %s" % (loc, k, fname)
    return False, "%s is not reset at the start of %s:%s" % (loc, rel, fname)


def _check_logging_only(loc, reads, writes):
    """every read of the location sits in the test of an `if` whose body consists of logger calls only, or inside a logger call;
    every write is an increment"""
    for rel, line, n, parents in reads.get(loc, []):
        p = n
        ok = False
        while p in parents:
            p = parents[p]
            if isinstance(p, ast.Call) and isinstance(p.func, ast.Attribute) and isinstance(p.func.value, ast.Name) and p.func.value.id == "logger":
                ok = True
                break
            if isinstance(p, ast.If):
                inside_test = any(x is n for x in ast.walk(p.test))
                if inside_test and all(isinstance(s, ast.Expr) and isinstance(s.value, ast.Call) and ast.unparse(s.value.func).startswith("logger.")
                                       for s in p.body + p.orelse):
                    ok = True
                break
            if isinstance(p, (ast.FunctionDef, ast.Module)):
                break
        if not ok:
            return False, "%s is read at %s:%d outside logging" % (loc, rel, line)
    for rel, line, n, parents in writes.get(loc, []):
        par = parents.get(n)
        if not (isinstance(par, ast.AugAssign) and isinstance(par.op, ast.Add)):
            return False, "%s written other than by += at %s:%d" % (loc, rel, line)
    return True, "only incremented, only read to decide about log messages"


def _check_id_counter(loc, reads, writes):
    for rel, line, n, parents in reads.get(loc, []) + writes.get(loc, []):
        par = parents.get(n)
        if not (isinstance(par, ast.Attribute) and par.attr == "increment"):
            return False, "%s used other than through increment() at %s:%d" % (loc, rel, line)
    return True, "monotone id source: only increment() is ever called (ids of one sample stay pairwise distinct; their absolute values are not printed)"


@finite("C10.frame_inventory", ["C10"], note="every class-level / module-level mutable binding of src/*.py and isoquant.py is one frame "
        "obligation: never written, or written under a justification that is itself checked against the AST (reset at the start of the "
        "chromosome task / logging only / id counter used only through increment())")
def c10_inventory(tier, rng):
    locs, classes = inventory()
    writes, reads = _uses(locs, classes)
    obl = dis = 0
    viol = []
    samples = []
    # class-level scalars that are written through the class name are shared state as well
    for loc in sorted(set(writes) - set(locs)):
        c, a = loc.split(".")
        locs[loc] = classes[c][a][:2]
    for loc in sorted(locs):
        obl += 1
        w = writes.get(loc, [])
        if ":" in loc or not w:
            # module-level: writes through a bare name need `global`; report any function that declares it
            ok, why = True, "never written through its class / module"
            if ":" in loc:
                rel, name = loc.split(":")
                tree, _ = front.module_ast(rel)
                # only code inside functions can run once per experiment; top-level script code runs once per process
                for fn in [x for x in ast.walk(tree) if isinstance(x, ast.FunctionDef)]:
                    local_names = {a.arg for a in fn.args.args} | {t.id for s_ in ast.walk(fn) if isinstance(s_, ast.Assign)
                                                                   for t in s_.targets if isinstance(t, ast.Name)}
                    for n in ast.walk(fn):
                        if isinstance(n, ast.Global) and name in n.names:
                            ok, why = False, "module-level %s is rebound via `global` in %s" % (name, fn.name)
                        if name not in local_names and isinstance(n, ast.Call) and isinstance(n.func, ast.Attribute) \
                                and isinstance(n.func.value, ast.Name) and n.func.value.id == name and n.func.attr in MUTATORS:
                            ok, why = False, "module-level %s is mutated in place in %s (line %d)" % (name, fn.name, n.lineno)
        else:
            j = JUSTIFIED.get(loc)
            if j is None:
                ok, why = False, "%s is written at %s and no justification is recorded" % (loc, ["%s:%d" % (r, l) for r, l, _, _ in w][:3])
            elif j[0] == "reset_in":
                ok, why = _check_reset_in(loc, j[1], j[2])
            elif j[0] == "logging_only":
                ok, why = _check_logging_only(loc, reads, writes)
            elif j[0] == "id_counter":
                ok, why = _check_id_counter(loc, reads, writes)
            else:
                ok, why = False, "unknown justification"
        if ok:
            dis += 1
        else:
            viol.append({"obligation": "C10.frame.%s" % loc, "inputs": None, "observed": why,
                         "required": "no state written by one experiment is readable by the next"})
        if len(samples) < 4:
            samples.append({"location": loc, "defined": "%s:%d" % locs[loc], "verdict": why})
    # the options object (self.args) is shared by all experiments of an invocation: a per-experiment value stored into it must
    # be derived from the experiment and from run-level settings, never from the value an earlier experiment stored there
    try:
        cdef = front.find_class("src/dataset_processor.py", "DatasetProcessor")
        per_experiment_writes = {ast.unparse(n.targets[0]) for m in cdef.body if isinstance(m, ast.FunctionDef) and m.name != "__init__"
                                 for n in ast.walk(m) if isinstance(n, ast.Assign) and len(n.targets) == 1 and ast.unparse(n.targets[0]).startswith("self.args.")}
        for m in [x for x in cdef.body if isinstance(x, ast.FunctionDef) and x.name != "__init__"]:
            for n in ast.walk(m):
                if isinstance(n, ast.Assign) and len(n.targets) == 1 and ast.unparse(n.targets[0]).startswith("self.args."):
                    attr = ast.unparse(n.targets[0])
                    obl += 1
                    reads_self = any(isinstance(x, ast.Attribute) and ast.unparse(x) == attr for x in ast.walk(n.value))
                    sticky = _conditional_on_experiment(m, n, attr, per_experiment_writes)
                    if reads_self:
                        viol.append({"obligation": "C10.frame.args.%s.%s" % (m.name, attr.split(".")[-1]), "inputs": None,
                                     "observed": "%s:%d  %s is computed from its own previous value" % ("src/dataset_processor.py", n.lineno, attr),
                                     "required": "values stored in the shared options object do not depend on what an earlier experiment stored"})
                    elif sticky:
                        viol.append({"obligation": "C10.frame.args.%s.%s" % (m.name, attr.split(".")[-1]), "inputs": None,
                                     "observed": "%s:%d  %s is written only %s - otherwise the value stored while an earlier experiment was processed stays in place"
                                                 % ("src/dataset_processor.py", n.lineno, attr, sticky),
                                     "required": "a value stored in the shared options object is decided anew for every experiment (written on every "
                                                 "path, or under a condition that only reads run-level options)"})
                    else:
                        dis += 1
                        if len(samples) < 6:
                            samples.append({"location": attr, "defined": "DatasetProcessor.%s:%d" % (m.name, n.lineno),
                                            "verdict": "re-derived for each experiment without reading its old value"})
    except front.Missing as e:
        obl += 1
        viol.append({"obligation": "C10.frame.args", "inputs": None, "observed": str(e), "required": "DatasetProcessor present",
                     "undecided": True})
    return {"obligations": obl, "discharged": dis, "violations": viol, "cases": obl, "exhaustive": True,
            "bound": "all class-/module-level mutable bindings + all writes to the shared options object in DatasetProcessor", "samples": samples}


def _assigns(stmts, attr):
    """attr is assigned on every path through the statement list (if/else with both branches assigning counts; loops and try do not)"""
    for st in stmts:
        if isinstance(st, ast.Assign) and any(ast.unparse(t) == attr for t in st.targets):
            return True
        if isinstance(st, ast.If) and st.orelse and _assigns(st.body, attr) and _assigns(st.orelse, attr):
            return True
        if isinstance(st, ast.With) and _assigns(st.body, attr):
            return True
    return False


def _run_level_test(test, per_experiment_writes):
    """the test reads nothing but options that no per-experiment code writes (self.args.x / getattr(self.args, 'x', const)) and constants"""
    for x in ast.walk(test):
        if isinstance(x, ast.Name) and x.id not in ("self", "getattr", "True", "False", "None"):
            return False
        if isinstance(x, ast.Attribute):
            txt = ast.unparse(x)
            if txt == "self.args":
                continue
            if not txt.startswith("self.args.") or txt in per_experiment_writes:
                return False
        if isinstance(x, ast.Call):
            if not (isinstance(x.func, ast.Name) and x.func.id == "getattr" and len(x.args) >= 2 and ast.unparse(x.args[0]) == "self.args"
                    and isinstance(x.args[1], ast.Constant) and "self.args.%s" % x.args[1].value not in per_experiment_writes):
                return False
    return True


def _conditional_on_experiment(method, assign, attr, per_experiment_writes):
    """'' when the write happens for every experiment; otherwise a description of the condition under which alone it happens"""
    def walk(stmts, guards):
        for st in stmts:
            if st is assign:
                return guards
            for field, kind in (("body", None), ("orelse", None), ("finalbody", None), ("handlers", None)):
                sub = getattr(st, field, None)
                if not sub:
                    continue
                if field == "handlers":
                    for h in sub:
                        r = walk(h.body, guards + [("in an exception handler", st, None)])
                        if r is not None:
                            return r
                    continue
                if isinstance(st, ast.If):
                    other = st.orelse if field == "body" else st.body
                    g = ("when `%s` is %s" % (ast.unparse(st.test), "true" if field == "body" else "false"), st, other)
                elif isinstance(st, (ast.For, ast.While)):
                    g = ("inside a loop", st, None)
                elif isinstance(st, ast.Try):
                    g = ("inside try", st, None) if field == "body" else ("after try", st, None)
                else:
                    g = None
                r = walk(sub, guards + ([g] if g else []))
                if r is not None:
                    return r
        return None
    guards = walk(method.body, [])
    if guards is None:
        return ""
    for text, st, other in guards:
        if isinstance(st, ast.If):
            if other and _assigns(other, attr):
                continue
            if _run_level_test(st.test, per_experiment_writes):
                continue
        elif isinstance(st, ast.Try) and text == "inside try":
            continue
        if _assigns(method.body[:method.body.index(_top(method, st))], attr):
            continue
        return text
    return ""


def _top(method, node):
    for st in method.body:
        if any(x is node for x in ast.walk(st)):
            return st
    return method.body[-1]


def _prepare_bams(d):
    """derived inputs for the histories, written with pysam from the bundled chr9 data"""
    import gzip, re, pysam
    src = os.path.join(d, "chr9.4M.ont.sim.polya.bam")
    inp = pysam.AlignmentFile(src)
    recs = [a for a in inp if not a.is_unmapped and a.cigartuples]
    # two disjoint halves (a multi-file experiment)
    for k, name in enumerate(("half1.bam", "half2.bam")):
        with pysam.AlignmentFile(os.path.join(d, name), "wb", template=inp) as out:
            for idx, a in enumerate(recs):
                if idx % 2 == k:
                    out.write(a)
        pysam.index(os.path.join(d, name))
    # reads with a clear polyA / polyT tail only (a polyA-rich experiment)
    with pysam.AlignmentFile(os.path.join(d, "polyaonly.bam"), "wb", template=inp) as out:
        for a in recs:
            s = a.query_sequence or ""
            if s[-25:].count("A") >= 18 or s[:25].count("T") >= 18:
                out.write(a)
    pysam.index(os.path.join(d, "polyaonly.bam"))
    # a polyA-free experiment: 25 reads of a novel 2-exon transcript with a GT..AG intron in a gene-free stretch
    seq = "".join(l.strip() for l in gzip.open(os.path.join(d, "chr9.4M.fa.gz"), "rt") if not l.startswith(">"))
    genes = []
    for l in gzip.open(os.path.join(d, "chr9.4M.gtf.gz"), "rt"):
        f = l.split("\t")
        if len(f) > 4 and f[2] == "gene":
            genes.append((int(f[3]), int(f[4])))
    genes.sort()
    covered_to = 0
    lo = hi = None
    for a, b in genes:
        if covered_to and a - covered_to > 6000:
            lo, hi = covered_to + 500, a - 500
            break
        covered_to = max(covered_to, b)
    p = q = None
    for m in re.finditer("GT", seq[lo + 600:hi]):
        p0 = lo + 600 + m.start()
        q0 = seq.find("AG", p0 + 700, p0 + 1500)
        if q0 != -1 and q0 + 400 < hi:
            p, q = p0 + 1, q0 + 2
            break
    tid = inp.get_tid("chr9")
    import random
    rng = random.Random(1)
    out_recs = []
    with pysam.AlignmentFile(os.path.join(d, "mono.bam"), "wb", template=inp) as out:
        for k in range(25):
            s_ = p - 1 - rng.randint(280, 320)
            e_ = q + rng.randint(280, 320)
            a = pysam.AlignedSegment(out.header)
            a.query_name, a.flag, a.reference_id, a.reference_start, a.mapping_quality = "mono_%d" % k, 0, tid, s_ - 1, 60
            a.cigartuples = [(0, p - s_), (3, q - p + 1), (0, e_ - q)]
            a.query_sequence = seq[s_ - 1:p - 1] + seq[q:e_]
            a.query_qualities = pysam.qualitystring_to_array("I" * len(a.query_sequence))
            out_recs.append(a)
        for a in sorted(out_recs, key=lambda x: x.reference_start):
            out.write(a)
    pysam.index(os.path.join(d, "mono.bam"))


HISTORIES = {
    # name: (experiment A files, experiment B files, data type)
    "same_data": (["chr9.4M.ont.sim.polya.bam"], ["chr9.4M.ont.sim.polya.bam"], "nanopore"),
    "single_then_multi_file": (["half1.bam"], ["half1.bam", "half2.bam"], "nanopore"),
    "polya_rich_then_polya_free": (["polyaonly.bam"], ["mono.bam"], "pacbio_ccs"),
    # the joint run is processed a second time with `--resume -o <out>` before B is compared (parameters come back from <out>/.params)
    "multi_file_then_single_resumed": (["half1.bam", "half2.bam"], ["half1.bam"], "nanopore"),
}


def _cli_history(threads=1, history="same_data"):
    """experiment B run after experiment A in one process must produce what a run of B alone produces"""
    import shutil, subprocess, sys, tempfile
    base = os.path.join(os.path.dirname(os.path.dirname(os.path.abspath(__file__))), ".run")
    os.makedirs(base, exist_ok=True)
    d = tempfile.mkdtemp(prefix="c10_", dir=base)
    problems = []
    try:
        data = os.path.join(front.REPO, "tests", "simple_data")
        for f in ("chr9.4M.ont.sim.polya.bam", "chr9.4M.ont.sim.polya.bam.bai", "chr9.4M.gtf.gz", "chr9.4M.fa.gz"):
            shutil.copy(os.path.join(data, f), d)
        fa, fb, dtype = HISTORIES[history]
        if history != "same_data":
            _prepare_bams(d)
        q = lambda fs: ", ".join('"%s"' % f for f in fs)
        open(os.path.join(d, "two.yaml"), "w").write('[\n data format: "bam",\n {name: "A", long read files: [%s]},\n'
                                                     ' {name: "B", long read files: [%s]}\n]\n' % (q(fa), q(fb)))
        open(os.path.join(d, "one.yaml"), "w").write('[\n data format: "bam",\n {name: "B", long read files: [%s]}\n]\n' % q(fb))
        env = dict(os.environ, HOME=os.path.join(d, "home"))
        os.makedirs(env["HOME"], exist_ok=True)
        common = ["-d", dtype, "--genedb", "chr9.4M.gtf.gz", "--complete_genedb", "-r", "chr9.4M.fa.gz", "-t", str(threads)]
        for y, o in (("two.yaml", "out2"), ("one.yaml", "out1")):
            p = subprocess.run([sys.executable, os.path.join(front.REPO, "isoquant.py"), "--yaml", y, "-o", o] + common,
                               cwd=d, env=env, capture_output=True, text=True, timeout=600)
            if p.returncode != 0:
                return ["isoquant exited %d on %s: %s" % (p.returncode, y, p.stderr[-300:])]
        if history.endswith("_resumed"):
            p = subprocess.run([sys.executable, os.path.join(front.REPO, "isoquant.py"), "--resume", "-o", "out2"],
                               cwd=d, env=env, capture_output=True, text=True, timeout=600)
            if p.returncode != 0:
                return ["isoquant --resume exited %d: %s" % (p.returncode, p.stderr[-300:])]
        extra = sorted(f for f in os.listdir(os.path.join(d, "out2", "B")) if os.path.isfile(os.path.join(d, "out2", "B", f))
                       and not os.path.exists(os.path.join(d, "out1", "B", f)))
        if extra:
            problems.append("files of B that a run of B alone does not write: %s" % extra[:6])
        names = sorted(f for f in os.listdir(os.path.join(d, "out1", "B")) if os.path.isfile(os.path.join(d, "out1", "B", f)))
        for name in names:
            a, b = os.path.join(d, "out2", "B", name), os.path.join(d, "out1", "B", name)
            if not os.path.exists(a):
                problems.append("%s missing when B runs after A" % name)
                continue
            opener = __import__("gzip").open if name.endswith(".gz") else open
            try:
                la = [l for l in opener(a, "rt") if not l.startswith("#")]
                lb = [l for l in opener(b, "rt") if not l.startswith("#")]
            except Exception:
                continue
            if la != lb:
                problems.append("%s differs: %d lines after A vs %d lines alone" % (name, len(la), len(lb)))
    finally:
        shutil.rmtree(d, ignore_errors=True)
    return problems


def replay_cli(d):
    p = _cli_history(d["inputs"].get("threads", 1), d["inputs"].get("history", "same_data"))
    return (not p), "history %s (threads=%s): %s" % (d["inputs"].get("history"), d["inputs"].get("threads", 1), p or "B after A == B alone")


@bounded("C10.cli_history", ["C10"], note="history replays through the real CLI on the bundled chr9 data: a YAML with experiments A then B "
         "against a run with B alone, every output file of B compared: (1) same BAM twice, (2) single-file then two-file experiment, "
         "(3) polyA-rich then polyA-free experiment (-d pacbio_ccs), (4) two-file then single-file experiment, the joint run processed once more with --resume; no file missing, none extra, same contents; --threads 1 (thorough: also 2); bound: these four histories")
def c10_cli(tier, rng):
    viol = []
    cases = 0
    for threads in ((1,) if tier == "quick" else (1, 2)):
        for h in HISTORIES:
            cases += 1
            p = _cli_history(threads, h)
            if p:
                viol.append({"obligation": "C10.cli_history.%s" % h, "inputs": {"threads": threads, "history": h}, "observed": p[:4],
                             "required": "experiment B's outputs do not depend on experiment A having run before it",
                             "replay_call": "contracts.c_state:replay_cli"})
    return {"cases": cases, "bound": "%d histories (A then B vs B alone), threads %s" % (len(HISTORIES), "1" if tier == "quick" else "1 and 2"),
            "violations": viol, "samples": [{"history": h, "A": HISTORIES[h][0], "B": HISTORIES[h][1]} for h in HISTORIES]}


# ---- YAML with several experiments: each experiment is parsed as if it stood alone -----------------------------------------------------------
@finite("C10.yaml_experiments", ["C10"], note="the real InputDataStorage.get_samples_from_yaml on every ordered selection of <= 3 experiments from 6 "
        "experiment shapes (one / two files, with / without labels, with / without short-read BAMs, named / unnamed): files, labels and "
        "short-read files of each experiment equal those of the YAML that contains this experiment alone")
def c10_yaml(tier, rng):
    import itertools, os, shutil, tempfile
    ids = native.repo_import("src/input_data_storage.py")
    base = os.path.join(os.path.dirname(os.path.dirname(os.path.abspath(__file__))), ".run")
    os.makedirs(base, exist_ok=True)
    d = tempfile.mkdtemp(prefix="yaml", dir=base)
    shapes = {
        "plain": {"name": "plain", "long read files": ["a1.bam"]},
        "two": {"name": "two", "long read files": ["b1.bam", "b2.bam"], "labels": ["L1", "L2"]},
        "sr": {"name": "sr", "long read files": ["c1.bam"], "illumina bam": ["c_sr.bam"]},
        "sr2": {"name": "sr2", "long read files": ["d1.bam", "d2.bam"], "illumina bam": ["d_sr1.bam", "d_sr2.bam"]},
        "nolab": {"name": "nolab", "long read files": ["sub/e1.bam"]},
        "lab": {"name": "lab", "long read files": ["f1.bam"], "labels": ["only"]},
    }

    def parse(exps):
        import yaml
        path = os.path.join(d, "in.yaml")
        yaml.safe_dump([{"data format": "bam"}] + [shapes[e] for e in exps], open(path, "w"))
        st = ids.InputDataStorage.__new__(ids.InputDataStorage)
        st.samples, st.input_type, st.experiment_prefix = [], "", "exp"
        import contextlib, io
        with contextlib.redirect_stdout(io.StringIO()):
            files, names, readable, illumina = st.get_samples_from_yaml(path)
        return {n: (files[i], dict(readable[n]), illumina[i]) for i, n in enumerate(names)}
    obl = dis = 0
    viol = []
    try:
        alone = {e: parse([e])[e] for e in shapes}
        for n in (2, 3):
            for exps in itertools.permutations(sorted(shapes), n):
                obl += 1
                try:
                    got = parse(list(exps))
                    bad = [e for e in exps if got.get(e) != alone[e]]
                    detail = {e: got.get(e) for e in bad}
                except BaseException as ex:
                    bad, detail = list(exps), "%s: %s" % (type(ex).__name__, ex)
                if not bad:
                    dis += 1
                elif len(viol) < 3:
                    viol.append({"obligation": "C10.yaml_experiments." + "_".join(exps), "inputs": {"experiments": list(exps)},
                                 "observed": detail, "required": {e: alone[e] for e in bad}})
    finally:
        shutil.rmtree(d, ignore_errors=True)
    return {"obligations": obl, "discharged": dis, "violations": viol, "cases": obl, "exhaustive": True,
            "bound": "ordered selections of 2-3 experiments out of 6 shapes", "samples": [{"experiments": ["sr", "plain"]}]}


# ---- the one DatasetProcessor object lives across all experiments of a run: its accumulators must be re-bound per experiment --------------
@finite("C10.run_wide_accumulators", ["C10", "C02"], note="every attribute that DatasetProcessor.__init__ binds and that code reachable from "
        "process_sample (one call per experiment) mutates in place (.add / .merge / .update / += / item assignment) must also be re-bound "
        "there: otherwise the second experiment of a run starts from the first one's totals; read from the AST")
def c10_accumulators(tier, rng):
    import ast
    rel = "src/dataset_processor.py"
    tree, _src = front.module_ast(rel)
    cls = next((n for n in tree.body if isinstance(n, ast.ClassDef) and n.name == "DatasetProcessor"), None)
    if cls is None:
        return {"obligations": 1, "discharged": 0, "cases": 1, "violations": [{"obligation": "C10.run_wide_accumulators", "inputs": None,
                "observed": "class DatasetProcessor not found", "required": "inventory applies", "undecided": True}]}
    methods = {n.name: n for n in cls.body if isinstance(n, ast.FunctionDef)}

    def self_calls(fn):
        return {n.func.attr for n in ast.walk(fn) if isinstance(n, ast.Call) and isinstance(n.func, ast.Attribute)
                and isinstance(n.func.value, ast.Name) and n.func.value.id == "self" and n.func.attr in methods}
    reach, todo = set(), ["process_sample"] if "process_sample" in methods else []
    while todo:
        m = todo.pop()
        if m not in reach:
            reach.add(m)
            todo += list(self_calls(methods[m]))

    def self_attr(t):
        return t.attr if isinstance(t, ast.Attribute) and isinstance(t.value, ast.Name) and t.value.id == "self" else None
    init_attrs = {self_attr(t) for n in ast.walk(methods.get("__init__", cls)) if isinstance(n, ast.Assign) for t in n.targets if self_attr(t)}
    rebound, mutated = set(), {}
    MUT = ("add", "merge", "update", "append", "extend", "inc", "add_unaligned", "add_unassigned", "insert", "setdefault", "pop", "remove", "clear")
    for m in sorted(reach):
        for n in ast.walk(methods[m]):
            if isinstance(n, ast.Assign):
                for t in n.targets:
                    if self_attr(t):
                        rebound.add(self_attr(t))
                    if isinstance(t, ast.Subscript) and self_attr(t.value):
                        mutated.setdefault(self_attr(t.value), (m, n.lineno))
            if isinstance(n, ast.AugAssign):
                a = self_attr(n.target) or (self_attr(n.target.value) if isinstance(n.target, ast.Subscript) else None)
                if a:
                    mutated.setdefault(a, (m, n.lineno))
            if isinstance(n, ast.Call) and isinstance(n.func, ast.Attribute) and n.func.attr in MUT and self_attr(n.func.value):
                mutated.setdefault(self_attr(n.func.value), (m, n.lineno))
    obl = dis = 0
    viol = []
    for a in sorted(init_attrs):
        obl += 1
        if a in mutated and a not in rebound:
            viol.append({"obligation": "C10.frame.DatasetProcessor.%s" % a, "inputs": None,
                         "observed": "self.%s is bound in __init__, mutated in place in %s (line %d) and never re-bound per experiment" % ((a,) + mutated[a]),
                         "required": "per-experiment state is re-initialised in process_sample (or not kept on the run-wide object)"})
        else:
            dis += 1
    return {"obligations": obl, "discharged": dis, "violations": viol, "cases": obl, "exhaustive": True,
            "bound": "all %d attributes bound by DatasetProcessor.__init__" % len(init_attrs), "samples": [{"attribute": "all_read_groups", "rebound": True}]}


# ---- the per-chromosome files of an experiment are found again under whatever name the experiment has ---------------------------------------------
@finite("C10.per_chromosome_names", ["C10", "C12"], note="the real file_utils.merge_file_list against the real SampleData: for 14 experiment names (incl. "
        "names that occur inside an output suffix or the output path: s, gene, tsv, gtf, model, out, a.b, x_y) x every output path of SampleData "
        "(and the count-table names derived from them) x chromosome ids (chr1, 1, s, chr_1.2): the name the merge looks for is the name the "
        "per-chromosome worker writes, i.e. the same attribute of SampleData(prefix + '_' + chromosome)")
def c10_per_chromosome_names(tier, rng):
    ids = native.repo_import("src/input_data_storage.py")
    fu = native.repo_import("src/file_utils.py")
    obl = dis = 0
    viol = []
    chrs = ["chr1", "1", "s", "chr_1.2"]
    for prefix in ["OUT", "s", "gene", "tsv", "gtf", "model", "out", "a.b", "x_y", "reads", "transcript", "e", "_", "S"]:
        for out_root in ("/data/out", "/data/results_s/model"):
            out_dir = out_root + "/" + prefix
            whole = ids.SampleData([["f.bam"]], prefix, out_dir, {}, None)
            parts = [ids.SampleData([["f.bam"]], "%s_%s" % (prefix, c), out_dir, {}, None) for c in chrs]
            for attr, value in sorted(vars(whole).items()):
                if not attr.startswith("out_") or not isinstance(value, str) or attr == "out_dir":
                    continue
                for suffix in ("", "_counts.tsv", "_counts_linear.tsv", "_tpm.tsv", ".gtf", ".stats"):
                    obl += 1
                    got = fu.merge_file_list(value + suffix, prefix, chrs)
                    want = [getattr(p, attr) + suffix for p in parts]
                    if got == want:
                        dis += 1
                    elif len(viol) < 3:
                        viol.append({"obligation": "C10.per_chromosome_names.%s.%s" % (prefix, attr),
                                     "inputs": {"file": value + suffix, "prefix": prefix, "chromosomes": chrs},
                                     "observed": got, "required": want})
    return {"obligations": obl, "discharged": dis, "violations": viol, "cases": obl, "exhaustive": True,
            "bound": "14 experiment names x 2 output roots x output paths of SampleData x 6 suffixes", "samples": [{"prefix": "s", "file": "/data/out/s/s.read_assignments.tsv"}]}


# ---- experiments of one invocation never share an output folder --------------------------------------------------------------------------------------
@finite("C10.experiment_names_distinct", ["C10"], note="the real InputDataStorage.get_samples_from_file / get_samples_from_yaml on every sequence of <= 4 "
        "experiment names drawn from {A, B, RUN0, RUN1, RUN2, RUN3, unnamed} with --prefix RUN: either the run is refused (exit) or the experiments "
        "get pairwise distinct names - two experiments with one name write into one folder")
def c10_experiment_names(tier, rng):
    import contextlib, io, itertools, shutil, tempfile
    ids = native.repo_import("src/input_data_storage.py")
    base = os.path.join(os.path.dirname(os.path.dirname(os.path.abspath(__file__))), ".run")
    os.makedirs(base, exist_ok=True)
    d = tempfile.mkdtemp(prefix="expn", dir=base)
    obl = dis = 0
    viol = []
    try:
        for k in range(4):
            open(os.path.join(d, "f%d.bam" % k), "w").close()
        for n in (2, 3, 4):
            for names in itertools.product(["A", "B", "RUN0", "RUN1", "RUN2", "RUN3", None], repeat=n):
                for kind in ("list", "yaml"):
                    obl += 1
                    path = os.path.join(d, "in." + kind)
                    with open(path, "w") as f:
                        if kind == "list":
                            for k, nm in enumerate(names):
                                f.write("#%s\n%s\n" % (nm or "", os.path.join(d, "f%d.bam" % k)))
                        else:
                            f.write('[\n  data format: "bam"')
                            for k, nm in enumerate(names):
                                f.write(',\n  {\n%s    long read files: ["f%d.bam"]\n  }' % ('    name: "%s",\n' % nm if nm else "", k))
                            f.write("\n]\n")
                    s = ids.InputDataStorage.__new__(ids.InputDataStorage)
                    s.experiment_prefix, s.input_type = "RUN", "bam"
                    try:
                        with contextlib.redirect_stdout(io.StringIO()):      # the YAML parser prints the data format
                            got = (s.get_samples_from_file(path) if kind == "list" else s.get_samples_from_yaml(path))[1]
                    except SystemExit:
                        dis += 1
                        continue
                    if len(got) == n and len(set(got)) == n:
                        dis += 1
                    elif len(viol) < 3:
                        viol.append({"obligation": "C10.experiment_names_distinct.%s.%s" % (kind, "_".join(x or "unnamed" for x in names)),
                                     "inputs": {"format": kind, "names": list(names), "prefix": "RUN"}, "observed": got,
                                     "required": "%d pairwise distinct experiment names, or a refusal" % n})
    finally:
        shutil.rmtree(d, ignore_errors=True)
    return {"obligations": obl, "discharged": dis, "violations": viol, "cases": obl, "exhaustive": True,
            "bound": "all name sequences of length 2-4 over 7 names x {list file, YAML}", "samples": [{"names": ["RUN2", "A", "A"], "prefix": "RUN"}]}
