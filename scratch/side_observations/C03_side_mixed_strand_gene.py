#!/usr/bin/env python3
"""
Side observation at baseline (independent of patch.diff): same inputs as demo.py, except that the
reference transcript T2 of the '+' gene G1 is annotated on the '-' strand (a gene record whose
transcripts are not all on the gene's strand).  Run as
    cd /tmp/seedf_C03 && /venv/bin/python _seed/side_mixed_strand_gene.py
The checks are those of demo.py; on the UNMODIFIED code it reports that the G1 gene record is
printed on '-' (the reference says '+') while its transcript T1 is on '+'.
"""
import os
import sys

sys.path.insert(0, os.path.dirname(os.path.abspath(__file__)))
import demo

_orig = demo.write_inputs


def write_inputs(tmp):
    fasta, gtf, bam = _orig(tmp)
    lines = []
    for l in open(gtf).read().split("\n"):
        if 'transcript_id "T2"' in l:
            v = l.split("\t")
            v[6] = "-"
            l = "\t".join(v)
        lines.append(l)
    with open(gtf, "w") as f:
        f.write("\n".join(lines))
    return fasta, gtf, bam


demo.write_inputs = write_inputs
sys.exit(demo.main())
