import sys, random
sys.path.insert(0, '/verif')
from pyvc import run
run.load_contracts()
from contracts import c_assign, pipeline_harness as H
seed=int(sys.argv[1])
rng = random.Random(seed)
matching = rng.choice(["default", "precise", "loose", "exact"])
params = H.make_params("default_ont", matching)
single = rng.random() < .5
isoforms = H.make_gene(rng, 1 if single else None)
for i in isoforms: print(i)
print(c_assign._assign_case(seed))
