#!/usr/bin/env python3
"""
Side observation 2 (baseline): an experiment that consists of two BAM files, restarted from its saves.

Run 1: --bam half_a.bam half_b.bam --keep_tmp (one experiment, two files: reads are grouped by file
name and novel transcripts must be supported by both files - "technical replicas").
Run 2: --read_assignments <saves of run 1>.
The restarted run must reproduce the outputs of the run that saved the assignments: the same set of
output tables and the same transcript models / counts. Expected values are the outputs of run 1.

exit 1 if run 2 does not reproduce run 1, exit 0 + PASS otherwise.
"""
import gzip
import os
import re
import shutil
import subprocess
import sys
import tempfile

ROOT = os.path.dirname(os.path.dirname(os.path.abspath(__file__)))
import pysam  # noqa: E402


def run(cmd, tmp_dir, home):
    env = dict(os.environ, HOME=home, PYTHONDONTWRITEBYTECODE="1")
    res = subprocess.run(cmd, cwd=tmp_dir, env=env, stdout=subprocess.PIPE, stderr=subprocess.STDOUT, text=True)
    if res.returncode != 0:
        print(res.stdout[-3000:])
        raise RuntimeError("isoquant.py failed")


def content(path):
    opener = (lambda p: gzip.open(p, "rt")) if path.endswith(".gz") else open
    with opener(path) as f:
        return sorted(l for l in f if not l.startswith("#"))


def main():
    tmp_dir = tempfile.mkdtemp(prefix="c15_side2_")
    try:
        data = os.path.join(ROOT, "tests", "simple_data")
        home = os.path.join(tmp_dir, "home")
        os.makedirs(home)
        reference = shutil.copy(os.path.join(data, "chr9.4M.fa.gz"), os.path.join(tmp_dir, "ref.fa.gz"))
        genedb = shutil.copy(os.path.join(data, "chr9.4M.gtf.gz"), os.path.join(tmp_dir, "genes.gtf.gz"))
        src_bam = os.path.join(data, "chr9.4M.ont.sim.polya.bam")
        halves = [os.path.join(tmp_dir, "half_a.bam"), os.path.join(tmp_dir, "half_b.bam")]
        with pysam.AlignmentFile(src_bam, "rb") as inf:
            outs = [pysam.AlignmentFile(h, "wb", template=inf) for h in halves]
            names = {}
            for rec in inf:
                n = names.setdefault(rec.query_name, len(names))
                # uneven split: many novel transcripts are then seen in one file only
                outs[0 if n % 12 else 1].write(rec)
            for o in outs:
                o.close()
        for h in halves:
            pysam.index(h)

        common = [sys.executable, os.path.join(ROOT, "isoquant.py"), "--reference", reference,
                  "--genedb", genedb, "--complete_genedb", "-d", "nanopore"]
        run(common + ["--bam"] + halves + ["-o", os.path.join(tmp_dir, "out_1"), "-p", "S", "--keep_tmp"],
            tmp_dir, home)
        run(common + ["--read_assignments", os.path.join(tmp_dir, "out_1", "S", "aux", "S.save"),
                      "-o", os.path.join(tmp_dir, "out_2"), "-p", "S"], tmp_dir, home)

        dir1 = os.path.join(tmp_dir, "out_1", "S")
        dir2 = os.path.join(tmp_dir, "out_2", "S0")
        files1 = sorted(re.sub(r"^S\.", "", f) for f in os.listdir(dir1) if os.path.isfile(os.path.join(dir1, f)))
        files2 = sorted(re.sub(r"^S0\.", "", f) for f in os.listdir(dir2) if os.path.isfile(os.path.join(dir2, f)))
        problems = []
        if files1 != files2:
            problems.append("files missing in the restarted run: %s; extra: %s"
                            % (",".join(sorted(set(files1) - set(files2))), ",".join(sorted(set(files2) - set(files1))) or "none"))
        for f in files1:
            if f not in files2 or not (f.endswith(".tsv") or f.endswith(".tsv.gz") or f.endswith(".gtf")):
                continue
            c1 = content(os.path.join(dir1, "S." + f))
            c2 = content(os.path.join(dir2, "S0." + f))
            if c1 != c2:
                problems.append("%s differs between the saving run (%d lines) and the restarted run (%d lines)" % (f, len(c1), len(c2)))
        if problems:
            print("FAIL:")
            for p_ in problems:
                print(p_)
            return 1
        print("PASS")
        return 0
    finally:
        shutil.rmtree(tmp_dir, ignore_errors=True)


if __name__ == "__main__":
    sys.exit(main())
