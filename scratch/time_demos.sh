#!/bin/bash
# runs every seed demonstration against the current /repo tree through a mirror directory of symlinks (so that demos which locate the
# project root relative to their own path, or relative to the cwd, both find the real code), records exit code and seconds
REPO=${VERIF_REPO:-/repo}
for d in /verif/seeded/*/; do
  id=$(basename $d)
  m=/verif/.run/scn_$id
  rm -rf $m; mkdir -p $m/_seed
  for f in $REPO/* ; do ln -s $f $m/$(basename $f); done
  cp $d/demo.py $m/_seed/demo.py
  s=$(date +%s.%N)
  (cd $m && HOME=/verif/.run/demo_home timeout 900 /venv/bin/python _seed/demo.py > /verif/.run/demo_$id.log 2>&1)
  rc=$?
  e=$(date +%s.%N)
  echo "$id rc=$rc $(echo "$e - $s" | bc)"
  rm -rf $m
done
