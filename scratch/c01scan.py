import sys
sys.path.insert(0, '/verif')
from multiprocessing import Pool
def work(rg):
    from pyvc import run
    run.load_contracts()
    from contracts import c_assign
    out = []
    for s in range(*rg):
        try:
            d, p = c_assign._assign_case(s)
        except Exception as e:
            d, p = {"seed": s}, [repr(e)]
        if d is not None and p:
            out.append((s, d, p))
    return out
if __name__ == "__main__":
    base = int(sys.argv[1]); n = int(sys.argv[2]); k = 8
    step = n // k
    with Pool(k) as pool:
        res = pool.map(work, [(base + i * step, base + (i + 1) * step) for i in range(k)])
    allb = [x for r in res for x in r]
    print(len(allb))
    for s, d, p in allb[:40]:
        print(s, d["matching"], d["kind"], d["tail"], d["isoform"], d["type"], d["reported"], p[0][:90])
