#!/usr/bin/env python
"""
Demo for property C03 (output annotations are well-formed ...).

Builds a tiny genome (one chromosome), a reference annotation with one 4-exon gene and a BAM with
 - reads that follow the annotated transcript and
 - reads that skip the second exon (a novel isoform made of annotated splice sites),
runs the real isoquant.py on it and checks the sentences of the property on
transcript_models.gtf and extended_annotation.gtf:
  * every transcript has >= 1 exon, exons sorted, non-overlapping, 1 <= start <= end <= chromosome length,
  * the transcript record spans exactly its exons and appears once, the gene record appears once,
    same chromosome / strand, contains its transcripts,
  * transcripts reported under a reference ID have the reference exons / strand / gene,
  * extended_annotation.gtf = every reference transcript + exactly the novel transcripts of
    transcript_models.gtf with identical coordinates.
Expected values are computed from the inputs written by this script, nothing is hard-coded from outputs.
"""
import os
import random
import re
import shutil
import subprocess
import sys
import tempfile
from collections import defaultdict

import pysam

ROOT = os.path.dirname(os.path.dirname(os.path.abspath(__file__)))
CHR = "chr1"
CHR_LEN = 8000
REF_EXONS = [(1001, 1200), (2001, 2200), (3001, 3200), (4001, 4300)]   # gene G1, transcript G1.t1, strand +
NOVEL_EXONS = [(1001, 1200), (3001, 3200), (4001, 4300)]               # skips the second exon
REF_GENE, REF_TRANSCRIPT, REF_STRAND = "G1", "G1.t1", "+"


def introns_of(exons):
    return [(exons[i][1] + 1, exons[i + 1][0] - 1) for i in range(len(exons) - 1)]


def make_genome():
    rnd = random.Random(11)
    seq = [rnd.choice("ACGT") for _ in range(CHR_LEN)]
    # no accidental poly-A / poly-T stretches
    for i in range(3, CHR_LEN):
        if seq[i] == seq[i - 1] == seq[i - 2] == seq[i - 3]:
            seq[i] = "C" if seq[i] != "C" else "G"
    for s, e in introns_of(REF_EXONS) + introns_of(NOVEL_EXONS):
        seq[s - 1:s + 1] = "GT"
        seq[e - 2:e] = "AG"
    return "".join(seq)


def write_inputs(tmp, genome):
    fasta = os.path.join(tmp, "ref.fa")
    with open(fasta, "w") as f:
        f.write(">%s\n" % CHR)
        for i in range(0, len(genome), 60):
            f.write(genome[i:i + 60] + "\n")

    gtf = os.path.join(tmp, "ann.gtf")
    with open(gtf, "w") as f:
        attr_g = 'gene_id "%s";' % REF_GENE
        attr_t = 'gene_id "%s"; transcript_id "%s";' % (REF_GENE, REF_TRANSCRIPT)
        f.write("\t".join([CHR, "test", "gene", str(REF_EXONS[0][0]), str(REF_EXONS[-1][1]), ".", REF_STRAND, ".", attr_g]) + "\n")
        f.write("\t".join([CHR, "test", "transcript", str(REF_EXONS[0][0]), str(REF_EXONS[-1][1]), ".", REF_STRAND, ".", attr_t]) + "\n")
        for s, e in REF_EXONS:
            f.write("\t".join([CHR, "test", "exon", str(s), str(e), ".", REF_STRAND, ".", attr_t]) + "\n")

    unsorted_bam = os.path.join(tmp, "unsorted.bam")
    bam = os.path.join(tmp, "reads.bam")
    header = pysam.AlignmentHeader.from_dict({"HD": {"VN": "1.6", "SO": "unsorted"},
                                              "SQ": [{"SN": CHR, "LN": CHR_LEN}]})
    with pysam.AlignmentFile(unsorted_bam, "wb", header=header) as out:
        n = 0
        for name, exons, copies in (("known", REF_EXONS, 12), ("skip", NOVEL_EXONS, 12)):
            for c in range(copies):
                a = pysam.AlignedSegment(header)
                a.query_name = "%s_%d" % (name, c)
                seq = "".join(genome[s - 1:e] for s, e in exons)
                cigar = []
                for i, (s, e) in enumerate(exons):
                    if i:
                        cigar.append((3, s - exons[i - 1][1] - 1))
                    cigar.append((0, e - s + 1))
                a.query_sequence = seq
                a.flag = 0
                a.reference_id = 0
                a.reference_start = exons[0][0] - 1
                a.mapping_quality = 60
                a.cigartuples = cigar
                a.query_qualities = pysam.qualitystring_to_array("I" * len(seq))
                out.write(a)
                n += 1
    pysam.sort("-o", bam, unsorted_bam)
    pysam.index(bam)
    return fasta, gtf, bam


def parse_gtf(path):
    """returns genes: id -> list of (chr, start, end, strand); transcripts: id -> list of records;
       exons: transcript id -> list of (start, end) in file order"""
    genes = defaultdict(list)
    transcripts = defaultdict(list)
    exons = defaultdict(list)
    for line in open(path):
        v = line.rstrip("\n").split("\t")
        if not line.strip() or len(v) != 9:
            # header comment lines; a record of a chromosome whose name starts with '#' still has 9 columns
            continue
        attrs = dict(re.findall(r'(\S+) "([^"]*)";', v[8]))
        rec = (v[0], int(v[3]), int(v[4]), v[6])
        if v[2] == "gene":
            genes[attrs["gene_id"]].append(rec)
        elif v[2] == "transcript":
            transcripts[attrs["transcript_id"]].append(rec + (attrs["gene_id"],))
        elif v[2] == "exon":
            exons[attrs["transcript_id"]].append((int(v[3]), int(v[4])))
    return genes, transcripts, exons


def check_wellformed(name, genes, transcripts, exons, errors):
    for t_id, recs in transcripts.items():
        if len(recs) != 1:
            errors.append("%s: transcript record of %s appears %d times" % (name, t_id, len(recs)))
        chr_id, t_start, t_end, strand, gene_id = recs[0]
        t_exons = exons.get(t_id, [])
        if not t_exons:
            errors.append("%s: transcript %s has no exons" % (name, t_id))
            continue
        # the file lists exons of '-' transcripts from the 3' end; compare in genomic order
        ordered = t_exons if strand != "-" else t_exons[::-1]
        if ordered != sorted(ordered):
            errors.append("%s: exons of %s are not sorted: %s" % (name, t_id, t_exons))
        ordered = sorted(t_exons)
        for i, (s, e) in enumerate(ordered):
            if not (1 <= s <= e <= CHR_LEN):
                errors.append("%s: exon (%d, %d) of %s is outside 1..%d" % (name, s, e, t_id, CHR_LEN))
            if i and ordered[i - 1][1] >= s:
                errors.append("%s: exons %s and %s of %s overlap" % (name, ordered[i - 1], (s, e), t_id))
        if (t_start, t_end) != (ordered[0][0], ordered[-1][1]):
            errors.append("%s: transcript record of %s (%d-%d) does not span its exons %s" %
                          (name, t_id, t_start, t_end, ordered))
        g_recs = genes.get(gene_id, [])
        if len(g_recs) != 1:
            errors.append("%s: gene record of %s (transcript %s) appears %d times" % (name, gene_id, t_id, len(g_recs)))
            continue
        g_chr, g_start, g_end, g_strand = g_recs[0]
        if g_chr != chr_id or g_strand != strand:
            errors.append("%s: gene %s and transcript %s differ in chromosome / strand" % (name, gene_id, t_id))
        if not (g_start <= t_start and t_end <= g_end):
            errors.append("%s: gene %s (%d-%d) does not contain transcript %s (%d-%d)" %
                          (name, gene_id, g_start, g_end, t_id, t_start, t_end))
    for t_id in exons:
        if t_id not in transcripts:
            errors.append("%s: exons of %s have no transcript record" % (name, t_id))


def main():
    tmp = tempfile.mkdtemp(prefix="seed_C03_")
    try:
        genome = make_genome()
        fasta, gtf, bam = write_inputs(tmp, genome)
        home = os.path.join(tmp, "home")
        os.makedirs(home)
        out_dir = os.path.join(tmp, "out")
        env = dict(os.environ, HOME=home)
        cmd = [sys.executable, os.path.join(ROOT, "isoquant.py"), "--reference", fasta, "--genedb", gtf,
               "--complete_genedb", "--bam", bam, "--data_type", "nanopore", "--polya_requirement", "never",
               "-o", out_dir, "--prefix", "demo", "--threads", "1"]
        res = subprocess.run(cmd, cwd=tmp, env=env, stdout=subprocess.PIPE, stderr=subprocess.STDOUT, text=True)
        if res.returncode != 0:
            print(res.stdout[-3000:])
            print("FAIL: isoquant.py exited with %d" % res.returncode)
            return 1

        models_gtf = os.path.join(out_dir, "demo", "demo.transcript_models.gtf")
        extended_gtf = os.path.join(out_dir, "demo", "demo.extended_annotation.gtf")
        errors = []
        m_genes, m_tr, m_ex = parse_gtf(models_gtf)
        e_genes, e_tr, e_ex = parse_gtf(extended_gtf)
        check_wellformed("transcript_models.gtf", m_genes, m_tr, m_ex, errors)
        check_wellformed("extended_annotation.gtf", e_genes, e_tr, e_ex, errors)

        reference = {REF_TRANSCRIPT: (REF_EXONS, REF_STRAND, REF_GENE)}
        # transcripts reported under a reference ID are verbatim copies
        for name, tr, ex in (("transcript_models.gtf", m_tr, m_ex), ("extended_annotation.gtf", e_tr, e_ex)):
            for t_id in tr:
                if t_id in reference:
                    r_exons, r_strand, r_gene = reference[t_id]
                    if sorted(set(ex[t_id])) != r_exons or len(ex[t_id]) != len(r_exons) or \
                            tr[t_id][0][3] != r_strand or tr[t_id][0][4] != r_gene:
                        errors.append("%s: %s differs from the reference: exons %s strand %s gene %s" %
                                      (name, t_id, ex[t_id], tr[t_id][0][3], tr[t_id][0][4]))

        novel = {t_id for t_id in m_tr if t_id not in reference}
        # the input must make the situation of interest happen: the exon-skipping isoform is reported as novel
        if not any(sorted(set(m_ex[t])) == NOVEL_EXONS for t in novel):
            errors.append("setup: the exon-skipping isoform was not reported as a novel transcript (%s)" %
                          {t: m_ex[t] for t in m_tr})
        # extended annotation = all reference transcripts + exactly the novel ones, identical coordinates
        if set(e_tr) != set(reference) | novel:
            errors.append("extended_annotation.gtf has transcripts %s, expected %s" %
                          (sorted(e_tr), sorted(set(reference) | novel)))
        for t_id in novel:
            if t_id in e_tr and (e_ex[t_id] != m_ex[t_id] or e_tr[t_id] != m_tr[t_id]):
                errors.append("novel transcript %s differs between the two files:\n    transcript_models.gtf:   %s %s\n"
                              "    extended_annotation.gtf: %s %s" % (t_id, m_tr[t_id], m_ex[t_id], e_tr[t_id], e_ex[t_id]))

        if errors:
            print("FAIL: property C03 violated")
            for e in errors:
                print("  - " + e)
            return 1
        print("PASS: %d transcript(s) in transcript_models.gtf (%d novel), %d in extended_annotation.gtf, all well-formed"
              % (len(m_tr), len(novel), len(e_tr)))
        return 0
    finally:
        shutil.rmtree(tmp, ignore_errors=True)


if __name__ == "__main__":
    sys.exit(main())
