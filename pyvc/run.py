"""Driver: ./vcheck <property> [--tier quick|thorough] | ./vcheck replay <file> | ./vcheck lock | ./vcheck list"""
import ast
import glob
import hashlib
import importlib
import json
import multiprocessing as mp
import os
import random
import sys
import time
import traceback

VERIF = os.path.dirname(os.path.dirname(os.path.abspath(__file__)))
sys.path.insert(0, VERIF)

from pyvc import api, front, native  # noqa: E402
from pyvc import ty as T  # noqa: E402

CONTRACT_MODULES = None
LOCK_PATH = os.path.join(VERIF, "obligations.lock.json")
KNOWN_PATH = os.path.join(VERIF, "known_findings.json")

HARD_KINDS = ("post", "safety", "assert", "call-pre", "frame", "raise", "lemma")


def load_contracts():
    global CONTRACT_MODULES
    if CONTRACT_MODULES is not None:
        return
    names = sorted(os.path.basename(p)[:-3] for p in glob.glob(os.path.join(VERIF, "contracts", "*.py"))
                   if not p.endswith("__init__.py"))
    CONTRACT_MODULES = []
    for n in names:
        CONTRACT_MODULES.append(importlib.import_module("contracts." + n))


def class_home():
    out = {}
    for m in CONTRACT_MODULES or []:
        out.update(getattr(m, "CLASS_HOME", {}))
    return out


def load_lock():
    if os.path.exists(LOCK_PATH):
        return json.load(open(LOCK_PATH))
    return {}


def load_known():
    if os.path.exists(KNOWN_PATH):
        return json.load(open(KNOWN_PATH))
    return {"findings": [], "fixed": []}


# ---------------------------------------------------------------------------------------------------------------

def verify_contract(args):
    """Worker: all obligations of one contracted function. Runs in a forked process."""
    qual, tier, seed, timeout_ms = args[:4]
    shard, nshards = (args[4], args[5]) if len(args) > 4 else (0, 1)
    import z3
    from pyvc import engine
    from pyvc.val import Unsupported, to_python
    from pyvc.state import PathLimit
    t0 = time.time()
    c = api.REG[qual]
    out = {"function": qual, "status": "ok", "obligations": {}, "failures": [], "msg": "", "trusted": c.trusted,
           "canary": None, "presat": None, "native": {}, "paths": 0, "assumptions": [], "trusted_axioms": [],
           "callees": [], "lemmas": [], "solver_s": 0.0, "slowest": None, "fingerprint": None, "samples": []}
    try:
        out["fingerprint"] = front.func_fingerprint(qual)
    except front.Missing as e:
        out["status"] = "missing"
        out["msg"] = str(e)
        return out
    if c.trusted:
        out["status"] = "trusted"
        return out
    rseed = seed * 7919 + int(hashlib.sha256(qual.encode()).hexdigest()[:8], 16)
    rng = random.Random(rseed)
    lock = load_lock().get(qual, {})
    if c.timeout:
        timeout_ms = max(timeout_ms, c.timeout)
    if not c.bounded_only:
        eng = engine.Engine(class_home(), timeout_ms)
        try:
            npaths, fdef, text = eng.generate(c)
        except (Unsupported, PathLimit) as e:
            out["status"] = "unsupported"
            out["msg"] = str(e)
            # the function left the verified subset (typically: it was rewritten). The contract text is still executable: run it on the
            # real function over the native generator, so that a rewrite which breaks the postcondition is a violation with an input
            # and not merely "undecided"
            if c.native and shard == 0:
                try:
                    argmap, o, tried, valid = native.search_violation(c, rseed + 2, 2000 if tier == "quick" else 20000)
                    out["native"] = {"tried": tried, "valid": valid, "violation": None}
                    if argmap is not None:
                        out["native"]["violation"] = {"inputs": repr(argmap), "failed": o.failed,
                                                      "gen_replay": {"seed": rseed + 2, "index": native.LAST_INDEX[0]}}
                except Exception as e2:
                    out["native"] = {"error": "%s: %s" % (type(e2).__name__, e2), "tb": traceback.format_exc()[-800:]}
            return out
        except front.Missing as e:
            out["status"] = "missing"
            out["msg"] = str(e)
            return out
        out["paths"] = npaths
        out["assumptions"] = sorted(eng.assumptions) + ["assumed: " + a for a in c.assumes]
        out["trusted_axioms"] = sorted(eng.trusted_axioms)
        out["callees"] = sorted(eng.callees)
        out["lemmas"] = sorted(eng.used_lemmas)
        # precondition reachability
        s = z3.Solver()
        s.set("timeout", 5000)
        s.add(*eng.pre_conds)
        out["presat"] = str(s.check())
        slow = (0.0, None)
        pending_fail = []
        for obi, ob in enumerate(eng.obligations):
            if obi % nshards != shard:
                continue
            status, dt, model, backend = engine.solve(ob, timeout_ms)
            if status == "unknown":
                status, dt2, model2, backend = try_other_solvers(ob, timeout_ms, status)
                dt += dt2
                if status == "sat" and model2 is not None:
                    model = model2
            out["solver_s"] += dt
            if dt > slow[0]:
                slow = (dt, ob.name)
            rec = out["obligations"].setdefault(ob.name, {"status": "discharged", "vcs": 0, "kind": ob.kind,
                                                          "info": ob.info, "backend": {}, "line": ob.line})
            rec["vcs"] += 1
            rec["backend"][backend] = rec["backend"].get(backend, 0) + 1
            if status != "unsat":
                rec["status"] = "failed" if status == "sat" else ("undecided" if rec["status"] != "failed" else "failed")
                pending_fail.append((ob, status, model))
            if len(out["samples"]) < 2 and ob.kind in ("post", "inv-pres") and status == "unsat" and backend != "trivial":
                out["samples"].append({"obligation": ob.name, "info": ob.info, "path": ob.path,
                                       "smt2_head": engine.smt2_of(ob)[-600:]})
        out["slowest"] = {"name": slow[1], "s": round(slow[0], 3)}
        # failures -> counterexample -> native replay
        seen = set()
        for ob, status, model in pending_fail:
            if ob.name in seen:
                continue
            seen.add(ob.name)
            fail = {"obligation": ob.name, "kind": ob.kind, "solver": status, "info": ob.info, "line": ob.line,
                    "replayed": False, "inputs": None, "native_failed": None,
                    "was_discharged_in_lock": lock.get(ob.name) == "discharged"}
            if ob.name.endswith(".post.type") and ob.name not in lock and lock and all(v == "discharged" for v in lock.values()):
                # a type obligation exists only on a path that returns another type than the contract declares: the locked tree, all of
                # whose obligations for this function were discharged, had no such path
                fail["was_discharged_in_lock"] = True
            if status == "sat" and model is not None and (c.native or c.extract):
                try:
                    argmap = {k: to_python(v, model) for k, v in ob.inputs.items() if k in c.args}
                    fail["inputs"] = repr(argmap)
                    if c.native:
                        o = native.check_native(c, native.to_real(argmap))
                    else:
                        # an extracted contract: the counterexample is replayed on the extracted text of the real function
                        native.NS_RECORDS[0] = True
                        try:
                            o = native.check_native(c, native.to_real(argmap), fn=native.extracted_callable(c))
                        finally:
                            native.NS_RECORDS[0] = False
                        fail["from"] = "solver model replayed on the extracted function text"
                    fail["model_pre_ok"] = bool(o.pre_ok)
                    if o.violates:
                        fail["replayed"] = True
                        fail["native_failed"] = o.failed
                except Exception as e:
                    fail["model_error"] = "%s: %s" % (type(e).__name__, e)
            if not fail["replayed"] and (c.native or (c.extract and c.gen)):
                try:
                    if c.native:
                        argmap, o, tried, valid = native.search_violation(c, rseed + 1, 4000 if tier == "quick" else 40000)
                    else:
                        # an extracted contract with a generator: small-scope search on the extracted function text
                        native.NS_RECORDS[0] = True
                        try:
                            argmap, o, tried, valid = native.search_violation(c, rseed + 1, 4000 if tier == "quick" else 40000,
                                                                              fn=native.extracted_callable(c))
                        finally:
                            native.NS_RECORDS[0] = False
                    fail["search"] = {"tried": tried, "valid": valid}
                    if argmap is not None:
                        fail["replayed"] = True
                        fail["inputs"] = repr(argmap)
                        fail["gen_replay"] = {"seed": rseed + 1, "index": native.LAST_INDEX[0]}
                        fail["native_failed"] = o.failed
                        fail["from"] = "native small-scope search"
                except Exception as e:
                    fail["search_error"] = "%s: %s" % (type(e).__name__, e)
            out["failures"].append(fail)
        # canary: a deliberately wrong postcondition must be refuted
        if c.canary and not out["failures"] and shard == 0:
            try:
                eng2 = engine.Engine(class_home(), timeout_ms)
                eng2.generate(c, extra_ensures=[c.canary], drop_ensures=True)
                refuted = False
                for ob in eng2.obligations:
                    if ob.kind == "post":
                        st_, _, _, _ = engine.solve(ob, min(timeout_ms, 5000))
                        if st_ != "unsat":
                            refuted = True
                            break
                out["canary"] = "refuted" if refuted else "VACUOUS"
            except Exception as e:
                out["canary"] = "error: %s" % e
    else:
        out["status"] = "bounded"
    # native sampling of the same contract (bounded stand-in / engine disagreement detector)
    if c.native and shard == 0:
        n = (300 if tier == "quick" else 5000)
        try:
            argmap, o, tried, valid = native.search_violation(c, rseed + 2, n)
            out["native"] = {"tried": tried, "valid": valid, "violation": None}
            if argmap is not None:
                out["native"]["violation"] = {"inputs": repr(argmap), "failed": o.failed,
                                              "gen_replay": {"seed": rseed + 2, "index": native.LAST_INDEX[0]}}
        except Exception as e:
            out["native"] = {"error": "%s: %s" % (type(e).__name__, e), "tb": traceback.format_exc()[-800:]}
    out["wall_s"] = round(time.time() - t0, 3)
    return out


def try_other_solvers(ob, timeout_ms, status):
    """z3 said unknown: hand the same query to cvc5 (binary), return its verdict."""
    import subprocess
    import tempfile
    from pyvc import engine
    t0 = time.time()
    try:
        st, _, model, backend = engine.solve_retry(ob, timeout_ms)
        if st in ("unsat", "sat"):
            return st, time.time() - t0, model, backend
    except Exception:
        pass
    try:
        smt = engine.smt2_of(ob)
        rundir = os.path.join(VERIF, ".run")
        os.makedirs(rundir, exist_ok=True)
        with tempfile.NamedTemporaryFile("w", suffix=".smt2", dir=rundir, delete=False) as f:
            f.write("(set-logic ALL)\n" + smt)
            path = f.name
        try:
            p = subprocess.run(["/usr/bin/cvc5", "--tlimit=%d" % timeout_ms, "--strings-exp", path],
                               capture_output=True, text=True, timeout=timeout_ms / 1000 + 5)
            ans = p.stdout.strip().split("\n")[0] if p.stdout.strip() else ""
        finally:
            os.unlink(path)
        if ans == "unsat":
            return "unsat", time.time() - t0, None, "cvc5"
    except Exception:
        pass
    return "unknown", time.time() - t0, None, "z3"


def verify_lemma(args):
    name, tier, seed, timeout_ms = args
    import z3
    from pyvc import engine
    from pyvc.val import Unsupported, to_python
    l = api.LEMMAS[name]
    out = {"function": "lemma:" + name, "status": "ok", "obligations": {}, "failures": [], "msg": "", "solver_s": 0.0,
           "samples": [], "assumptions": [], "trusted_axioms": [], "native": {}, "paths": 0, "canary": None,
           "presat": None, "fingerprint": None, "callees": [], "lemmas": [], "slowest": None, "trusted": False}
    eng = engine.Engine(class_home(), timeout_ms)
    try:
        eng.generate_lemma(l)
    except Unsupported as e:
        out["status"] = "unsupported"
        out["msg"] = str(e)
        return out
    for ob in eng.obligations:
        status, dt, model, backend = engine.solve(ob, timeout_ms)
        if status == "unknown":
            status, dt2, model2, backend = try_other_solvers(ob, timeout_ms, status)
        out["solver_s"] += dt
        rec = out["obligations"].setdefault(ob.name, {"status": "discharged", "vcs": 0, "kind": ob.kind, "info": ob.info,
                                                      "backend": {}, "line": 0})
        rec["vcs"] += 1
        rec["backend"][backend] = rec["backend"].get(backend, 0) + 1
        if status != "unsat":
            rec["status"] = "failed" if status == "sat" else "undecided"
            f = {"obligation": ob.name, "kind": "lemma", "solver": status, "info": ob.info, "replayed": False,
                 "inputs": None, "was_discharged_in_lock": False, "line": 0}
            if status == "sat" and model is not None:
                try:
                    f["inputs"] = repr({k: to_python(v, model) for k, v in ob.inputs.items()})
                except Exception:
                    pass
            out["failures"].append(f)
    return out


def run_native_entry(args):
    kind, name, tier, seed = args[:4]
    ent = (api.BOUNDED if kind == "bounded" else api.FINITE)[name]
    t0 = time.time()
    try:
        rng = random.Random(seed)
        # exhaustive checks may split their enumeration: shard k of n (random checks simply get different seeds)
        rng.shard_index, rng.shard_count = (args[4], args[5]) if len(args) > 5 else (0, 1)
        r = ent["fn"](tier, rng)
        r = dict(r or {})
    except Exception as e:
        r = {"error": "%s: %s" % (type(e).__name__, e), "tb": traceback.format_exc()[-1500:]}
    r["name"] = name
    r["kind"] = kind
    r["note"] = ent["note"]
    r["wall_s"] = round(time.time() - t0, 3)
    return r


# ---------------------------------------------------------------------------------------------------------------

def check_property(pid, tier, seed, jobs=None, only=None):
    t0 = time.time()
    load_contracts()
    timeout_ms = 10000 if tier == "quick" else 60000
    quals = [q for q, c in api.REG.items() if pid in c.props and (only is None or only in q)]
    lemmas = [n for n, l in api.LEMMAS.items() if pid in l.props and (only is None or only in n)]
    fin = [n for n, e in api.FINITE.items() if pid in e["props"] and (only is None or only in n)]
    bnd = [n for n, e in api.BOUNDED.items() if pid in e["props"] and (only is None or only in n)]
    tasks = []
    for q in quals:
        ns = getattr(api.REG[q], "shards", 1) or 1
        for k in range(ns):
            tasks.append((verify_contract, (q, tier, seed, timeout_ms, k, ns)))
    tasks = tasks + \
            [(verify_lemma, (n, tier, seed, timeout_ms)) for n in lemmas] + \
            [(run_native_entry, ("finite", n, tier, seed)) for n in fin] + \
            [(run_native_entry, ("bounded", n, tier, seed + 7919 * k, k, api.BOUNDED[n].get("shards", 1) if tier == "thorough" else 1))
             for n in bnd for k in range(api.BOUNDED[n].get("shards", 1) if tier == "thorough" else 1)]
    jobs = jobs or min(16, max(1, len(tasks)))
    results = []
    if jobs == 1 or len(tasks) <= 1:
        for fn, a in tasks:
            results.append(_call(fn, a))
    else:
        ctx = mp.get_context("fork")
        with ctx.Pool(jobs, maxtasksperchild=1) as pool:  # a fresh fork per task: the solver state no longer depends on scheduling
            asyncs = [pool.apply_async(_call, (fn, a)) for fn, a in tasks]
            for (fn, a), r in zip(tasks, asyncs):
                try:
                    results.append(r.get(timeout=900 if tier == "quick" else 5400))
                except Exception as e:
                    results.append({"function": str(a[0]), "status": "crash", "msg": "%s: %s" % (type(e).__name__, e),
                                    "obligations": {}, "failures": []})
    return summarize(pid, tier, seed, merge_shards(results), time.time() - t0)


def merge_native_shards(results):
    """several runs of one random bounded check (different seeds): cases add up, violations and errors are kept"""
    out, by_name = [], {}
    for r in results:
        if r.get("kind") != "bounded" or r["name"] not in by_name:
            if r.get("kind") == "bounded":
                by_name[r["name"]] = r
                r["_runs"] = 1
            out.append(r)
            continue
        m = by_name[r["name"]]
        m["_runs"] += 1
        m["cases"] = (m.get("cases") or 0) + (r.get("cases") or 0)
        m["wall_s"] = round(max(m.get("wall_s", 0), r.get("wall_s", 0)), 3)
        m["violations"] = (m.get("violations") or []) + (r.get("violations") or [])
        if "error" in r and "error" not in m:
            m["error"], m["tb"] = r["error"], r.get("tb", "")
        for k_ in ("known_reproduced",):
            if r.get(k_):
                m[k_] = sorted(set((m.get(k_) or []) + r[k_]))
    for m in by_name.values():
        if m.get("_runs", 1) > 1:
            m["bound"] = "%s x %d independent runs" % (m.get("bound"), m["_runs"])
            # the same known finding replayed by every run is one line
            seen, vs = set(), []
            for v in m.get("violations") or []:
                key = json.dumps(v.get("inputs"), sort_keys=True, default=str)
                if key not in seen:
                    seen.add(key)
                    vs.append(v)
            m["violations"] = vs
    return out


def merge_shards(results):
    results = merge_native_shards(results)
    out = []
    by_fn = {}
    for r in results:
        fn = r.get("function")
        if fn is None or r.get("kind") in ("finite", "bounded") or fn not in by_fn:
            if fn is not None and r.get("kind") not in ("finite", "bounded"):
                by_fn[fn] = r
            out.append(r)
            continue
        m = by_fn[fn]
        if r.get("status") not in ("ok", None) and m.get("status") == "ok":
            m["status"], m["msg"] = r["status"], r.get("msg", "")
        for name, o in r.get("obligations", {}).items():
            if name not in m["obligations"]:
                m["obligations"][name] = o
            else:
                mo = m["obligations"][name]
                mo["vcs"] += o["vcs"]
                for b, k in o["backend"].items():
                    mo["backend"][b] = mo["backend"].get(b, 0) + k
                rank = {"discharged": 0, "undecided": 1, "failed": 2}
                if rank[o["status"]] > rank[mo["status"]]:
                    mo["status"] = o["status"]
        seen = {f["obligation"] for f in m.get("failures", [])}
        for f in r.get("failures", []):
            if f["obligation"] not in seen:
                m["failures"].append(f)
        m["solver_s"] = m.get("solver_s", 0) + r.get("solver_s", 0)
        if r.get("slowest") and (not m.get("slowest") or r["slowest"]["s"] > m["slowest"]["s"]):
            m["slowest"] = r["slowest"]
        m["wall_s"] = max(m.get("wall_s", 0) or 0, r.get("wall_s", 0) or 0)
        m["samples"] = (m.get("samples") or []) + (r.get("samples") or [])
    return out


def _call(fn, a):
    try:
        return fn(a)
    except Exception as e:
        return {"function": str(a[0] if fn is not run_native_entry else a[1]), "status": "crash",
                "msg": "%s: %s\n%s" % (type(e).__name__, e, traceback.format_exc()[-1500:]),
                "obligations": {}, "failures": []}


def summarize(pid, tier, seed, results, wall):
    known = load_known()
    exit_code = 0
    lines = []
    n_obl = n_dis = 0
    by_backend = {}
    functions = []
    trusted = []
    unsupported = []
    bounded = []
    finite = []
    assumptions = set()
    trusted_base = set()
    samples = []
    violations = 0
    solver_s = 0.0
    slowest = {"name": None, "s": 0.0}
    canaries = 0
    native_evals = 0
    rdir = os.path.join(VERIF, "replays", pid)
    os.makedirs(rdir, exist_ok=True)
    for old in glob.glob(os.path.join(rdir, "*.json")):
        os.unlink(old)

    def bump(code):
        nonlocal exit_code
        # precedence: 1 (violation) > 3 (crash) > 2 (undecided) > 0
        order = {0: 0, 2: 1, 3: 2, 1: 3}
        if order[code] > order[exit_code]:
            exit_code = code

    for r in results:
        if r.get("kind") in ("finite", "bounded"):
            tgt = finite if r["kind"] == "finite" else bounded
            entry = {k: r.get(k) for k in ("name", "note", "bound", "cases", "exhaustive", "wall_s", "nontrivial")}
            tgt.append(entry)
            if "error" in r:
                lines.append("CHECKER-ERROR property=%s native check %s: %s" % (pid, r["name"], r["error"]))
                sys.stderr.write(r.get("tb", "") + "\n")
                bump(3)
                continue
            if r["kind"] == "finite":
                n_obl += r.get("obligations", 1)
                n_dis += r.get("discharged", 0)
                by_backend["finite-domain"] = by_backend.get("finite-domain", 0) + r.get("discharged", 0)
            for s_ in r.get("samples", [])[:2]:
                samples.append({"check": r["name"], "case": s_})
            for v in r.get("violations", []):
                kf = match_known(known, pid, r["name"], v)
                if kf:
                    lines.append("KNOWN-FINDING: property=%s %s" % (pid, kf["what"]))
                    continue
                path = write_replay(pid, v.get("obligation") or r["name"], {"property": pid, "check": r["name"], "kind": r["kind"],
                                                     "obligation": v.get("obligation", r["name"]),
                                                     "inputs": v.get("inputs"), "observed": v.get("observed"),
                                                     "required": v.get("required"), "replay_call": v.get("replay_call")})
                if v.get("undecided"):
                    lines.append("UNDECIDED property=%s obligation=%s %s" % (pid, v.get("obligation"), v.get("observed")))
                    bump(2)
                    continue
                lines.append("VIOLATION property=%s replay=%s%s" % (pid, path, "" if v.get("inputs") else " no-failing-input-found"))
                violations += 1
                bump(1)
            for kf in r.get("known_reproduced", []):
                lines.append("KNOWN-FINDING: property=%s %s" % (pid, kf))
            continue
        fq = r["function"]
        st = r["status"]
        if st == "crash":
            lines.append("CHECKER-ERROR property=%s function=%s %s" % (pid, fq, r["msg"]))
            bump(3)
            continue
        if st == "missing":
            lines.append("UNDECIDED property=%s function=%s contract no longer applies: %s" % (pid, fq, r["msg"]))
            bump(2)
            continue
        if st == "trusted":
            trusted.append(fq)
            continue
        if st == "unsupported":
            unsupported.append({"function": fq, "reason": r["msg"]})
            lines.append("UNDECIDED property=%s function=%s outside the verified subset: %s" % (pid, fq, r["msg"]))
            bump(2)
            natu = r.get("native") or {}
            native_evals += natu.get("valid", 0) or 0
            if natu.get("violation"):
                v = natu["violation"]
                if match_known(known, pid, fq, {"inputs": v["inputs"], "obligation": fq}):
                    continue
                name = fq.split(":")[1] + ".contract_on_real_function"
                path = write_replay(pid, name, {"property": pid, "function": fq, "inputs": v["inputs"], "native_failed": v["failed"],
                                                "gen_replay": v.get("gen_replay"), "obligation": name,
                                                "from": "the function is outside the verified subset; its contract, evaluated on the real function, fails on this input"})
                lines.append("VIOLATION property=%s replay=%s" % (pid, path))
                violations += 1
                bump(1)
            continue
        if r.get("fingerprint"):
            functions.append(r["fingerprint"])
        solver_s += r.get("solver_s", 0)
        if r.get("slowest") and r["slowest"]["s"] > slowest["s"]:
            slowest = r["slowest"]
        for a in r.get("assumptions", []):
            assumptions.add(a)
        for a in r.get("trusted_axioms", []):
            trusted_base.add(a)
        # callees used through an ASSUMED contract (trusted=True in the sidecar, body not verified), whatever property they are filed under
        for cq in r.get("callees", []):
            cc = api.REG.get(cq)
            if cc is not None and cc.trusted:
                name = cq.split(":", 1)[-1]
                if name not in trusted:
                    trusted.append(name)
        samples += [dict(s_, function=fq) for s_ in r.get("samples", [])][:1]
        nobl = len(r["obligations"])
        if st == "ok" and nobl == 0:
            lines.append("CHECKER-ERROR property=%s function=%s generated zero obligations" % (pid, fq))
            bump(3)
        n_obl += nobl
        for name, o in r["obligations"].items():
            if o["status"] == "discharged":
                n_dis += 1
            for b, k in o["backend"].items():
                by_backend[b] = by_backend.get(b, 0) + k
        if r.get("presat") == "unsat":
            lines.append("CHECKER-ERROR property=%s function=%s precondition is unsatisfiable (vacuous contract)" % (pid, fq))
            bump(3)
        if r.get("canary") == "VACUOUS":
            lines.append("CHECKER-ERROR property=%s function=%s canary postcondition verified (vacuous VC)" % (pid, fq))
            bump(3)
        elif r.get("canary") == "refuted":
            canaries += 1
        nat = r.get("native") or {}
        native_evals += nat.get("valid", 0) or 0
        if nat.get("error"):
            lines.append("CHECKER-ERROR property=%s function=%s native harness: %s" % (pid, fq, nat["error"]))
            sys.stderr.write(nat.get("tb", "") + "\n")
            bump(3)
        for f in r["failures"]:
            kf = match_known(known, pid, fq, f)
            if kf:
                lines.append("KNOWN-FINDING: property=%s %s" % (pid, kf["what"]))
                continue
            if f["replayed"]:
                path = write_replay(pid, f["obligation"], dict(f, property=pid, function=fq))
                lines.append("VIOLATION property=%s replay=%s" % (pid, path))
                violations += 1
                bump(1)
            elif f["solver"] == "sat" and f.get("was_discharged_in_lock"):
                path = write_replay(pid, f["obligation"], dict(f, property=pid, function=fq,
                                                               note="obligation discharged on the unchanged tree now refuted by the solver; no native witness found"))
                lines.append("VIOLATION property=%s replay=%s no-failing-input-found" % (pid, path))
                violations += 1
                bump(1)
            else:
                lines.append("UNDECIDED property=%s obligation=%s solver=%s (%s)" % (pid, f["obligation"], f["solver"], f["info"]))
                bump(2)
        if nat.get("violation") and not r["failures"]:
            v = nat["violation"]
            kf = match_known(known, pid, fq, {"inputs": v["inputs"], "obligation": fq})
            if kf:
                lines.append("KNOWN-FINDING: property=%s %s" % (pid, kf["what"]))
            elif st == "bounded":
                path = write_replay(pid, r["function"].split(":")[1] + ".bounded",
                                    {"property": pid, "function": fq, "inputs": v["inputs"], "native_failed": v["failed"],
                                     "gen_replay": v.get("gen_replay"),
                                     "obligation": fq.split(":")[1] + ".bounded"})
                lines.append("VIOLATION property=%s replay=%s" % (pid, path))
                violations += 1
                bump(1)
            else:
                lines.append("CHECKER-ERROR property=%s function=%s all obligations discharged but the native contract "
                             "check fails on %s: %s (engine/contract disagreement)" % (pid, fq, v["inputs"], v["failed"]))
                bump(3)
        if st == "bounded":
            bounded.append({"name": fq, "note": "contract checked natively only (random small scope)",
                            "cases": nat.get("valid", 0)})
    # known findings that must still reproduce
    for kf in known.get("findings", []):
        if kf["property"] == pid and kf.get("standalone"):
            pass
    evidence = {
        "property_id": pid, "tier": tier, "seed": seed, "level": "proof",
        "coverage": {
            "obligations": n_obl, "discharged": n_dis,
            "checker_cmd": "./vcheck %s --tier %s" % (pid, tier),
            "trusted_base": sorted(trusted_base) + ["z3 %s / cvc5 1.0.3" % _z3v(), "pyvc VC generator (this repository, /verif/pyvc)",
                                                   "CPython ast module"] + ["assumed contract (body not verified): " + t for t in trusted],
            "samples": samples[:6],
            "by_backend": by_backend, "solver_s": round(solver_s, 2), "slowest": slowest,
            "functions": functions, "canaries_refuted": canaries,
            "bounded": bounded, "finite_domain": finite, "unsupported": unsupported,
            "native_contract_evaluations": native_evals,
        },
        "assumptions": sorted(assumptions) + STANDING_ASSUMPTIONS,
        "wall_s": round(wall, 2), "violations": violations,
    }
    try:
        mm = json.load(open(os.path.join(VERIF, "manifest_meta.json")))["claimed"].get(pid, {})
        if mm.get("category") == "other":
            evidence["level"] = "other"
            evidence["coverage"]["explanation"] = mm["text"]
    except Exception:
        pass
    if n_obl == 0:
        lines.append("CHECKER-ERROR property=%s zero obligations generated" % pid)
        bump(3)
        evidence["coverage"]["obligations"] = 0
    os.makedirs(os.path.join(VERIF, "evidence"), exist_ok=True)
    json.dump(evidence, open(os.path.join(VERIF, "evidence", pid + ".json"), "w"), indent=1, default=str)
    return exit_code, lines, evidence, results


STANDING_ASSUMPTIONS = [
    "Python ints are mathematical integers (exact); floats are treated as mathematical reals",
    "distinct parameters do not alias unless the contract says so; object shapes as declared in the sidecar",
    "logger.* and print have no effect on program state",
    "iteration order of sets / dict keys is arbitrary (proved for every order)",
]


def _z3v():
    import z3
    return z3.get_version_string()


def match_known(known, pid, where, f):
    for kf in known.get("findings", []):
        if kf["property"] != pid:
            continue
        if kf.get("where") and kf["where"] not in where and kf["where"] not in str(f.get("obligation", "")):
            continue
        if kf.get("obligation") and kf["obligation"] != f.get("obligation"):
            continue
        if kf.get("class_fn"):
            try:
                mod, fn = kf["class_fn"].split(":")
                inputs = ast.literal_eval(f["inputs"]) if isinstance(f.get("inputs"), str) else f.get("inputs")
                if not getattr(importlib.import_module(mod), fn)(inputs):
                    continue
            except Exception:
                continue
        cls = kf.get("class")
        if cls:
            try:
                inputs = ast.literal_eval(f["inputs"]) if isinstance(f.get("inputs"), str) else f.get("inputs")
                env = native.native_env()
                env.update(native.to_real(inputs) if isinstance(inputs, dict) else {"inputs": inputs})
                if not eval(cls, env):
                    continue
            except Exception:
                continue
        return kf
    return None


def write_replay(pid, name, payload):
    safe = name.replace("/", "_").replace(":", "_")
    path = os.path.join(VERIF, "replays", pid, safe + ".json")
    json.dump(payload, open(path, "w"), indent=1, default=str)
    return path


def replay(path):
    load_contracts()
    d = json.load(open(path))
    print("replay of", d.get("obligation"), "for property", d.get("property"))
    if d.get("replay_call"):
        mod, fn = d["replay_call"].split(":")
        m = importlib.import_module(mod)
        ok, msg = getattr(m, fn)(d)
        print(msg)
        return 0 if ok else 1
    if d.get("function") and d.get("inputs") and d["function"] in api.REG:
        c = api.REG[d["function"]]
        if d.get("gen_replay") and c.extract and not c.native:
            native.NS_RECORDS[0] = True
            argmap = native.regenerate(c, d["gen_replay"]["seed"], d["gen_replay"]["index"])
            o = native.check_native(c, argmap, fn=native.extracted_callable(c))
            print("(replayed on the extracted function text)")
        elif d.get("gen_replay"):
            argmap = native.regenerate(c, d["gen_replay"]["seed"], d["gen_replay"]["index"])
            o = native.check_native(c, argmap)
        elif c.extract and not c.native:
            # replay on the mechanically extracted text of the real function (what the violated obligation was generated from)
            native.NS_RECORDS[0] = True
            argmap = native.to_real(ast.literal_eval(d["inputs"]))
            o = native.check_native(c, argmap, fn=native.extracted_callable(c))
            print("(replayed on the extracted function text)")
        else:
            argmap = native.to_real(ast.literal_eval(d["inputs"]))
            o = native.check_native(c, argmap)
        print("inputs:", argmap)
        print("precondition holds:", o.pre_ok, "| raised:", repr(o.raised), "| result:", repr(o.result)[:300])
        print("violated clauses:", o.failed)
        return 1 if o.violates else 0
    print("no concrete input recorded (no-failing-input-found); solver output / obligation:", d.get("info"))
    return 1


def write_lock(pids):
    load_contracts()
    lock = {}
    for pid in pids:
        code, lines, ev, results = check_property(pid, "quick", 0)
        for r in results:
            if "obligations" in r and r.get("function") and r["obligations"]:
                lock.setdefault(r["function"], {})
                for name, o in r["obligations"].items():
                    lock[r["function"]][name] = o["status"]
    json.dump(lock, open(LOCK_PATH, "w"), indent=0, sort_keys=True)
    print("lock written: %d functions, %d obligations" % (len(lock), sum(len(v) for v in lock.values())))


def main(argv):
    import warnings
    warnings.simplefilter("ignore")
    if not argv:
        print(__doc__)
        return 3
    cmd = argv[0]
    if cmd == "replay":
        return replay(argv[1])
    if cmd == "list":
        load_contracts()
        for q, c in api.REG.items():
            print(",".join(c.props), q, "trusted" if c.trusted else ("transparent" if c.transparent else ""))
        return 0
    tier = os.environ.get("VERIF_TIER", "quick")
    seed = int(os.environ.get("VERIF_SEED", "0"))
    only = None
    verbose = False
    jobs = None
    rest = argv[1:]
    while rest:
        a = rest.pop(0)
        if a == "--tier":
            tier = rest.pop(0)
        elif a == "--only":
            only = rest.pop(0)
        elif a == "-v":
            verbose = True
        elif a == "-j":
            jobs = int(rest.pop(0))
    if cmd == "lock":
        load_contracts()
        pids = sorted({p for c in api.REG.values() for p in c.props} | {p for l in api.LEMMAS.values() for p in l.props})
        write_lock(pids)
        return 0
    pid = cmd
    try:
        code, lines, ev, results = check_property(pid, tier, seed, jobs, only)
    except Exception as e:
        traceback.print_exc()
        print("CHECKER-ERROR property=%s %s: %s" % (pid, type(e).__name__, e))
        return 3
    if verbose:
        for r in results:
            if "obligations" in r and r.get("function"):
                bad = {k: v["status"] for k, v in r["obligations"].items() if v["status"] != "discharged"}
                print("  %-70s %-11s obl=%-3d paths=%-3s %5.1fs %s %s" % (
                    r["function"], r["status"], len(r["obligations"]), r.get("paths", ""), r.get("wall_s", 0) or 0,
                    ("canary=" + str(r.get("canary"))) if r.get("canary") else "", bad or r.get("msg", "")))
                for f in r.get("failures", []):
                    print("      FAIL", f["obligation"], f["solver"], "replayed=%s" % f["replayed"], f.get("inputs"),
                          f.get("native_failed"), f.get("model_error", ""), f.get("search", ""))
                if (r.get("native") or {}).get("violation"):
                    print("      NATIVE", r["native"]["violation"])
            elif r.get("kind"):
                print("  %-70s %-8s cases=%s %s" % (r["name"], r["kind"], r.get("cases"), r.get("error", "")))
    seen_l = set()
    for l in lines:
        if l not in seen_l:
            print(l)
        seen_l.add(l)
    c = ev["coverage"]
    print("property %s tier=%s: %d/%d obligations discharged, %d functions, %d bounded, %d finite-domain, %.1fs -> exit %d"
          % (pid, tier, c["discharged"], c["obligations"], len(c["functions"]), len(c["bounded"]), len(c["finite_domain"]),
             ev["wall_s"], code))
    return code


if __name__ == "__main__":
    sys.exit(main(sys.argv[1:]))
