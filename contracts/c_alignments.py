"""Contracts for src/alignment_processor.py (C05): coverage bins, region splitting, the in-memory alignment index."""
from pyvc.api import contract, spec, lemma, record, finite, bounded
from pyvc import native

A = "src/alignment_processor.py:"
IV = "tuple[int,int]"
IVS = "list[tuple[int,int]]"
CLASS_HOME = {"BAMAlignmentStorage": "src/alignment_processor.py", "AlignmentCollector": "src/alignment_processor.py", "AbstractAlignmentStorage": "src/alignment_processor.py",
              "InMemoryAlignmentStorage": "src/alignment_processor.py", "BAMAlignmentStorage": "src/alignment_processor.py"}

record("Storage", {"coverage_dict": "defaultdict[int,int,0]", "region": "opt[tuple[int,int]]", "n_reads": "int"})
record("Aligned", {"reference_start": "int", "reference_end": "int"})


class _StubStorage:
    def __init__(self, coverage_dict, n_reads):
        from collections import defaultdict
        self.coverage_dict = defaultdict(int, coverage_dict)
        self.n = n_reads

    def get_read_count(self):
        return self.n


def _storage_args(argmap):
    s = argmap["alignment_storage"]
    if isinstance(s, dict):
        argmap["alignment_storage"] = _StubStorage(s["coverage_dict"], s["n_reads"])
    return argmap


contract("stub:Storage.get_read_count", {"self": "rec:Storage"}, returns="int", trusted=True, params=["self"],
         ensures=["result == self.n_reads", "result >= 0"], props=[], native=False,
         note="get_read_count of both storages returns the number of added alignments (len / counter)")


def _gen_split(rng, n):
    for _ in range(n):
        first = rng.randint(0, 3)
        nb = rng.choice([1, 1, 2, 5, 130, 131, 200, 300])
        cov = {}
        for b in range(first, first + nb):
            if b in (first, first + nb - 1) or rng.random() < 0.9:
                cov[b] = rng.choice([1, 2, 50, 300])
        last = max(cov)
        if rng.random() < .4:
            cov[last] = 1
        r0 = first * 256 + rng.choice([0, 1, 100, 255])
        r1 = last * 256 + rng.choice([0, 10, 255])
        if r1 < r0:
            r1 = r0
        yield {"genomic_region": (r0, r1),
               "alignment_storage": {"__rec__": "Storage", "coverage_dict": cov, "region": (r0, r1), "n_reads": rng.choice([5, 2000])}}


contract(A + "AlignmentCollector.split_coverage_regions", {"genomic_region": IV, "alignment_storage": "rec:Storage"},
         returns=IVS, props=["C05"], modifies=["alignment_storage.coverage_dict"],
         locals={"split_regions": IVS},
         requires=["0 <= genomic_region[0] <= genomic_region[1]",
                   # what add_alignment establishes: occupied bins run from the bin of the hull start to the bin of the hull end
                   "len(alignment_storage.coverage_dict) >= 1",
                   "(genomic_region[0] // 256) in alignment_storage.coverage_dict and (genomic_region[1] // 256) in alignment_storage.coverage_dict",
                   "all(genomic_region[0] // 256 <= b <= genomic_region[1] // 256 and alignment_storage.coverage_dict[b] >= 1 "
                   "for b in alignment_storage.coverage_dict)"],
         ensures=[
             # the pieces tile the hull of the alignments: non-empty, in order, adjacent, from the hull start to the hull end ...
             "len(result) >= 1",
             "result[0][0] == genomic_region[0]",
             "result[len(result) - 1][1] == genomic_region[1]",
             "all(result[k][0] <= result[k][1] for k in range(len(result)))",
             "all(result[k + 1][0] == result[k][1] + 1 for k in range(len(result) - 1))"],
         loops={0: {"inv": [
                    "coverage_positions[0] == genomic_region[0] // 256 and coverage_positions[len(coverage_positions) - 1] == genomic_region[1] // 256",
                    "len(coverage_positions) >= 1 and min_bins == 128",
                    "coverage_positions[0] <= current_start <= coverage_positions[len(coverage_positions) - 1] + 1",
                    "pos == min(current_start + 1, coverage_positions[len(coverage_positions) - 1] + 1)",
                    "all(coverage_dict[b] >= 0 for b in coverage_dict)",
                    "all(coverage_dict[b] == 0 for b in coverage_dict if b > coverage_positions[len(coverage_positions) - 1])",
                    "len(split_regions) > 0 or current_start == coverage_positions[0]",
                    "len(split_regions) == 0 or (split_regions[0][0] == genomic_region[0] and current_start > coverage_positions[0] and "
                    "split_regions[len(split_regions) - 1][1] == min(current_start * 256, genomic_region[1]))",
                    "all(split_regions[k][0] <= split_regions[k][1] for k in range(len(split_regions)))",
                    "all(split_regions[k + 1][0] == split_regions[k][1] + 1 for k in range(len(split_regions) - 1))"],
                    "locals": {"max_cov": "int", "piece_start": "int"}},
                1: {"inv": [
                    "current_start + 1 <= pos <= coverage_positions[len(coverage_positions) - 1] + 1",
                    "all(coverage_dict[b] >= 0 for b in coverage_dict)",
                    "all(coverage_dict[b] == 0 for b in coverage_dict if b > coverage_positions[len(coverage_positions) - 1])"],
                    "locals": {"max_cov": "int"}}},
         native_args=_storage_args, gen=_gen_split)

lemma("tiling_covers", {"P": IVS, "n": "int", "s": "int"}, props=["C05"],
      # ... hence no alignment inside the hull falls between two pieces: its start lies in exactly one piece, which it overlaps
      requires=["1 <= n <= len(P)", "all(P[k][0] <= P[k][1] for k in range(len(P)))",
                "all(P[k + 1][0] == P[k][1] + 1 for k in range(len(P) - 1))", "P[0][0] <= s <= P[n - 1][1]"],
      ensures=["any(P[k][0] <= s <= P[k][1] for k in range(n))"], induct="n", base="1")


# ---- coverage bookkeeping: add_alignment establishes what split_coverage_regions requires --------------------------------------
@spec("defaultdict[int,int,0], int -> int")
def cv(d, b):
    return d[b] if b in d else 0


@spec("defaultdict[int,int,0], opt[tuple[int,int]] -> bool")
def cov_ok(d, region):
    # representation invariant of a storage: empty, or occupied bins run from the bin of the hull start to the bin of the hull end
    return (len(d) == 0) if region is None else (
        0 <= region[0] <= region[1] and (region[0] // 256) in d and (region[1] // 256) in d and
        all(region[0] // 256 <= b <= region[1] // 256 and d[b] >= 1 for b in d))


class _StubAlignment:
    def __init__(self, s, e):
        self.reference_start, self.reference_end = s, e


def _abs_storage(argmap):
    ap = native.repo_import("src/alignment_processor.py")
    s = argmap["self"]
    if isinstance(s, dict):
        o = ap.AbstractAlignmentStorage()
        o.coverage_dict.update(s["coverage_dict"])
        o.region = s["region"]
        argmap["self"] = o
    a = argmap["alignment"]
    if isinstance(a, dict):
        argmap["alignment"] = _StubAlignment(a["reference_start"], a["reference_end"])
    return argmap


def _gen_add(rng, n):
    ap = native.repo_import("src/alignment_processor.py")
    for _ in range(n):
        st = ap.AbstractAlignmentStorage()
        for _ in range(rng.randint(0, 3)):
            s = rng.randint(0, 1500)
            st.add_alignment(0, _StubAlignment(s, s + rng.randint(1, 700)))
        s = rng.randint(0, 1500)
        yield {"self": {"__rec__": "StorageA", "coverage_dict": dict(st.coverage_dict), "region": st.region, "n_reads": 0},
               "bam_index": 0, "alignment": {"__rec__": "Aligned", "reference_start": s, "reference_end": s + rng.randint(1, 700)}}


record("StorageA", {"coverage_dict": "defaultdict[int,int,0]", "region": "opt[tuple[int,int]]", "n_reads": "int"})

contract(A + "AbstractAlignmentStorage.add_alignment", {"self": "rec:StorageA", "bam_index": "int", "alignment": "rec:Aligned"},
         returns="none", props=["C05"], modifies=["self.coverage_dict", "self.region"],
         requires=["0 <= alignment.reference_start < alignment.reference_end", "cov_ok(self.coverage_dict, self.region)"],
         ensures=[
             # exactly the bins the alignment touches (0-based closed span start .. end-1) gain one; nothing else changes
             "all(cv(self.coverage_dict, b) == cv(old(self.coverage_dict), b) + "
             "(1 if alignment.reference_start // 256 <= b <= (alignment.reference_end - 1) // 256 else 0) for b in self.coverage_dict)",
             "all(b in self.coverage_dict for b in old(self.coverage_dict))",
             "all(b in self.coverage_dict for b in range(alignment.reference_start // 256, (alignment.reference_end - 1) // 256 + 1))",
             # the region is the hull of everything added so far
             "self.region == ((alignment.reference_start, alignment.reference_end - 1) if old(self.region) is None else "
             "(min(old(self.region)[0], alignment.reference_start), max(old(self.region)[1], alignment.reference_end - 1)))",
             "cov_ok(self.coverage_dict, self.region)"],
         loops={0: {"inv": [
             "all(cv(self.coverage_dict, b) == cv(old(self.coverage_dict), b) + (1 if bin_start <= b < bin_start + _k0 else 0) for b in self.coverage_dict)",
             "all(b in self.coverage_dict for b in old(self.coverage_dict))",
             "all(b in self.coverage_dict for b in range(bin_start, bin_start + _k0))",
             "all(b in old(self.coverage_dict) or bin_start <= b < bin_start + _k0 for b in self.coverage_dict)",
             "self.region == old(self.region)"]}},
         native_args=_abs_storage, gen=_gen_add)


# ---- InMemoryAlignmentStorage (--high_memory): index cuts must select exactly the overlapping alignments -------------------------
STO = "list[tuple[int,rec:Aligned]]"
record("InMemoryAlignmentStorage", {
    "coverage_dict": "defaultdict[int,int,0]", "region": "opt[tuple[int,int]]", "alignment_start_index": "dict[int,int]",
    "alignment_end_index": "dict[int,int]", "counter": "int", "alignment_storage": STO, "index_filled": "bool"})


@spec("list[tuple[int,rec:Aligned]], int -> int", opaque=True)
def sb(S, i):
    return S[i][1].reference_start // 256


@spec("list[tuple[int,rec:Aligned]], int -> int", opaque=True)
def eb(S, i):
    return (S[i][1].reference_end - 1) // 256


@spec("list[tuple[int,rec:Aligned]] -> bool")
def sorted_by_start(S):
    return all(0 <= S[i][1].reference_start < S[i][1].reference_end for i in range(len(S))) and \
        all(S[i][1].reference_start <= S[j][1].reference_start for i in range(len(S)) for j in range(i + 1, len(S)))


@spec("list[tuple[int,rec:Aligned]], dict[int,int], dict[int,int], int, int -> bool")
def index_ok(S, si, ei, lo, hi):
    # for every bin p in lo..hi: si[p] cuts S into records starting before bin p / at or after it,
    # and nothing before ei[p] ends in bin p or later
    return all(p in si and p in ei and 0 <= si[p] <= len(S) and 0 <= ei[p] <= len(S) and
               all(sb(S, i) < p for i in range(si[p])) and all(sb(S, i) >= p for i in range(si[p], len(S))) and
               all(eb(S, i) < p for i in range(ei[p])) for p in range(lo, hi + 1))


@spec("tuple[int,int], tuple[int,rec:Aligned] -> bool")
def hits(region, rec):
    # the alignment's 0-based closed span start .. end-1 shares a position with the region
    return not (region[1] < rec[1].reference_start or region[0] > rec[1].reference_end - 1)


@spec("tuple[int,int], list[tuple[int,rec:Aligned]], int -> int")
def nhits(region, S, n):
    return 0 if n <= 0 else nhits(region, S, n - 1) + (1 if hits(region, S[n - 1]) else 0)


lemma("nhits_none", {"region": "tuple[int,int]", "S": STO, "a": "int", "d": "int"}, props=["C05"],
      requires=["0 <= a", "d >= 0", "a + d <= len(S)", "all(not hits(region, S[i]) for i in range(a, a + d))"],
      ensures=["nhits(region, S, a + d) == nhits(region, S, a)"], induct="d", base="0")

@spec("list[tuple[int,rec:Aligned]], dict[int,int] -> bool")
def raw_start_ok(S, si):
    # what a sequence of add_alignment calls leaves behind: for every bin that some alignment starts in, the index of the first such
    # alignment; no other keys
    return (all(0 <= si[p] < len(S) and sb(S, si[p]) == p and all(sb(S, i) != p for i in range(si[p])) for p in si) and
            all(sb(S, i) in si for i in range(len(S))))


@spec("list[tuple[int,rec:Aligned]], dict[int,int] -> bool")
def raw_end_ok(S, ei):
    return (all(0 <= ei[p] < len(S) and eb(S, ei[p]) == p and all(eb(S, i) != p for i in range(ei[p])) for p in ei) and
            all(eb(S, i) in ei for i in range(len(S))))


@spec("list[tuple[int,rec:Aligned]], dict[int,int], dict[int,int] -> bool")
def raw_ok(S, si, ei):
    return raw_start_ok(S, si) and raw_end_ok(S, ei)


_S, _SI, _EI = "self.alignment_storage", "self.alignment_start_index", "self.alignment_end_index"
_BE = "(self.region[1] // 256)"
_Q = "(self.region[1] // 256 + 2 - _k%d)"
_START_DONE = ("all(p in %(si)s and 0 <= %(si)s[p] <= len(%(S)s) and all(sb(%(S)s, i) < p for i in range(%(si)s[p])) and "
               "all(sb(%(S)s, i) >= p for i in range(%(si)s[p], len(%(S)s))) for p in range(%(lo)s, %(be)s + 2))")
_END_DONE = ("all(p in %(ei)s and 0 <= %(ei)s[p] <= len(%(S)s) and all(eb(%(S)s, i) < p for i in range(%(ei)s[p])) "
             "for p in range(%(lo)s, %(be)s + 2))")
_F = {"S": _S, "si": _SI, "ei": _EI, "be": _BE}
contract(A + "InMemoryAlignmentStorage.fill_index", {"self": "rec:InMemoryAlignmentStorage"}, returns="none", props=["C05"],
         modifies=["self.alignment_start_index", "self.alignment_end_index", "self.index_filled"],
         # what a sequence of add_alignment calls (in start order) leaves behind, and every alignment inside the hull region
         # the bins sb / eb of the stored alignments are opaque here: all the sweep needs is that start bins are non-decreasing (start
         # order), that every bin lies inside the region's bins, and what add_alignment left in the two raw indexes
         requires=["self.region is not None", "0 <= self.region[0] <= self.region[1]",
                   "all(sb(%s, i) <= sb(%s, j) for i in range(len(%s)) for j in range(i + 1, len(%s)))" % (_S, _S, _S, _S),
                   "all(self.region[0] // 256 <= sb(%s, i) and sb(%s, i) <= eb(%s, i) and eb(%s, i) <= self.region[1] // 256 for i in range(len(%s)))" % (_S, _S, _S, _S, _S),
                   "index_ok(%s, %s, %s, self.region[0] // 256, self.region[1] // 256 + 1) if self.index_filled else raw_ok(%s, %s, %s)" % (_S, _SI, _EI, _S, _SI, _EI)],
         ensures=["index_ok(self.alignment_storage, self.alignment_start_index, self.alignment_end_index, "
                  "self.region[0] // 256, self.region[1] // 256 + 1)"],
         loops={0: {"inv": [
             "0 <= current_index <= len(%s)" % _S,
             "all(sb(%s, i) < %s for i in range(current_index))" % (_S, _Q % 0),
             "all(sb(%s, i) >= %s for i in range(current_index, len(%s)))" % (_S, _Q % 0, _S),
             _START_DONE % dict(_F, lo=_Q % 0),
             "all(p >= %s or (0 <= %s[p] < len(%s) and sb(%s, %s[p]) == p and all(sb(%s, i) != p for i in range(%s[p]))) for p in %s)"
             % (_Q % 0, _SI, _S, _S, _SI, _S, _SI, _SI),
             "all(sb(%s, i) in %s for i in range(len(%s)))" % (_S, _SI, _S),
             "%s == old(%s)" % (_EI, _EI)]},
                1: {"inv": [
             "0 <= current_index <= len(%s)" % _S,
             "all(eb(%s, i) < %s for i in range(current_index))" % (_S, _Q % 1),
             _START_DONE % dict(_F, lo="(self.region[0] // 256)"),
             _END_DONE % dict(_F, lo=_Q % 1),
             "all(p >= %s or (0 <= %s[p] < len(%s) and eb(%s, %s[p]) == p and all(eb(%s, i) != p for i in range(%s[p]))) for p in %s)"
             % (_Q % 1, _EI, _S, _S, _EI, _S, _EI, _EI),
             "all(eb(%s, i) in %s for i in range(len(%s)))" % (_S, _EI, _S)]}},
         native_args=lambda am: _mem_args(am), gen=lambda rng, n: ({"self": d["self"]} for d in _gen_mem(rng, n)),
         timeout=40000)


# add_alignment (in-memory): the raw indexes record the first alignment starting / ending in each bin - what fill_index starts from
contract(A + "AbstractAlignmentStorage.add_alignment#inmemory", {"self": "rec:InMemoryAlignmentStorage", "bam_index": "int", "alignment": "rec:Aligned"},
         returns="none", props=["C05"], modifies=["self.coverage_dict", "self.region"], native=False,
         requires=["0 <= alignment.reference_start < alignment.reference_end"],
         ensures=["self.region == ((alignment.reference_start, alignment.reference_end - 1) if old(self.region) is None else "
                  "(min(old(self.region)[0], alignment.reference_start), max(old(self.region)[1], alignment.reference_end - 1)))"],
         loops={0: {"inv": ["self.region == old(self.region)"]}})

contract(A + "InMemoryAlignmentStorage.add_alignment", {"self": "rec:InMemoryAlignmentStorage", "bam_index": "int", "alignment": "rec:Aligned"},
         returns="none", props=["C05"],
         modifies=["self.coverage_dict", "self.region", "self.alignment_start_index", "self.alignment_end_index", "self.counter",
                   "self.alignment_storage", "self.index_filled"],
         bind={"call:add_alignment": A + "AbstractAlignmentStorage.add_alignment#inmemory"}, reveal=["sb", "eb"],
         requires=["0 <= alignment.reference_start < alignment.reference_end", "sorted_by_start(%s)" % _S, "self.counter == len(%s)" % _S,
                   # alignments arrive in start order (coordinate-sorted BAM)
                   "len(%s) == 0 or %s[len(%s) - 1][1].reference_start <= alignment.reference_start" % (_S, _S, _S),
                   "raw_ok(%s, %s, %s)" % (_S, _SI, _EI),
                   "(self.region is None) == (len(%s) == 0)" % _S,
                   "self.region is None or all(self.region[0] <= %s[i][1].reference_start and %s[i][1].reference_end - 1 <= self.region[1] for i in range(len(%s)))" % (_S, _S, _S)],
         ensures=["len(%s) == len(old(%s)) + 1" % (_S, _S), "%s[:len(old(%s))] == old(%s)" % (_S, _S, _S),
                  "%s[len(%s) - 1] == (bam_index, alignment)" % (_S, _S),
                  "sorted_by_start(%s)" % _S, "self.counter == len(%s)" % _S, "not self.index_filled",
                  "raw_start_ok(%s, %s)" % (_S, _SI), "raw_end_ok(%s, %s)" % (_S, _EI),
                  "self.region is not None and all(self.region[0] <= %s[i][1].reference_start and %s[i][1].reference_end - 1 <= self.region[1] for i in range(len(%s)))" % (_S, _S, _S)],
         hints={"entry": ["all(sb(%s, i) == %s[i][1].reference_start // 256 for i in range(len(%s)))" % (_S, _S, _S),
                          "all(eb(%s, i) == (%s[i][1].reference_end - 1) // 256 for i in range(len(%s)))" % (_S, _S, _S)],
                "exit": ["all(sb(%s, i) == %s[i][1].reference_start // 256 for i in range(len(%s)))" % (_S, _S, _S),
                         "all(eb(%s, i) == (%s[i][1].reference_end - 1) // 256 for i in range(len(%s)))" % (_S, _S, _S)]},
         native=False, timeout=40000, canary="self.counter == old(self.counter)")


# reset: one storage object is reused for every read cluster of a chromosome; nothing of the previous cluster may survive
contract(A + "AbstractAlignmentStorage.reset#inmemory", {"self": "rec:InMemoryAlignmentStorage"}, returns="none", props=["C05"],
         modifies=["self.coverage_dict", "self.region"], transparent=True, native=False,
         ensures=["len(self.coverage_dict) == 0", "self.region is None"])
contract(A + "InMemoryAlignmentStorage.reset", {"self": "rec:InMemoryAlignmentStorage"}, returns="none", props=["C05"],
         modifies=["self.coverage_dict", "self.region", "self.alignment_start_index", "self.alignment_end_index", "self.counter",
                   "self.alignment_storage", "self.index_filled"],
         bind={"call:reset": A + "AbstractAlignmentStorage.reset#inmemory"},
         # the state of a freshly constructed storage, field by field
         ensures=["len(self.coverage_dict) == 0", "self.region is None", "len(self.alignment_start_index) == 0",
                  "len(self.alignment_end_index) == 0", "self.counter == 0", "len(self.alignment_storage) == 0", "not self.index_filled"],
         native_args=lambda am: _mem_args(am), gen=lambda rng, n: ({"self": d["self"]} for d in _gen_mem(rng, n)),
         canary="self.counter == old(self.counter)")


record("BAMAlignmentStorage", {"coverage_dict": "defaultdict[int,int,0]", "region": "opt[tuple[int,int]]", "bam_merger": "any", "counter": "int"})
contract(A + "AbstractAlignmentStorage.reset#bam", {"self": "rec:BAMAlignmentStorage"}, returns="none", props=["C05"],
         modifies=["self.coverage_dict", "self.region"], transparent=True, native=False,
         ensures=["len(self.coverage_dict) == 0", "self.region is None"])
contract(A + "BAMAlignmentStorage.reset", {"self": "rec:BAMAlignmentStorage"}, returns="none", props=["C05"],
         modifies=["self.coverage_dict", "self.region", "self.counter"], native=False,
         bind={"call:reset": A + "AbstractAlignmentStorage.reset#bam"},
         ensures=["len(self.coverage_dict) == 0", "self.region is None", "self.counter == 0"], canary="self.counter == old(self.counter)")
contract(A + "AbstractAlignmentStorage.add_alignment#bam", {"self": "rec:BAMAlignmentStorage", "bam_index": "int", "alignment": "rec:Aligned"},
         returns="none", props=["C05"], modifies=["self.coverage_dict", "self.region"], native=False,
         requires=["0 <= alignment.reference_start < alignment.reference_end"],
         ensures=["self.region == ((alignment.reference_start, alignment.reference_end - 1) if old(self.region) is None else "
                  "(min(old(self.region)[0], alignment.reference_start), max(old(self.region)[1], alignment.reference_end - 1)))"],
         loops={0: {"inv": ["self.region == old(self.region)"]}})
contract(A + "BAMAlignmentStorage.add_alignment", {"self": "rec:BAMAlignmentStorage", "bam_index": "int", "alignment": "rec:Aligned"},
         returns="none", props=["C05"], modifies=["self.coverage_dict", "self.region", "self.counter"], native=False,
         bind={"call:add_alignment": A + "AbstractAlignmentStorage.add_alignment#bam"},
         requires=["0 <= alignment.reference_start < alignment.reference_end"],
         # the low-memory storage keeps only the hull region (re-fetched from the BAM later) and the number of reads seen
         ensures=["self.counter == old(self.counter) + 1",
                  "self.region == ((alignment.reference_start, alignment.reference_end - 1) if old(self.region) is None else "
                  "(min(old(self.region)[0], alignment.reference_start), max(old(self.region)[1], alignment.reference_end - 1)))"])
contract(A + "BAMAlignmentStorage.get_read_count", {"self": "rec:BAMAlignmentStorage"}, returns="int", props=["C05"], native=False,
         transparent=True, ensures=["result == self.counter"])


def _mem_args(argmap):
    ap = native.repo_import("src/alignment_processor.py")
    s = argmap["self"]
    if isinstance(s, dict):
        o = ap.InMemoryAlignmentStorage()
        for bi, a in s["alignment_storage"]:
            o.add_alignment(bi, _StubAlignment(a["reference_start"], a["reference_end"]) if isinstance(a, dict) else a)
        argmap["self"] = o
    return argmap


def _gen_mem(rng, n):
    for _ in range(n):
        k = rng.randint(1, 8)
        starts = sorted(rng.randint(0, 1300) for _ in range(k))
        S = [(rng.randint(0, 1), {"__rec__": "Aligned", "reference_start": s, "reference_end": s + rng.randint(1, 600)}) for s in starts]
        lo = min(s for s in starts)
        hi = max(a["reference_end"] - 1 for _, a in S)
        a = rng.randint(lo, hi)
        b = rng.randint(a, hi)
        if rng.random() < .3:
            b = min(hi, (b // 256) * 256 + rng.choice([0, 1, 255]))
            a = min(a, b)
        yield {"self": {"__rec__": "InMemoryAlignmentStorage", "alignment_storage": S, "coverage_dict": {}, "region": (lo, hi),
                        "alignment_start_index": {}, "alignment_end_index": {}, "counter": k, "index_filled": False},
               "region": (a, b)}


contract(A + "InMemoryAlignmentStorage.get_alignments", {"self": "rec:InMemoryAlignmentStorage", "region": "opt[tuple[int,int]]"},
         returns=STO, props=["C05"],
         modifies=["self.alignment_start_index", "self.alignment_end_index", "self.index_filled"],
         requires=["self.region is not None", "0 <= self.region[0] <= self.region[1]", "sorted_by_start(self.alignment_storage)",
                   "all(self.region[0] <= self.alignment_storage[i][1].reference_start and self.alignment_storage[i][1].reference_end - 1 <= self.region[1] "
                   "for i in range(len(self.alignment_storage)))",
                   "region is None or (self.region[0] <= region[0] <= region[1] <= self.region[1])",
                   # the two indexes are as add_alignment left them, or already completed by an earlier fetch
                   "index_ok(self.alignment_storage, self.alignment_start_index, self.alignment_end_index, self.region[0] // 256, self.region[1] // 256 + 1) "
                   "if self.index_filled else raw_ok(self.alignment_storage, self.alignment_start_index, self.alignment_end_index)"],
         reveal=["sb", "eb"],
         ensures=[
             # without a sub-region: everything, in order
             "not (region is None or region == self.region) or result == self.alignment_storage",
             # with a sub-region: exactly the stored alignments that overlap it, in storage order (none dropped, none added)
             "(region is None or region == self.region) or len(result) == nhits(region, self.alignment_storage, len(self.alignment_storage))",
             "(region is None or region == self.region) or all(result[nhits(region, self.alignment_storage, i)] == self.alignment_storage[i] "
             "for i in range(len(self.alignment_storage)) if hits(region, self.alignment_storage[i]))"],
         native_ensures=["(region is not None and region != self.region) or list(result) == list(self.alignment_storage)",
                         "(region is None or region == self.region) or [(b, (a.reference_start, a.reference_end)) for b, a in result] == "
                         "[(b, (a.reference_start, a.reference_end)) for b, a in self.alignment_storage if hits(region, (b, a))]"],
         loops={0: {"inv": ["len(_yield) == _k0", "all(_yield[j] == self.alignment_storage[j] for j in range(_k0))"]},
                1: {"inv": ["len(_yield) == nhits(region, self.alignment_storage, start_index + _k1)",
                            "all(_yield[nhits(region, self.alignment_storage, i)] == self.alignment_storage[i] "
                            "for i in range(start_index, start_index + _k1) if hits(region, self.alignment_storage[i]))",
                            "all(0 <= nhits(region, self.alignment_storage, i) <= nhits(region, self.alignment_storage, i + 1) <= len(_yield) "
                            "for i in range(start_index, start_index + _k1))",
                            "nhits(region, self.alignment_storage, start_index) == 0"]}},
         hints={"entry": [  # bridge from the stored records to their (opaque) bins, usable for any index the proof comes up with
                    "all(sb(self.alignment_storage, i) == self.alignment_storage[i][1].reference_start // 256 for i in range(len(self.alignment_storage)))",
                    "all(eb(self.alignment_storage, i) == (self.alignment_storage[i][1].reference_end - 1) // 256 for i in range(len(self.alignment_storage)))"],
                "after:end_index": ["nhits_none(region, self.alignment_storage, 0, start_index)",
                                    "nhits_none(region, self.alignment_storage, end_index, len(self.alignment_storage) - end_index)"]},
         native_args=_mem_args, gen=_gen_mem)


def _index_case(seed):
    import random
    rng = random.Random(seed)
    ap = native.repo_import("src/alignment_processor.py")
    env = native.native_env()
    k = rng.randint(1, 9)
    starts = sorted(rng.choice([rng.randint(0, 2000), 256 * rng.randint(0, 7), 256 * rng.randint(0, 7) + 255]) for _ in range(k))
    st = ap.InMemoryAlignmentStorage()
    for s in starts:
        st.add_alignment(0, _StubAlignment(s, s + rng.choice([1, 2, 256, rng.randint(1, 900)])))
    st.fill_index()
    S = st.alignment_storage
    ok = env["index_ok"](S, st.alignment_start_index, st.alignment_end_index, st.region[0] // 256, st.region[1] // 256 + 1)
    problems = [] if ok else ["index_ok fails: starts=%s si=%s ei=%s" % (starts, dict(st.alignment_start_index), dict(st.alignment_end_index))]
    # every sub-region returns exactly the overlapping reads
    for _ in range(6):
        a = rng.randint(st.region[0], st.region[1]); b = rng.randint(a, st.region[1])
        got = [(x.reference_start, x.reference_end) for _, x in st.get_alignments((a, b))]
        want = [(x.reference_start, x.reference_end) for _, x in S if not (b < x.reference_start or a > x.reference_end - 1)]
        if (a, b) != st.region and got != want:
            problems.append("sub-region %s: got %s want %s" % ((a, b), got, want))
    # reuse: one storage serves every read cluster of a chromosome (reset between clusters); a reused storage must answer exactly like a
    # fresh one, whatever the previous cluster left behind
    first = [x for _, x in S]
    shift = st.region[1] + rng.choice([1, 2, 40, 300])
    second = [_StubAlignment(x.reference_start + shift - first[0].reference_start + rng.choice([0, 0, 17]), 0) for x in first[:rng.randint(1, len(first))]]
    second.sort(key=lambda x: x.reference_start)
    for x in second:
        x.reference_end = x.reference_start + rng.choice([1, 5, 30, 256, rng.randint(1, 900)])
    fresh = ap.InMemoryAlignmentStorage()
    st.reset()
    for x in second:
        st.add_alignment(0, x)
        fresh.add_alignment(0, x)
    if st.get_read_count() != fresh.get_read_count() or st.region != fresh.region or dict(st.coverage_dict) != dict(fresh.coverage_dict):
        problems.append("reused storage differs from a fresh one after reset: region %s / %s" % (st.region, fresh.region))
    for _ in range(6):
        a = rng.randint(fresh.region[0], fresh.region[1]); b = rng.randint(a, fresh.region[1])
        if rng.random() < .4:
            a = fresh.region[0]
        got = [(x.reference_start, x.reference_end) for _, x in st.get_alignments((a, b))]
        want = [(x.reference_start, x.reference_end) for _, x in fresh.get_alignments((a, b))]
        if got != want:
            problems.append("after reset, sub-region %s: reused storage gives %s, a fresh one %s" % ((a, b), got, want))
    return problems


def replay_index(d):
    p = _index_case(d["inputs"]["seed"])
    return (not p), "seed %s: %s" % (d["inputs"]["seed"], p or "index ok")


@bounded("C05.inmemory_index", ["C05"], shards=8, note="real InMemoryAlignmentStorage: add_alignment in start order then fill_index must establish "
         "index_ok (the contract get_alignments relies on), and get_alignments of random sub-regions must return exactly the overlapping "
         "reads; after reset() and a second cluster starting right behind the first, the reused storage must answer like a fresh one; "
         "bound: N random storages of <= 9 reads with bin-boundary-heavy coordinates")
def c05_index(tier, rng):
    n = 400 if tier == "quick" else 20000
    base = rng.randrange(10 ** 9)
    for k in range(n):
        p = _index_case(base + k)
        if p:
            return {"cases": k + 1, "bound": "%d storages" % n, "violations": [{
                "obligation": "C05.inmemory_index", "inputs": {"seed": base + k}, "observed": p[:3],
                "required": "index_ok after fill_index; sub-region fetch == overlapping reads",
                "replay_call": "contracts.c_alignments:replay_index"}]}
    return {"cases": n, "bound": "%d random storages" % n, "violations": [], "samples": [{"seed": base}]}


contract(A + "AbstractAlignmentStorage.alignment_is_not_adjacent", {"self": "rec:StorageA", "alignment": "rec:Aligned"},
         returns="bool", props=["C05"], requires=["alignment.reference_start < alignment.reference_end",
                                                  "self.region is None or self.region[0] <= self.region[1]"],
         # a new processing region is started only when the alignment shares no position with the hull collected so far
         ensures=["result == (self.region is not None and not any(self.region[0] <= p <= self.region[1] "
                  "for p in range(alignment.reference_start, alignment.reference_end)))"],
         native_args=_abs_storage,
         gen=lambda rng, n: ({"self": {"__rec__": "StorageA", "coverage_dict": {}, "region": rng.choice([None, (10, 20), (5, 5)]), "n_reads": 0},
                              "alignment": {"__rec__": "Aligned", "reference_start": s, "reference_end": s + rng.randint(1, 8)}}
                             for s in (rng.randint(0, 25) for _ in range(n))),
         canary="result == (self.region is not None)")


# ---- which records the two per-region loops drop before a read is reported: the documented filters, enumerated ---------------------------------
def _loop_filters(method):
    """the `if <test>: ... continue` statements at the top level of the `for bam_index, alignment in alignment_storage` loop of the method,
    in source order, as compiled test expressions (extracted from the real source on every run)"""
    import ast
    from pyvc import front
    src = open(front.REPO + "/src/alignment_processor.py").read()
    tree = ast.parse(src)
    cls = [n for n in tree.body if isinstance(n, ast.ClassDef) and n.name == "AlignmentCollector"][0]
    fn = [n for n in cls.body if isinstance(n, ast.FunctionDef) and n.name == method][0]
    loop = [n for n in ast.walk(fn) if isinstance(n, ast.For) and ast.unparse(n.iter) == "alignment_storage"]
    if not loop:
        raise front.Missing("loop over alignment_storage not found in " + method)
    tests = []
    for stmt in loop[0].body:
        if isinstance(stmt, ast.If) and not stmt.orelse and isinstance(stmt.body[-1], ast.Continue):
            tests.append((ast.unparse(stmt.test), compile(ast.Expression(stmt.test), "<%s filter>" % method, "eval"), None))
        elif isinstance(stmt, ast.Assign) and len(stmt.targets) == 1 and isinstance(stmt.targets[0], ast.Name):
            # a local the later filters may be written in terms of: bound when its value is computable from the record, the options and the
            # earlier locals (assignments that call into the pipeline keep the value the harness supplies)
            tests.append((ast.unparse(stmt), compile(ast.Expression(stmt.value), "<%s local>" % method, "eval"), stmt.targets[0].id))
    if not any(t[2] is None for t in tests):
        raise front.Missing("no filter statements found in " + method)
    return tests


def _fired_filters(tests, env):
    fired = []
    for src, code, target in tests:
        if target is None:
            if eval(code, env):
                fired.append(src)
        else:
            try:
                env[target] = eval(code, env)
            except Exception:
                pass
    return fired


@finite("C05.read_filters", ["C05"], note="the `if ...: continue` filters of AlignmentCollector.process_genic / process_intergenic, extracted from the "
        "source and evaluated on every combination of record flags, MAPQ, exon count, assignment type and filter options: a record is dropped "
        "exactly by the documented filters (unmapped, supplementary, secondary under --no_secondary, --min_mapq, inconsistent assignments below "
        "--inconsistent_mapq_cutoff, 1-2-exon alignments of gene-free regions that are secondary or below --simple_alignments_mapq_cutoff); a "
        "consistent assignment (unique, unique_minor_difference, ambiguous) is never dropped for its MAPQ")
def c05_read_filters(tier, rng):
    import itertools, types
    ia = native.repo_import("src/isoform_assignment.py")
    T = ia.ReadAssignmentType
    consistent = {T.unique, T.unique_minor_difference, T.ambiguous}
    inconsistent = {T.inconsistent, T.inconsistent_non_intronic, T.inconsistent_ambiguous}
    obl = dis = 0
    viol = []
    for method in ("process_genic", "process_intergenic"):
        tests = _loop_filters(method)
        types_ = list(T) if method == "process_genic" else [T.intergenic]
        for unmapped, suppl, secondary, mapq, nex, ty, no_sec, min_mapq in itertools.product(
                (False, True), (False, True), (False, True), (0, 1, 4, 5, 6, 60), (1, 2, 3), types_, (False, True), (None, 10)):
            obl += 1
            aln = types.SimpleNamespace(reference_id=-1 if unmapped and mapq == 0 else 0, is_unmapped=unmapped, is_supplementary=suppl, is_secondary=secondary,
                                        mapping_quality=mapq, query_name="r")
            params = types.SimpleNamespace(no_secondary=no_sec, min_mapq=min_mapq, inconsistent_mapq_cutoff=5, simple_alignments_mapq_cutoff=1)
            env = {"alignment": aln, "self": types.SimpleNamespace(params=params), "ReadAssignmentType": T,
                   "alignment_info": types.SimpleNamespace(read_exons=[(10 * i + 1, 10 * i + 5) for i in range(nex)]),
                   "read_assignment": types.SimpleNamespace(assignment_type=ty), "len": len}
            try:
                fired = _fired_filters(tests, env)
            except Exception as e:
                viol.append({"obligation": "C05.read_filters.%s" % method, "inputs": None, "observed": "filter not evaluable: %r" % e,
                             "required": "evaluable", "undecided": True})
                break
            dropped = bool(fired)
            basic = unmapped or suppl or (secondary and no_sec) or (min_mapq is not None and mapq < min_mapq)
            if method == "process_genic":
                must_drop = basic or (ty in inconsistent and mapq < 5)
                may_drop = must_drop or (ty not in consistent and mapq < 5)   # unassigned types: not documented either way
            else:
                must_drop = may_drop = basic or (nex <= 2 and (secondary or mapq < 1))
            if (must_drop and not dropped) or (dropped and not may_drop):
                if len(viol) < 5:
                    viol.append({"obligation": "C05.read_filters.%s" % method,
                                 "inputs": {"method": method, "unmapped": unmapped, "supplementary": suppl, "secondary": secondary, "mapq": mapq,
                                            "exons": nex, "assignment_type": ty.name, "no_secondary": no_sec, "min_mapq": min_mapq},
                                 "observed": "dropped=%s by %s" % (dropped, fired), "required": "dropped exactly by the documented filters (must=%s)" % must_drop})
            else:
                dis += 1
    return {"obligations": obl, "discharged": dis, "violations": viol, "cases": obl, "exhaustive": True,
            "bound": "2 loops x flags x MAPQ {0,1,4,5,6,60} x exons {1,2,3} x all assignment types x {--no_secondary} x {--min_mapq}",
            "samples": [{"method": "process_genic", "assignment_type": "ambiguous", "mapq": 0, "dropped": False}]}


# ---- the composition: whatever the pieces a cluster is cut into, every stored alignment is handed to at least one of them ------------------------------
def _forward_case(seed):
    """a cluster longer than 32 kb (a pile-up of 220-400 reads followed by a thin tail of reads whose starts sit on and next to bin
    boundaries) in a real InMemoryAlignmentStorage, through the real AlignmentCollector.forward_alignments (split_coverage_regions,
    get_alignments) with process_alignments_in_region replaced by a recorder: returns (number of pieces, problems)"""
    import random
    ap = native.repo_import("src/alignment_processor.py")
    rng = random.Random(seed)
    st = ap.InMemoryAlignmentStorage()
    reads = []
    base = 256 * rng.randint(0, 40)
    for k in range(rng.randint(220, 400)):
        s_ = base + rng.randint(0, 600)
        reads.append((s_, s_ + rng.randint(300, 1500)))
    pos = base + 2500
    while pos < base + 36000 + rng.randint(0, 8000):
        s_ = rng.choice([pos, 256 * (pos // 256), 256 * (pos // 256) + 1, 256 * (pos // 256) + 1, 256 * (pos // 256) + 255, 256 * (pos // 256) - 1])
        reads.append((s_, s_ + rng.choice([100, 200, 200, 400, 900, 3000])))
        pos += rng.choice([150, 256, 256, 256, 300, 512])
    reads.sort()
    objs = [_StubAlignment(a, b) for a, b in reads]
    for k, o in enumerate(objs):
        o.query_name = "r%d" % k
        st.add_alignment(0, o)
    st.fill_index()
    c = ap.AlignmentCollector.__new__(ap.AlignmentCollector)
    pieces = []
    c.process_alignments_in_region = lambda region, alns: pieces.append((region, [a.query_name for _b, a in alns])) or region
    list(c.forward_alignments(st))
    problems = []
    seen = set(n for _r, names in pieces for n in names)
    missing = [o.query_name for o in objs if o.query_name not in seen]
    if missing:
        m = objs[int(missing[0][1:])]
        problems.append("%d pieces %s: %d of %d alignments are handed to no piece, e.g. %s at %d-%d" % (len(pieces), [r for r, _ in pieces], len(missing), len(objs), m.query_name, m.reference_start, m.reference_end))
    return len(pieces), problems


def replay_forward(d):
    n, p = _forward_case(d["inputs"]["seed"])
    return (not p), "seed %s: %d pieces; %s" % (d["inputs"]["seed"], n, p or "every alignment handed to a piece")


@bounded("C05.forward_alignments_cover", ["C05"], note="clusters longer than 32 kb (a pile-up and a thin tail, read starts on and next to 256-bp bin boundaries) in the "
         "real InMemoryAlignmentStorage through the real forward_alignments / split_coverage_regions / get_alignments, the per-piece processing replaced by a "
         "recorder: every stored alignment is handed to at least one piece, however the cluster is cut")
def c05_forward_cover(tier, rng):
    n = 150 if tier == "quick" else 2000
    base = rng.randrange(10 ** 9)
    split = 0
    for k in range(n):
        try:
            np_, p = _forward_case(base + k)
        except Exception as e:
            np_, p = 0, ["exception %s: %s" % (type(e).__name__, e)]
        split += np_ > 1
        if p:
            return {"cases": k + 1, "bound": "%d clusters" % n, "violations": [{
                "obligation": "C05.forward_alignments_cover", "inputs": {"seed": base + k}, "observed": p[:2],
                "required": "no alignment lost to the cut", "replay_call": "contracts.c_alignments:replay_forward"}]}
    viol = []
    if split == 0:
        viol.append({"obligation": "C05.forward_alignments_cover.nontrivial", "inputs": None, "observed": "no cluster was split in %d cases" % n,
                     "required": "some split clusters", "undecided": True})
    return {"cases": n, "bound": "%d random clusters (%d of them split into several pieces)" % (n, split), "violations": viol, "samples": [{"seed": base, "split": split}]}


# ---- the alignment statistics of the log against the record flags of the input ----------------------------------------------------------------------------
def _alignment_statistics_problems(extra):
    """a pipeline run on the bundled reads with a tenth of the records copied as secondary records, a twentieth as supplementary ones and 7
    unmapped records added: the 'overall alignment statistics' block of the log equals the per-category record counts of the BAM"""
    import gzip, os, re, shutil
    import pysam
    from contracts import c_novel
    want = {}

    def prepare(d):
        inp = pysam.AlignmentFile(os.path.join(d, "chr9.4M.ont.sim.polya.bam"))
        recs = []
        for k, a in enumerate(x for x in inp if not x.is_unmapped):
            recs.append(a)
            if k % 10 == 3:
                b = pysam.AlignedSegment.fromstring(a.to_string(), inp.header)
                b.flag = b.flag | 256
                recs.append(b)
            if k % 20 == 7:
                b = pysam.AlignedSegment.fromstring(a.to_string(), inp.header)
                b.flag = b.flag | 2048
                recs.append(b)
        unm = []
        for k in range(7):
            u = pysam.AlignedSegment(inp.header)
            u.query_name, u.flag, u.query_sequence = "unmapped_%d" % k, 4, "ACGT" * 20
            u.query_qualities = pysam.qualitystring_to_array("I" * 80)
            unm.append(u)
        recs.sort(key=lambda x: (x.reference_id, x.reference_start))
        with pysam.AlignmentFile(os.path.join(d, "flags.bam"), "wb", template=inp) as out:
            for a in recs + unm:
                out.write(a)
        pysam.index(os.path.join(d, "flags.bam"))
        c = {"primary": 0, "secondary": 0, "supplementary": 0, "unaligned": 0}
        for a in recs + unm:
            c["unaligned" if a.is_unmapped else "secondary" if a.is_secondary else "supplementary" if a.is_supplementary else "primary"] += 1
        want.update(c)
        return "flags.bam", "chr9.4M.gtf.gz"
    d, p = c_novel._run_pipeline(["--no_model_construction"] + list(extra), True, prepare)
    problems = []
    try:
        if p.returncode != 0:
            return ["isoquant %s exited %d: %s" % (extra, p.returncode, p.stderr[-300:])]
        logs = [os.path.join(r, f) for r, _, fs in os.walk(os.path.join(d, "out")) for f in fs if f == "isoquant.log"]
        lines = open(logs[0]).read().splitlines() if logs else (p.stdout + p.stderr).splitlines()
        start = [i for i, l in enumerate(lines) if "overall alignment statistics" in l]
        got = {}
        if start:
            for l in lines[start[-1] + 1:]:
                m = re.search(r" - (\w+): (\d+)\s*$", l)
                if not m:
                    break
                got[m.group(1)] = int(m.group(2))
        if not got:
            problems.append("%s: no alignment statistics in the log" % (extra or "default"))
        elif {k: got.get(k, 0) for k in want} != want:
            problems.append("%s: the log reports %s, the input has %s" % (" ".join(extra) or "default", got, want))
    finally:
        shutil.rmtree(d, ignore_errors=True)
    return problems


def replay_alignment_statistics(d):
    p = _alignment_statistics_problems(d["inputs"]["options"])
    return (not p), "options %s: %s" % (d["inputs"]["options"], p or "log statistics equal the record counts")


@bounded("C05.alignment_statistics", ["C05"], note="pipeline runs (default and --no_secondary; thorough: also with --high_memory) on the bundled reads with added secondary, "
         "supplementary and unmapped records: the alignment statistics in the log equal the per-category record counts of the input")
def c05_alignment_statistics(tier, rng):
    configs = [[], ["--no_secondary"]] + ([["--high_memory"], ["--no_secondary", "--high_memory"]] if tier != "quick" else [])
    for extra in configs:
        p = _alignment_statistics_problems(extra)
        if p:
            return {"cases": len(configs), "bound": "pipeline runs", "violations": [{
                "obligation": "C05.alignment_statistics", "inputs": {"options": extra}, "observed": p[:2],
                "required": "log statistics = record counts of the input", "replay_call": "contracts.c_alignments:replay_alignment_statistics"}]}
    return {"cases": len(configs), "bound": "%d pipeline runs" % len(configs), "violations": [], "samples": [{"options": ["--no_secondary"]}]}
