"""Object formats of the intermediate files (C15): token-stream obligations + native round trips of real objects."""
import io
import random
from pyvc.api import finite, bounded
from pyvc import schema, front, native

IA = "src/isoform_assignment.py"
CTORS = [("src/polya_finder.py", "PolyAInfo")]

FORMATS = [
    # (file, class, serialize, deserialize, check field flow?)
    (IA, "MatchEvent", "serialize", "deserialize", True),
    (IA, "IsoformMatch", "serialize", "deserialize", True),
    (IA, "BasicReadAssignment", "serialize", "deserialize", True),
    (IA, "ReadAssignment", "serialize", "deserialize", True),
]


@finite("C15.schema", ["C15"], note="token-stream symbolic execution of serialize against deserialize (pyvc/schema.py); "
        "one obligation per stream position (alignment) and per stored field (value flow); backend: structural")
def c15_schema(tier, rng):
    obls = []
    unsupported = []
    for rel, cname, ser, des, fields in FORMATS:
        r = schema.check_format(rel, cname, ser, des, fields, CTORS)
        if r["unsupported"]:
            unsupported.append(r["unsupported"])
        obls += r["obligations"]
    # the abridged reader used for multi-mapper resolution must stay aligned with the full ReadAssignment format
    r = schema.check_format(IA, "BasicReadAssignment", "ReadAssignment.serialize", "deserialize_from_read_assignment",
                            False, CTORS)
    if r["unsupported"]:
        unsupported.append(r["unsupported"])
    obls += r["obligations"]
    if not r["unsupported"]:
        wt, rt = r["writer"], r["reader"]
        want = {"assignment_id": "self.assignment_id", "read_id": "self.read_id", "chr_id": "self.chr_id",
                "assignment_type": "self.assignment_type.value", "gene_assignment_type": "self.gene_assignment_type.value",
                "genomic_region": None}
        for k in range(min(len(wt), len(rt))):
            d = rt[k]["dest"]
            if not wt[k]["src"]:
                continue
            if d in want and want[d] is not None:
                obls.append(("BasicReadAssignment.deserialize_from_read_assignment.schema.field.%s" % d,
                             wt[k]["src"][0] == want[d], "abridged reader stores %s from the token written as %s" % (d, wt[k]["src"])))
            if d == "genomic_region":
                obls.append(("BasicReadAssignment.deserialize_from_read_assignment.schema.field.genomic_region.%d" % k,
                             wt[k]["src"][0].startswith("self.genomic_region["), "genomic_region from %s" % wt[k]["src"]))
            if d == "@exons":
                obls.append(("BasicReadAssignment.deserialize_from_read_assignment.schema.field.exons",
                             wt[k]["src"][0] == "self.exons", "start/end are taken from the token written as %s" % wt[k]["src"]))
        for dest, expr in r["extra"]:
            if dest in ("multimapper", "polyA_found"):
                tk = r["locals"].get("bool_arr")
                i = int(expr.split("[")[1].rstrip("]"))
                obls.append(("BasicReadAssignment.deserialize_from_read_assignment.schema.field.%s" % dest,
                             tk is not None and wt[tk]["src"][i] == "self." + dest, "%s = %s of flags %s" % (dest, expr, wt[tk]["src"] if tk is not None else None)))
    # enum value domains: every enum written with write_short_int / write_int(.., 2) has distinct values in [0, 65535]
    for ename in ("MatchEventSubtype", "MatchClassification", "ReadAssignmentType"):
        mem = front.enum_members(IA, ename)
        vals = [v for _, v in mem]
        ok = all(isinstance(v, int) and 0 <= v < 65536 for v in vals) and len(set(vals)) == len(vals) and len(vals) > 0
        obls.append(("%s.values_fit_short_and_distinct" % ename, ok, "%d members, values %s..%s" % (len(vals), min(vals), max(vals))))
    obls += schema.dict_codec_obligations()
    viol = []
    for name, ok, detail in obls:
        if not ok:
            viol.append({"obligation": name, "observed": detail, "required": "writer and reader agree at this stream position",
                         "inputs": None})
    for u in unsupported:
        viol.append({"obligation": "C15.schema.unsupported", "observed": u, "required": "straight-line format", "inputs": None,
                     "undecided": True})
    return {"obligations": len(obls), "discharged": sum(1 for _, ok, _ in obls if ok), "violations": viol,
            "samples": [{"obligation": n, "detail": d} for n, ok, d in obls[:3]], "cases": len(obls), "exhaustive": True,
            "bound": "all stream positions of the 5 formats"}


# ---- native round trips of real objects (bounded stand-in; also the source of concrete replays) -----------------------------
def _mods():
    ia = native.repo_import(IA)
    pf = native.repo_import("src/polya_finder.py")
    return ia, pf


def _rand_str(rng):
    # identifiers are arbitrary text: non-ASCII characters take 2-4 bytes each in the stream
    return rng.choice(["", "a", "chr1", "ENST00000371588.9", "read/1", "x" * rng.randint(0, 40), "g\u00e8ne", "Gro\u00dfhirn_\u00e9",
                       "\u6837\u672c1", "\U0001F9EC" * rng.randint(1, 3)])


def make_read_assignment(rng):
    ia, pf = _mods()
    def ev():
        e = ia.MatchEvent(rng.choice(list(ia.MatchEventSubtype)),
                          isoform_region=(rng.choice([0, 5, 2 ** 30 + 1, 2 ** 31 - 1, 2 ** 31]), rng.randrange(2 ** 31)),
                          read_region=(rng.randrange(2 ** 20), rng.choice([0, 2 ** 30 - 1, rng.randrange(2 ** 20)])),
                          event_info=rng.choice([0, -1, 1, -5, 17, -(2 ** 31 - 1), 2 ** 31 - 1]))
        return e
    def im():
        m = ia.IsoformMatch(rng.choice(list(ia.MatchClassification)), rng.choice([None, "g1", "gene_%d" % rng.randrange(9)]),
                            rng.choice([None, "t1", "tr_%d" % rng.randrange(9)]),
                            [ev() for _ in range(rng.randint(0, 3))], rng.choice(["+", "-", "."]),
                            rng.choice([0, 0.5, 1.25, rng.randrange(2 ** 20) / 2 ** 20 * 7]))
        # the constructor filters events of type `none` out of a list it is given; the pipeline also hands it single events and assigns
        # the list directly (categorize_correct_splice_match, verify_read_ends), so every member of the enum can be in a saved match
        if rng.random() < .3:
            m.match_subclassifications = [ev() for _ in range(rng.randint(1, 3))]
            if rng.random() < .5:
                m.match_subclassifications[rng.randrange(len(m.match_subclassifications))] = ia.MatchEvent(ia.MatchEventSubtype.none)
        return m
    ra = ia.ReadAssignment(_rand_str(rng), rng.choice(list(ia.ReadAssignmentType)), [im() for _ in range(rng.randint(0, 3))])
    ra.assignment_id = rng.randrange(2 ** 32)
    ra.genomic_region = (rng.randrange(2 ** 31), rng.randrange(2 ** 31))
    n = rng.randint(1, 4)
    p = rng.randrange(1000)
    ex = []
    for _ in range(n):
        a = p + rng.randint(1, 50); b = a + rng.randint(0, 90); ex.append((a, b)); p = b
    ra.exons = ex
    ra.corrected_exons = list(ex)
    if len(ex) > 1 and rng.random() < .3:
        ra.corrected_exons = ex[1:] if rng.random() < .5 else ex[:-1]          # a fake terminal exon was dropped
    elif rng.random() < .2:
        a, b = ex[-1]
        ra.corrected_exons = ex[:-1] + [(a, a), (a + 2, max(a + 2, b))] if b >= a + 2 else list(ex)   # an intron was restored
    from src.common import junctions_from_blocks
    ra.corrected_introns = junctions_from_blocks(ra.corrected_exons)
    ra.multimapper, ra.polyA_found, ra.cage_found = (rng.random() < .5, rng.random() < .5, rng.random() < .5)
    ra.polya_info = pf.PolyAInfo(*[rng.choice([-1, 0, 77, rng.randrange(2 ** 31)]) for _ in range(4)])
    ra.read_group, ra.mapped_strand, ra.strand, ra.chr_id = _rand_str(rng), rng.choice("+-."), rng.choice("+-."), _rand_str(rng)
    ra.mapping_quality = rng.randrange(256)
    ra.gene_assignment_type = rng.choice(list(ia.ReadAssignmentType))
    ra.additional_info = {_rand_str(rng): rng.choice(["v", 3, -5, (1, -2), (0, 7), "", 0, (0, 0)]) for _ in range(rng.randint(0, 3))}
    ra.additional_attributes = {_rand_str(rng): rng.choice(["True", "x", 12, -1, "", 0]) for _ in range(rng.randint(0, 2))}
    ra.introns_match = rng.random() < .5
    ra.exon_gene_profile = [rng.choice([-2, -1, 0, 1]) for _ in range(rng.randint(0, 6))]
    ra.intron_gene_profile = [rng.choice([-2, -1, 0, 1]) for _ in range(rng.randint(0, 6))]
    return ra


def _flat(o, depth=0):
    ia, pf = _mods()
    if isinstance(o, (ia.ReadAssignment, ia.BasicReadAssignment, ia.IsoformMatch, ia.MatchEvent, pf.PolyAInfo)):
        return (type(o).__name__, tuple(sorted((k, _flat(v, depth + 1)) for k, v in vars(o).items() if k != "gene_info")))
    if isinstance(o, (list, tuple)):
        return tuple(_flat(x, depth + 1) for x in o)
    if isinstance(o, dict):
        return tuple(sorted((k, _flat(v)) for k, v in o.items()))
    if isinstance(o, float):
        return round(o * 2 ** 20)
    return o


def _quant(ra):
    """the format stores penalties as fixed point with 20 fractional bits: compare modulo that quantisation"""
    return ra


def roundtrip_once(seed):
    ia, pf = _mods()
    rng = random.Random(seed)
    ra = make_read_assignment(rng)
    buf = io.BytesIO()
    ra.serialize(buf)
    tail = bytes([rng.randrange(256) for _ in range(3)])
    buf.write(tail)
    data = buf.getvalue()
    b1 = io.BytesIO(data)
    ra2 = ia.ReadAssignment.deserialize(b1, None)
    problems = []
    if b1.read() != tail:
        problems.append("full reader not aligned")
    if _flat(ra) != _flat(ra2):
        a, b = dict(_flat(ra)[1]), dict(_flat(ra2)[1])
        problems.append("fields differ: " + ", ".join("%s: %r -> %r" % (k, a[k], b.get(k)) for k in a if a[k] != b.get(k))[:400])
    b2 = io.BytesIO(data)
    br = ia.BasicReadAssignment.deserialize_from_read_assignment(b2)
    if b2.read() != tail:
        problems.append("abridged reader not aligned")
    ref = ia.BasicReadAssignment(ra)
    for f in ("assignment_id", "read_id", "chr_id", "start", "end", "genomic_region", "multimapper", "polyA_found",
              "assignment_type", "gene_assignment_type"):
        if getattr(br, f) != getattr(ref, f):
            problems.append("abridged %s: %r != %r" % (f, getattr(br, f), getattr(ref, f)))
    if sorted(br.genes) != sorted(ref.genes) or sorted(br.isoforms) != sorted(ref.isoforms):
        problems.append("abridged gene/isoform lists differ")
    # BasicReadAssignment's own format
    b3 = io.BytesIO()
    ref.serialize(b3)
    b3.write(tail)
    b3.seek(0)
    r3 = ia.BasicReadAssignment.deserialize(b3)
    if b3.read() != tail:
        problems.append("BasicReadAssignment reader not aligned")
    if _flat(ref) != _flat(r3):
        problems.append("BasicReadAssignment fields differ")
    problems += _geneinfo_roundtrip(rng, tail)
    return problems


def _geneinfo_roundtrip(rng, tail):
    """the gene-info record written before the read assignments of each locus: delta, gene ids, chromosome, gene region"""
    import types
    gi = native.repo_import("src/gene_info.py")
    s = rng.randrange(1, 2 ** 30)
    e = s + rng.randrange(0, 2 ** 20)
    g = gi.GeneInfo.from_region(_rand_str(rng), s, e, rng.choice([0, 4, 6, 12]))
    # the region covered by reads is usually larger than the gene region
    g.all_read_region_start, g.all_read_region_end = s - rng.randrange(0, min(s, 500)), e + rng.randrange(0, 500)
    g.gene_db_list = [types.SimpleNamespace(id=_rand_str(rng)) for _ in range(rng.randint(0, 3))]
    buf = io.BytesIO()
    g.serialize(buf)
    buf.write(tail)
    buf.seek(0)
    g2 = gi.GeneInfo.deserialize(buf, None)
    problems = []
    if buf.read() != tail:
        problems.append("gene info reader not aligned")
    for f in ("delta", "chr_id", "start", "end", "all_read_region_start", "all_read_region_end"):
        if getattr(g, f) != getattr(g2, f):
            problems.append("gene info %s saved as %r, loaded as %r" % (f, getattr(g, f), getattr(g2, f)))
    return problems


def replay_roundtrip(d):
    try:
        p = native.time_limited(roundtrip_once, 20, d["inputs"]["seed"])
    except native.TimeLimit as e:
        p = ["the readers did not finish: %s" % e]
    except Exception as e:
        p = ["exception %s: %s" % (type(e).__name__, e)]
    return (not p), "seed %s: %s" % (d["inputs"]["seed"], p or "round trip ok")


@bounded("C15.native_roundtrip", ["C15"], shards=4, note="random real ReadAssignment objects (all enum members, None ids, negative event "
         "offsets, sentinel positions, dict values of all three kinds) written with the real serialize and read back by the "
         "full and the abridged reader, plus the gene-info record of a locus (gene region differing from the read region); bounded: N random objects")
def c15_native(tier, rng):
    n = 400 if tier == "quick" else 20000
    base = rng.randrange(10 ** 9)
    viol = []
    for k in range(n):
        try:
            p = native.time_limited(roundtrip_once, 20, base + k)
        except native.TimeLimit as e:
            p = ["the readers did not finish: %s (a round trip takes milliseconds)" % e]
        except MemoryError as e:
            p = ["MemoryError while reading the stream back"]
        except Exception as e:
            p = ["exception %s: %s" % (type(e).__name__, e)]
        if p:
            viol.append({"obligation": "C15.native_roundtrip", "inputs": {"seed": base + k}, "observed": p,
                         "required": "decode(encode(x)) == x and readers aligned",
                         "replay_call": "contracts.c_formats:replay_roundtrip"})
            if len(viol) >= 1:
                break
    return {"cases": n, "bound": "%d random objects" % n, "violations": viol, "samples": [{"seed": base}]}
