#!/bin/bash
# usage: seed_recheck.sh <seed-id> <property> [more properties...]   (the seed is already confirmed and stored under /verif/seeded/<id>)
ID=$1; shift
D=/verif/seeded/$ID
cd /repo
if [ -n "$(git status --short)" ]; then echo "/repo not clean"; exit 7; fi
if ! git apply --check $D/patch.diff 2>/dev/null; then echo "PATCH DOES NOT APPLY TO /repo"; exit 9; fi
git apply $D/patch.diff
cd /verif
for P in "$@"; do
  OUT=$(./vcheck $P $EXTRA 2>&1); RC=$?
  echo "== check $P exit $RC"; echo "$OUT" | grep -E "VIOLATION|UNDECIDED|CHECKER" | cut -c1-230 | head -6
  echo "recheck $P exit=$RC: $(echo "$OUT" | grep -E "VIOLATION" | head -3 | tr '\n' ' ')" >> $D/confirm.txt
done
git -C /repo checkout -- .
git -C /repo status --short | head -3
