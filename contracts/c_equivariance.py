"""C11: translation and reflection equivariance, stated relationally on the real code (harnesses in h_equivariance.py), plus the
mirrored contract pairs of c_common / c_cigar / c_assign and a bounded end-to-end check through the real assigner."""
from pyvc.api import contract, spec, lemma, record, finite, bounded
from pyvc import native, front

H = "verif/contracts/h_equivariance.py:"
IV = "tuple[int,int]"

contract(H + "tr", {"r": IV, "k": "int"}, returns=IV, transparent=True, props=[], ensures=[], native=False)
contract(H + "mir", {"r": IV, "c": "int"}, returns=IV, transparent=True, props=[], ensures=[], native=False)

_T2 = ["t_overlaps", "t_contains", "t_left_of", "t_intersection_len", "t_overlap_intervals", "t_max_range", "t_covers"]
_T3 = ["t_equal_ranges", "t_contains_well_inside", "t_overlaps_at_least"]
_M2 = ["m_overlaps", "m_left_of", "m_covers", "m_intersection"]
_M3 = ["m_contains", "m_equal_ranges", "m_overlaps_at_least"]
for n in _T2:
    contract(H + n, {"a": IV, "b": IV, "k": "int"}, returns="bool", props=["C11"], requires=["a[0] <= a[1]", "b[0] <= b[1]"],
             ensures=["result"], gen=lambda rng, m: ({"a": (x, x + rng.randint(0, 9)), "b": (y, y + rng.randint(0, 9)), "k": rng.randint(-300, 300)}
                                                    for x, y in ((rng.randint(0, 30), rng.randint(0, 30)) for _ in range(m))))
for n in _T3:
    contract(H + n, {"a": IV, "b": IV, "d": "int", "k": "int"}, returns="bool", props=["C11"],
             requires=["a[0] <= a[1]", "b[0] <= b[1]", "d >= 0"], ensures=["result"],
             gen=lambda rng, m: ({"a": (x, x + rng.randint(0, 9)), "b": (y, y + rng.randint(0, 9)), "d": rng.randint(0, 4), "k": rng.randint(-300, 300)}
                                 for x, y in ((rng.randint(0, 30), rng.randint(0, 30)) for _ in range(m))))
contract(H + "t_interval_len", {"a": IV, "k": "int"}, returns="bool", props=["C11"], ensures=["result"])
for n in _M2:
    contract(H + n, {"a": IV, "b": IV, "c": "int"}, returns="bool", props=["C11"], requires=["a[0] <= a[1]", "b[0] <= b[1]"],
             ensures=["result"], gen=lambda rng, m: ({"a": (x, x + rng.randint(0, 9)), "b": (y, y + rng.randint(0, 9)), "c": rng.randint(40, 500)}
                                                    for x, y in ((rng.randint(0, 30), rng.randint(0, 30)) for _ in range(m))))
for n in _M3:
    contract(H + n, {"a": IV, "b": IV, "d": "int", "c": "int"}, returns="bool", props=["C11"],
             requires=["a[0] <= a[1]", "b[0] <= b[1]", "d >= 0"], ensures=["result"],
             gen=lambda rng, m: ({"a": (x, x + rng.randint(0, 9)), "b": (y, y + rng.randint(0, 9)), "d": rng.randint(0, 4), "c": rng.randint(40, 500)}
                                 for x, y in ((rng.randint(0, 30), rng.randint(0, 30)) for _ in range(m))))

contract(H + "m_overlaps_at_least_when_overlap", {"a": IV, "b": IV, "d": "int", "c": "int"}, returns="bool", props=["C11"],
         requires=["a[0] <= a[1]", "b[0] <= b[1]", "d >= 0", "max(a[0], b[0]) <= min(a[1], b[1])"], ensures=["result"],
         gen=lambda rng, m: ({"a": (x, x + rng.randint(0, 9)), "b": (y, y + rng.randint(0, 9)), "d": rng.randint(0, 4), "c": rng.randint(40, 500)}
                             for x, y in ((rng.randint(0, 12), rng.randint(0, 12)) for _ in range(m))))

# ---- bounded: the real assigner / corrector under a shift of all coordinates and under reflection ---------------------------------------
MIRROR_EVENT = lambda n: (n.replace("_left", "_L#").replace("_right", "_left").replace("_L#", "_right"))


def _equiv_case(seed):
    import random
    from contracts import pipeline_harness as Hh
    rng = random.Random(seed)
    params = Hh.make_params(rng.choice(["default_ont", "all", "none"]), rng.choice(["default", "precise"]))
    isoforms = Hh.make_gene(rng)
    tid, strand, exons = rng.choice(isoforms)
    kind = rng.choice(Hh.READ_KINDS)
    read = Hh.derive_read(rng, exons, kind, params.delta)
    if read is None:
        return None, []
    # polyA / polyT evidence: none, a tail at the read's 3' end, or external + internal positions near either end
    pmode = rng.choice(["none", "none", "polya", "polyt", "both_a", "both_t"])
    re_, rs_ = read[-1][1], read[0][0]
    ext_a = int_a = ext_t = int_t = -1
    if pmode in ("polya", "both_a"):
        ext_a = re_ - rng.randint(0, 25)
        if pmode == "both_a":
            int_a = re_ - rng.randint(0, 400)
    if pmode in ("polyt", "both_t"):
        ext_t = rs_ + rng.randint(0, 25)
        if pmode == "both_t":
            int_t = rs_ + rng.randint(0, 400)
    polya = (ext_a, ext_t, int_a, int_t)

    def run(isos, rd, pa=polya):
        gi = Hh.gene_info_of(isos, params.delta)
        ra, info = Hh.assign(gi, params, rd, pa)
        corr = Hh.correct(gi, params, ra, info)
        return (ra.assignment_type.name, sorted(m.assigned_transcript for m in ra.isoform_matches if m.assigned_transcript),
                sorted(e.event_type.name for m in ra.isoform_matches[:1] for e in m.match_subclassifications), corr)
    base = run(isoforms, read)
    problems = []
    k = rng.choice([1, 7, 255, 256, 1000, 12345])
    sh = lambda ex: [(a + k, b + k) for a, b in ex]
    shp = tuple(x + k if x != -1 else -1 for x in polya)
    shifted = run([(t, s, sh(e)) for t, s, e in isoforms], sh(read), shp)
    if shifted[:3] != base[:3] or shifted[3] != sh(base[3]):
        problems.append("shift by %d: %s -> %s" % (k, base, shifted))
    C = max(e[-1][1] for _, _, e in isoforms) + max(r[1] for r in read) + 1000
    mi = lambda ex: [(C - b, C - a) for a, b in reversed(ex)]
    flip = {"+": "-", "-": "+"}
    mp = lambda x: C - x if x != -1 else -1
    mirrored = run([(t, flip[s], mi(e)) for t, s, e in isoforms], mi(read), (mp(ext_t), mp(ext_a), mp(int_t), mp(int_a)))
    if mirrored[0] != base[0] or mirrored[1] != base[1]:
        problems.append("reflection: type / isoforms %s -> %s" % (base[:2], mirrored[:2]))
    elif sorted(MIRROR_EVENT(n) for n in mirrored[2]) != base[2]:
        problems.append("reflection: events %s -> %s (left/right not swapped)" % (base[2], mirrored[2]))
    elif mirrored[3] != mi(base[3]):
        problems.append("reflection: corrected exons %s -> %s" % (base[3], mirrored[3]))
    return {"kind": kind, "isoform": tid, "read": read, "polya": polya, "base": base}, problems


def replay_equiv(d):
    desc, p = _equiv_case(d["inputs"]["seed"])
    return (not p), "seed %s %s: %s" % (d["inputs"]["seed"], desc, p or "equivariant")


@bounded("C11.assigner_equivariance", ["C11"], shards=14, note="reads derived from isoforms (11 perturbation kinds) through the real assigner and exon "
         "corrector: shifting gene and read by k (incl. 255, 256, non-multiples of the bin) changes nothing but coordinates; reflecting "
         "both (strands flipped) keeps assignment type and isoform set, swaps left/right events and mirrors the corrected exons")
def c11_e2e(tier, rng):
    n = 700 if tier == "quick" else 30000
    base = rng.randrange(10 ** 9)
    done = 0
    for k in range(n):
        try:
            desc, p = _equiv_case(base + k)
        except Exception as e:
            desc, p = {"seed": base + k}, ["exception %s: %s" % (type(e).__name__, e)]
        if desc is None:
            continue
        done += 1
        if p:
            return {"cases": done, "bound": "%d derived reads" % n, "violations": [{
                "obligation": "C11.assigner_equivariance", "inputs": {"seed": base + k}, "observed": [str(desc)[:600]] + p[:2],
                "required": "translation / reflection equivariance", "replay_call": "contracts.c_equivariance:replay_equiv"}]}
    return {"cases": done, "bound": "%d derived reads" % n, "violations": [], "samples": [{"seed": base}]}


# ---- the terminal-vertex twins of the intron graph: thread_ends on a locus == thread_starts on its mirror image ------------------------------
def _thread_case(seed):
    import random, types
    gm = native.repo_import("src/graph_based_model_construction.py")
    ig = native.repo_import("src/intron_graph.py")
    rng = random.Random(seed)
    C = 100000
    intron = (5000, 6000)
    # the real IntronGraph accessors on a hand-filled edge table (no construction heuristics involved)
    g = ig.IntronGraph.__new__(ig.IntronGraph)
    g.outgoing_edges, g.incoming_edges = {intron: set()}, {}
    for _ in range(rng.randint(0, 2)):
        s_ = 6001 + rng.choice([80, 150, 400])
        g.outgoing_edges[intron].add((s_, s_ + 500))                      # a following intron
    for _ in range(rng.randint(0, 2)):
        g.outgoing_edges[intron].add((ig.VERTEX_polya, 6001 + rng.choice([100, 140, 300, 420, 470])))
    for _ in range(rng.randint(0, 2)):
        g.outgoing_edges[intron].add((ig.VERTEX_read_end, 6001 + rng.choice([100, 160, 300, 420, 500])))
    mi = lambda v: (C - v[1], C - v[0]) if v[0] >= 0 else ({ig.VERTEX_polya: ig.VERTEX_polyt, ig.VERTEX_read_end: ig.VERTEX_read_start}[v[0]], C - v[1])
    gmir = ig.IntronGraph.__new__(ig.IntronGraph)
    mintron = (C - intron[1], C - intron[0])
    gmir.outgoing_edges, gmir.incoming_edges = {}, {mintron: {mi(v) for v in g.outgoing_edges[intron]}}
    params = types.SimpleNamespace(apa_delta=50, delta=rng.choice([0, 6]))
    end = 6001 + rng.choice([60, 99, 100, 120, 150, 190, 300, 349, 350, 351, 420, 469, 470, 471, 520, 551, 600])
    trusted = rng.random() < .5
    def proc(graph):
        pp = gm.IntronPathProcessor.__new__(gm.IntronPathProcessor)
        pp.params, pp.intron_graph = params, graph
        return pp
    a = proc(g).thread_ends(intron, end, trusted)
    b = proc(gmir).thread_starts(mintron, C - end, trusted)
    problems = []
    if (a is None) != (b is None) or (a is not None and mi(a) != b):
        problems.append("thread_ends(%s, end=%d, trusted=%s) over %s = %s, but thread_starts on the mirror image = %s (mirror of %s)"
                        % (intron, end, trusted, sorted(g.outgoing_edges[intron]), a, b, None if a is None else mi(a)))
    return problems


def replay_thread(d):
    p = _thread_case(d["inputs"]["seed"])
    return (not p), "seed %s: %s" % (d["inputs"]["seed"], p or "mirror twins agree")


@bounded("C11.thread_twins", ["C11"], shards=4, note="IntronPathProcessor.thread_ends on a hand-filled real IntronGraph (following introns, polyA and "
         "read-end vertices around the apa_delta / delta thresholds, trusted and untrusted ends) against thread_starts on the mirror image")
def c11_thread(tier, rng):
    n = 4000 if tier == "quick" else 100000
    base = rng.randrange(10 ** 9)
    for k in range(n):
        p = _thread_case(base + k)
        if p:
            return {"cases": k + 1, "bound": "%d configurations" % n, "violations": [{
                "obligation": "C11.thread_twins", "inputs": {"seed": base + k}, "observed": p[:2],
                "required": "terminal vertex chosen on a locus = mirror of the one chosen on the mirrored locus",
                "replay_call": "contracts.c_equivariance:replay_thread"}]}
    return {"cases": n, "bound": "%d random configurations" % n, "violations": [], "samples": [{"seed": base}]}


# ---- polyA tail of an alignment vs polyT head of the mirrored alignment ------------------------------------------------------------------------
def _polya_mirror_pair(seed):
    """one alignment with an A-rich end (k aligned As, optional junk, t soft-clipped As) and its mirror image (reversed CIGAR, reverse-complemented
    sequence, coordinates x -> L+1-x)"""
    import random
    from collections import namedtuple
    A = namedtuple('A', ('query_name', 'cigartuples', 'seq', 'reference_start', 'reference_end'))
    comp = {"A": "T", "C": "G", "G": "C", "T": "A"}
    rnd = random.Random(seed)
    L = 100000
    body = "".join(rnd.choice("CGT" if rnd.random() < .7 else "ACGT") for _ in range(rnd.randint(60, 120)))
    k = rnd.choice([0, 0, 1, 2, 3, 5, 10, 20])
    body = body[:len(body) - k] + "A" * k
    t = rnd.choice([0, 5, 10, 16, 20, 30, 40])
    junk = "".join(rnd.choice("ACGT") for _ in range(rnd.choice([0, 0, 1, 2, 3])))
    seq = body + junk + "A" * t
    clip = len(junk) + t
    cig = [(0, len(body))] + ([(4, clip)] if clip else [])
    rs = rnd.randint(1000, 5000)
    a = A("r", cig, seq, rs, rs + len(body))
    m = A("r", list(reversed(cig)), "".join(comp[c] for c in reversed(seq)), L - a.reference_end, L - a.reference_start)
    return a, m, L


def _polya_mirror_case(seed):
    """mismatches between find_polya_* on the alignment and find_polyt_* on its mirror image"""
    from pyvc import native
    PF = native.repo_import("src/polya_finder.py").PolyAFinder
    a, m, L = _polya_mirror_pair(seed)
    cig, seq = a.cigartuples, a.seq
    k = clip = 20
    f = PF()
    out = []
    for nm, fa, ft in (("external", f.find_polya_external, f.find_polyt_external), ("internal", f.find_polya_internal, f.find_polyt_internal)):
        pa, pt = fa(a), ft(m)
        if pa == -1 and pt == -1:
            continue
        if pa == -1 or pt == -1:
            out.append({"seed": seed, "search": nm, "polya": pa, "polyt_of_mirror": pt, "mirror_diff": None})
        elif (L + 1 - pa) != pt:
            out.append({"seed": seed, "search": nm, "polya": pa, "polyt_of_mirror": pt, "mirror_diff": (L + 1 - pa) - pt})
    return out, {"cigar": cig, "tail": seq[-44:], "reference_end": a.reference_end}


def _polyt_as_listed(seed, search):
    """the listed deviation, spelled out on the ORIGINAL alignment a (mirror image m): the polyT search looks at a.seq[end-from-1 : end+to]
    (the polyA search at a.seq[end-from : end+to+1]) and converts the tail start q (index in a.seq) to
    m.reference_start - (q - end + 1) when q >= end - 1, else m.reference_start + move_ref_coord_alogn_alignment(m, end - 1 - q)"""
    from pyvc import native
    mod = native.repo_import("src/polya_finder.py")
    a, m, L = _polya_mirror_pair(seed)
    f = mod.PolyAFinder()
    frm, to, entire = (2, 2 * f.window_size, False) if search == "external" else (4 * f.window_size, 2, True)
    clip = a.cigartuples[-1][1] if a.cigartuples[-1][0] == 4 else 0
    end = len(a.seq) - clip
    ws, we = max(0, end - frm - 1), min(len(a.seq), end + to)
    chk = a.seq[ws:we].upper()
    pos = f.find_polya(chk)
    if entire and pos != -1 and chk[pos:].count('A') < len(chk[pos:]) * f.min_polya_fraction:
        pos = -1
    if pos == -1:
        return -1
    q = ws + pos
    if q >= end - 1:
        return max(1, m.reference_start - (q - end + 1))
    return max(1, m.reference_start + mod.move_ref_coord_alogn_alignment(m, end - 1 - q))


def kf_polyt_coordinate_convention(inputs):
    """known-finding class (call site PolyAFinder.find_polyt_head against find_polya_tail): the reported polyT coordinate is exactly the one
    the listed deviation produces (search window mirrored one base off, coordinate counted from the last T and from 0-based reference_start)"""
    if not isinstance(inputs, dict) or "mirror_diff" not in inputs:
        return False
    try:
        return _polyt_as_listed(inputs["seed"], inputs["search"]) == inputs["polyt_of_mirror"]
    except Exception:
        return False


def replay_polya_mirror(d):
    out, shape = _polya_mirror_case(d["inputs"]["seed"])
    bad = [o for o in out if o["search"] == d["inputs"]["search"]]
    return (not bad), "seed %s: %s on %s" % (d["inputs"]["seed"], bad or "mirror images agree", shape)


@bounded("C11.polya_mirror", ["C11"], note="PolyAFinder.find_polya_external / _internal on an alignment with an A-rich end against find_polyt_external / "
         "_internal on the mirror image (reversed CIGAR, reverse-complemented read, x -> L+1-x): the polyT coordinate is the mirror image of the "
         "polyA coordinate and a tail is found on both sides or on neither")
def c11_polya_mirror(tier, rng):
    n = 1500 if tier == "quick" else 40000
    base = rng.randrange(10 ** 9)
    reps = {}
    for k in range(n):
        out, shape = _polya_mirror_case(base + k)
        for o in out:
            key = ("known" if kf_polyt_coordinate_convention(o) else "other", o["search"], o["mirror_diff"] is None)
            if key not in reps:
                reps[key] = (o, shape)
    viol = [{"obligation": "C11.polya_mirror.%s" % o["search"], "inputs": o, "observed": "polyA %s on the alignment, polyT %s on its mirror image (%s)" % (
                 o["polya"], o["polyt_of_mirror"], shape),
             "required": "polyT coordinate of the mirrored alignment = L + 1 - polyA coordinate, found on both sides or on neither",
             "replay_call": "contracts.c_equivariance:replay_polya_mirror"} for key, (o, shape) in sorted(reps.items(), key=str)]
    return {"cases": n, "bound": "%d random alignments with A-rich ends" % n, "violations": viol, "samples": [{"seed": base}]}


# ---- IntronGraph.is_start_internal / is_end_internal: mirrored contracts (a read end within delta of a neighbouring intron is internal) ------
record("IGParams", {"delta": "int"})
record("IntronGraphE", {"incoming_edges": "dict[tuple[int,int],set[tuple[int,int]]]", "outgoing_edges": "dict[tuple[int,int],set[tuple[int,int]]]",
                        "params": "rec:IGParams"})
native.RECORD_CLASSES["IntronGraphE"] = ("src/intron_graph.py", "IntronGraph")
native.RECORD_CLASSES["IGParams"] = ("builtin", "namespace")
CLASS_HOME = {"IntronGraphE": "src/intron_graph.py", "IntronGraph": "src/intron_graph.py"}


def _gen_internal(rng, n):
    for _ in range(n):
        intron = (500, 600)
        nb = {(rng.choice([-11, -12, 100, 300]), rng.choice([380, 390, 394, 395, 396, 400, 410])) for _ in range(rng.randint(0, 3))}
        nb2 = {(rng.choice([700, 704, 705, 706, 710, 720]), rng.choice([800, 900])) for _ in range(rng.randint(0, 3))}
        yield {"self": {"__rec__": "IntronGraphE", "incoming_edges": {intron: nb}, "outgoing_edges": {intron: nb2}, "params": {"__rec__": "IGParams", "delta": rng.choice([0, 4, 6])}},
               "intron": intron, "read_start": rng.choice([380, 390, 394, 395, 396, 400, 401, 406, 410, 450]), "read_end": rng.choice([650, 694, 699, 700, 704, 705, 706, 710, 716, 730])}


contract("src/intron_graph.py:IntronGraph.is_start_internal", {"self": "rec:IntronGraphE", "intron": "tuple[int,int]", "read_start": "int"},
         returns="bool", props=["C11", "C04"], requires=["intron in self.incoming_edges", "self.params.delta >= 0"],
         # internal = the read starts at or after the END of some preceding intron, up to delta before it
         ensures=["result == any(inc[1] - self.params.delta <= read_start for inc in self.incoming_edges[intron])"],
         loops={0: {"inv": ["is_internal == False", "not any(_seq0[j][1] - self.params.delta <= read_start for j in range(_k0))"]}},
         gen=lambda rng, n: ({k: v for k, v in c.items() if k != "read_end"} for c in _gen_internal(rng, n)))

contract("src/intron_graph.py:IntronGraph.is_end_internal", {"self": "rec:IntronGraphE", "intron": "tuple[int,int]", "read_end": "int"},
         returns="bool", props=["C11", "C04"], requires=["intron in self.outgoing_edges", "self.params.delta >= 0"],
         # the mirror image: the read ends at or before the START of some following intron, up to delta after it
         ensures=["result == any(out[0] + self.params.delta >= read_end for out in self.outgoing_edges[intron])"],
         loops={0: {"inv": ["is_internal == False", "not any(_seq0[j][0] + self.params.delta >= read_end for j in range(_k0))"]}},
         gen=lambda rng, n: ({k: v for k, v in c.items() if k != "read_start"} for c in _gen_internal(rng, n)))


# ---- split-exon profile of a read with a polyA tail vs the mirrored read with a polyT head ----------------------------------------------------
def _split_profile_case(seed):
    """NonOverlappingFeaturesProfileConstructor.construct_profile (production comparator) on non-overlapping annotated blocks, a read made of
    some of them (ends jittered) and a polyA position at / near the read end; against the mirror image with the polyT position"""
    import random
    from functools import partial
    rng = random.Random(seed)
    lrp = native.repo_import("src/long_read_profiles.py")
    com = native.repo_import("src/common.py")
    C = 10000
    delta = rng.choice([0, 4, 6])
    known, p = [], 1000
    for _ in range(rng.randint(2, 7)):
        a = p + rng.choice([1, 1, 1, 200, 600])          # split exons touch each other or are separated by introns
        b = a + rng.choice([3, 4, 8, 30, 120])
        known.append((a, b))
        p = b
    lo = rng.randrange(len(known))
    hi = rng.randrange(lo, len(known))
    blocks = [known[i] for i in range(lo, hi + 1) if i in (lo, hi) or rng.random() < .8]
    blocks[-1] = (blocks[-1][0], max(blocks[-1][0], blocks[-1][1] + rng.choice([0, 0, -2, 3, 9])))
    # glue touching blocks as an aligner would report them
    glued = [blocks[0]]
    for b in blocks[1:]:
        if b[0] <= glued[-1][1] + 1:
            glued[-1] = (glued[-1][0], max(glued[-1][1], b[1]))
        else:
            glued.append(b)
    polya = glued[-1][1] + rng.choice([0, 0, -3, 2, -7, 5, -12])
    mir = lambda r: (C - r[1], C - r[0])
    mk = lambda feats: lrp.NonOverlappingFeaturesProfileConstructor(feats, comparator=partial(com.overlaps_at_least_when_overlap, delta=5), delta=delta)
    a = mk(known).construct_profile(glued, polya_position=polya)
    b = mk([mir(k) for k in reversed(known)]).construct_profile([mir(x) for x in reversed(glued)], polyt_position=C - polya)
    problems = []
    if list(a.gene_profile) != list(reversed(b.gene_profile)) or list(a.read_profile) != list(reversed(b.read_profile)):
        problems.append("known %s, read %s, polyA %d (delta %d): profile %s / %s; mirror image with polyT %d: %s / %s" % (
            known, glued, polya, delta, a.gene_profile, a.read_profile, C - polya, list(reversed(b.gene_profile)), list(reversed(b.read_profile))))
    return problems


def replay_split_profile(d):
    p = _split_profile_case(d["inputs"]["seed"])
    return (not p), "seed %s: %s" % (d["inputs"]["seed"], p or "mirror twins agree")


@bounded("C11.split_profile_twins", ["C11"], shards=4, note="NonOverlappingFeaturesProfileConstructor.construct_profile (split-exon profile, production "
         "comparator) for a read with a polyA position against the mirrored read with the mirrored polyT position: the two profiles are mirror "
         "images (the -2 cut-off beyond the tail is applied on the same side of the tail)")
def c11_split_profile(tier, rng):
    n = 3000 if tier == "quick" else 80000
    base = rng.randrange(10 ** 9)
    for k in range(n):
        try:
            p = _split_profile_case(base + k)
        except Exception as e:
            p = ["exception %s: %s" % (type(e).__name__, e)]
        if p:
            return {"cases": k + 1, "bound": "%d configurations" % n, "violations": [{
                "obligation": "C11.split_profile_twins", "inputs": {"seed": base + k}, "observed": p[:2], "required": "mirrored profiles",
                "replay_call": "contracts.c_equivariance:replay_split_profile"}]}
    return {"cases": n, "bound": "%d random configurations" % n, "violations": [], "samples": [{"seed": base}]}


# ---- the strand vote is symmetric: mirrored introns with swapped strands and swapped tails give the swapped strand ----------------------------------
@finite("C11.strand_vote_mirror", ["C11"], note="the real StrandDetector.get_strand / get_clean_strand on every assignment of '+', '-', '.' to <= 5 introns "
        "x the four polyA/polyT flag pairs, against the same call on the mirror image (coordinates reflected, intron order reversed, '+' and '-' "
        "swapped, polyA and polyT swapped): the answer is the swapped strand - stated as a symmetry, without saying what the answer is")
def c11_strand_vote_mirror(tier, rng):
    import itertools
    gi = native.repo_import("src/gene_info.py")
    flip = {"+": "-", "-": "+", ".": "."}
    L = 10000
    obl = dis = 0
    viol = []
    for n in range(0, 6):
        introns = [(100 * k + 10, 100 * k + 60) for k in range(n)]
        mirrored = [(L - b, L - a) for a, b in reversed(introns)]
        for strands in itertools.product("+-.", repeat=n):
            for pa in (False, True):
                for pt in (False, True):
                    obl += 1
                    d = gi.StrandDetector(None)
                    for i, s_ in zip(introns, strands):
                        d.set_strand(i, s_)
                    m = gi.StrandDetector(None)
                    for i, s_ in zip(mirrored, reversed(strands)):
                        m.set_strand(i, flip[s_])
                    a = (d.get_strand(list(introns), pa, pt), d.get_clean_strand(list(introns)))
                    b = (m.get_strand(list(mirrored), pt, pa), m.get_clean_strand(list(mirrored)))
                    if b == (flip[a[0]], flip[a[1]]):
                        dis += 1
                    elif len(viol) < 3:
                        viol.append({"obligation": "C11.strand_vote_mirror.%s.%s%s" % ("".join(strands).replace("+", "p").replace("-", "m").replace(".", "n") or "none",
                                                                                          "A" if pa else "", "T" if pt else ""),
                                     "inputs": {"intron_strands": list(strands), "has_polya": pa, "has_polyt": pt},
                                     "observed": {"original": a, "mirror": b}, "required": "mirror == swapped original"})
    return {"obligations": obl, "discharged": dis, "violations": viol, "cases": obl, "exhaustive": True,
            "bound": "all strand assignments of <= 5 introns x 4 tail flag pairs", "samples": [{"intron_strands": ["+", "-"], "has_polya": True}]}


# ---- attaching transcript ends to an intron: the start side is the mirror image of the end side -----------------------------------------------------
def _attach_ends_mirror_problems(seed):
    """random tables of tail-confirmed and plain read-end positions behind an intron through the real IntronGraph.attach_transcpt_ends with
    read_end=True, and the mirror image (positions and intron reflected, tables filled in the same order) with read_end=False: the attached
    start vertices are the mirror images of the attached end vertices (polyA <-> polyT, read end <-> read start)"""
    import random
    import types
    from collections import defaultdict
    ig = native.repo_import("src/intron_graph.py")
    rng = random.Random(seed)
    L = 100000
    problems = []
    for _ in range(40):
        d = rng.choice((5, 10, 50))
        intron = (10000, 12000)
        m_intron = (L - intron[1], L - intron[0])
        base = intron[1] + 200
        npos = rng.randint(0, 4)
        polya = [(base + rng.choice([0, d, d + 1, 2 * d, 3 * d, 5 * d, 7 * d + 3]) + rng.randint(0, 2), rng.randint(1, 9)) for _ in range(npos)]
        reads = [(base + rng.choice([-d, 0, d, 2 * d, 4 * d, 6 * d, 8 * d, 12 * d]) + rng.randint(0, 2), rng.randint(1, 6)) for _ in range(rng.randint(0, 5))]
        neigh = [(intron[1] + 5000 + 100 * k, intron[1] + 6000 + 100 * k) for k in range(rng.randint(0, 2))]
        cov = {n: rng.randint(1, 40) for n in neigh}
        params = types.SimpleNamespace(apa_delta=d, terminal_position_abs=rng.choice([1, 2]), terminal_position_rel=rng.choice([0.05, 0.1, 0.5]),
                                       terminal_internal_position_rel=rng.choice([0.05, 0.1, 0.5]))

        def graph(mirror):
            g = ig.IntronGraph.__new__(ig.IntronGraph)
            g.params = params
            g.outgoing_edges, g.incoming_edges = defaultdict(set), defaultdict(set)
            g.terminal_known_positions, g.starting_known_positions = defaultdict(list), defaultdict(list)
            g.intron_collector = types.SimpleNamespace(clustered_introns={})
            me = m_intron if mirror else intron
            g.intron_collector.clustered_introns[me] = 50
            for n in neigh:
                mn = (L - n[1], L - n[0]) if mirror else n
                g.intron_collector.clustered_introns[mn] = cov[n]
                (g.incoming_edges if mirror else g.outgoing_edges)[me].add(mn)
            pa, rd = defaultdict(lambda: defaultdict(int)), defaultdict(lambda: defaultdict(int))
            for p, c in polya:
                pa[me][(L - p) if mirror else p] += c
            for p, c in reads:
                rd[me][(L - p) if mirror else p] += c
            g.attach_transcpt_ends(me, pa, rd, read_end=not mirror)
            edges = (g.incoming_edges if mirror else g.outgoing_edges)[me]
            return sorted((v[0], (L - v[1]) if mirror else v[1]) for v in edges if v[0] < 0)
        try:
            a, b = graph(False), graph(True)
        except AssertionError:
            continue
        swap = {ig.VERTEX_polyt: ig.VERTEX_polya, ig.VERTEX_read_start: ig.VERTEX_read_end}
        b = sorted((swap.get(t, t), p) for t, p in b)
        if a != b:
            problems.append("apa_delta %d, tail-confirmed %s, read ends %s, neighbours %s, %s: end side attaches %s, the mirror image attaches %s (as end-side vertices)"
                            % (d, polya, reads, sorted(cov.items()), vars(params), a, b))
            break
    return problems


def replay_attach_ends(d):
    p = _attach_ends_mirror_problems(d["inputs"]["seed"])
    return (not p), "seed %s: %s" % (d["inputs"]["seed"], p[:1] or "start side mirrors end side")


@bounded("C11.attach_ends_mirror", ["C11", "C04"], note="the real IntronGraph.attach_transcpt_ends on random tables of tail-confirmed and plain read-end positions "
         "(0-4 and 0-5 positions at multiples of apa_delta behind an intron, 0-2 neighbouring introns, random thresholds) with read_end=True, "
         "against the mirror image with read_end=False: the attached polyT / read-start vertices are the mirror images of the polyA / read-end vertices")
def c11_attach_ends(tier, rng):
    n = 50 if tier == "quick" else 2000
    base = rng.randrange(10 ** 9)
    for k in range(n):
        try:
            p = _attach_ends_mirror_problems(base + k)
        except Exception as e:
            p = ["exception %s: %s" % (type(e).__name__, e)]
        if p:
            return {"cases": (k + 1) * 40, "bound": "random tables", "violations": [{
                "obligation": "C11.attach_ends_mirror", "inputs": {"seed": base + k}, "observed": p[:2],
                "required": "start side = mirror image of end side", "replay_call": "contracts.c_equivariance:replay_attach_ends"}]}
    return {"cases": n * 40, "bound": "%d x 40 random tables" % n, "violations": [], "samples": [{"seed": base}]}


# ---- trimming the ends of a novel model to its reads: the start side is the mirror image of the end side -------------------------------------------
def _model_ends_mirror_problems(seed):
    import random
    import types
    gm = native.repo_import("src/graph_based_model_construction.py")
    gi = native.repo_import("src/gene_info.py")
    rng = random.Random(seed)
    L = 100000
    problems = []
    for _ in range(40):
        d = rng.choice((10, 50))
        exons = [(1000, 1400), (2000, 2300), (3000, 3600)][:rng.randint(2, 3)]
        reads = []
        for _k in range(rng.randint(1, 5)):
            s_ = exons[0][0] + rng.choice([0, d, d + 1, 2 * d, 3 * d, 5 * d, -d, -d - 1, 380, 450])
            e_ = exons[-1][1] - rng.choice([0, d, d + 1, 2 * d, 3 * d, 5 * d, -d, -d - 1, 380, 650])
            reads.append([(s_, exons[0][1])] + exons[1:-1] + [(exons[-1][0], e_)])

        def run(mirror):
            mex = [((L - b, L - a) if mirror else (a, b)) for a, b in (reversed(exons) if mirror else exons)]
            model = gi.TranscriptModel("chr1", "+", "t1", "g1", list(mex), gi.TranscriptModelType.novel_not_in_catalog)
            rs = []
            for r in reads:
                rex = [((L - b, L - a) if mirror else (a, b)) for a, b in (reversed(r) if mirror else r)]
                rs.append(types.SimpleNamespace(corrected_exons=rex, read_id="r"))
            c = gm.GraphBasedModelConstructor.__new__(gm.GraphBasedModelConstructor)
            c.params = types.SimpleNamespace(apa_delta=d)
            c.correct_novel_transcript_ends(model, rs)
            out = list(model.exon_blocks)
            return [((L - b, L - a)) for a, b in reversed(out)] if mirror else out
        a, b = run(False), run(True)
        if a != b:
            problems.append("apa_delta %d, model %s, reads starting at %s and ending at %s: trimmed to %s, the mirror image (mapped back) to %s"
                            % (d, exons, [r[0][0] for r in reads], [r[-1][1] for r in reads], a, b))
            break
    return problems


def replay_model_ends(d):
    p = _model_ends_mirror_problems(d["inputs"]["seed"])
    return (not p), "seed %s: %s" % (d["inputs"]["seed"], p[:1] or "start side mirrors end side")


@bounded("C11.model_ends_mirror", ["C11", "C04"], note="the real GraphBasedModelConstructor.correct_novel_transcript_ends on random novel models (2-3 exons) and 1-5 "
         "reads whose starts / ends lie at multiples of apa_delta inside or outside the model's terminal exons, against the mirror image: the trimmed "
         "model is the mirror image of the trimmed mirror model (the rule for the 5' side is the reflected rule for the 3' side)")
def c11_model_ends(tier, rng):
    n = 50 if tier == "quick" else 2000
    base = rng.randrange(10 ** 9)
    for k in range(n):
        try:
            p = _model_ends_mirror_problems(base + k)
        except Exception as e:
            p = ["exception %s: %s" % (type(e).__name__, e)]
        if p:
            return {"cases": (k + 1) * 40, "bound": "random models", "violations": [{
                "obligation": "C11.model_ends_mirror", "inputs": {"seed": base + k}, "observed": p[:2],
                "required": "start side = mirror image of end side", "replay_call": "contracts.c_equivariance:replay_model_ends"}]}
    return {"cases": n * 40, "bound": "%d x 40 random models" % n, "violations": [], "samples": [{"seed": base}]}
