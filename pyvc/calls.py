"""Call semantics: builtins, container methods, contracted callees (modular), transparent callees (inlined),
spec functions and lemma instances."""
import ast
import z3
from .val import *
from .state import *
from .expr import zand, zor, const_int
from . import api, front
from . import ty as T

IGNORED_CALL_ROOTS = {"logger", "logging"}
SPEC_AXIOMS = {}
OPAQUE_AXIOMS = {}  # definitional axioms of opaque spec functions: used only where a contract reveals them


class CallMixin:
    def ev_Call(self, node, st):
        f = node.func
        # ---- logger.*(), print(): no effect on program state, arguments still evaluated for safety
        if isinstance(f, ast.Attribute) and isinstance(f.value, ast.Name) and f.value.id in IGNORED_CALL_ROOTS:
            self.eval_args_for_safety(node, st)
            return VNone()
        if isinstance(f, ast.Name):
            return self.call_name(f.id, node, st)
        if isinstance(f, ast.Attribute):
            return self.call_attr(f, node, st)
        if isinstance(f, ast.Lambda):
            args, kw = self.args_of(node, st)
            return self.apply_func(self.ev(f, st), args, kw, node, st)
        self.unsupported(node, "call form")

    def eval_args_for_safety(self, node, st):
        for a in node.args:
            try:
                self.ev(a, st)
            except Unsupported:
                pass

    def args_of(self, node, st):
        args = []
        for a in node.args:
            if isinstance(a, ast.Starred):
                v = self.ev(a.value, st)
                if not isinstance(v, VTuple):
                    self.unsupported(node, "*args of non-tuple")
                args += v.items
            else:
                args.append(self.ev(a, st))
        kw = {k.arg: self.ev(k.value, st) for k in node.keywords}
        return args, kw

    # ------------------------------------------------------------------------------------------------
    def call_name(self, name, node, st):
        if name in st.vars and isinstance(st.vars[name], VFunc):
            args, kw = self.args_of(node, st)
            return self.apply_func(st.vars[name], args, kw, node, st)
        if name in ("all", "any") and len(node.args) == 1:
            return self.quant(node, st, name == "all")
        if name == "print":
            self.eval_args_for_safety(node, st)
            return VNone()
        if name == "old":
            if st.entry is None:
                self.unsupported(node, "old() outside a contract")
            return self.ev(node.args[0], self.old_state(st))
        if name == "implies":
            a = self.ev_bool(node.args[0], st)
            saved = list(st.guard)
            st.guard.append(a)
            try:
                b = self.ev_bool(node.args[1], st)
            finally:
                st.guard[:] = saved
            return VBool(z3.Implies(a, b))
        if name == "isinstance":
            return self.isinstance_(node, st)
        if name in api.SPECS:
            args, kw = self.args_of(node, st)
            return self.call_spec(api.SPECS[name], args, node)
        if name in api.LEMMAS:
            args, kw = self.args_of(node, st)
            return VBool(self.lemma_instance(api.LEMMAS[name], args, node))
        if name in T.ENUMS and name not in st.vars:
            args, kw = self.args_of(node, st)
            return self.enum_from_value(T.ENUMS[name], args[0], node, st)
        b = getattr(self, "bi_" + name, None)
        if b is not None and name not in st.vars:
            user = self.resolve_user(name)
            if user is None:
                return b(node, st)
        c = self.resolve_user(name)
        if c is not None:
            args, kw = self.args_of(node, st)
            return self.call_user(c, args, kw, node, st, None)
        self.unsupported(node, "call of unknown function " + name)

    def resolve_user(self, name, cls=None):
        b = self.cur_bind().get("call:" + name)
        if b:
            return api.REG[b]
        key = (name, cls)
        if key in self._resolve_cache:
            return self._resolve_cache[key]
        res = None
        cands = [c for c in api.by_short_name(name) if "#" not in c.qual or c.qual.endswith("#default")]
        if cls is not None:
            cc = [c for c in cands if c.name == cls + "." + name]
            if cc:
                cands = cc
            else:
                # inherited method: search declared bases
                cands = [c for c in cands if "." in c.name and c.name.split(".")[0] in self.bases_of(cls)]
        else:
            cc = [c for c in cands if "." not in c.name]
            # prefer same module
            same = [c for c in cc if c.qual.split(":")[0] == self.cur_rel]
            cands = same or cc
        if len(cands) == 1:
            res = cands[0]
        elif len(cands) > 1:
            raise Unsupported("ambiguous callee %s: %s" % (name, [c.qual for c in cands]))
        if res is None:
            res = self.implicit_inline(name, cls)
        self._resolve_cache[key] = res
        return res

    def implicit_inline(self, name, cls):
        """A small loop-free helper without a contract (typically the product of an extract-method refactoring) is read through its body:
        an implicit transparent contract, listed among the assumptions-free inlined callees in the evidence."""
        rel = self.class_home.get(cls) if cls is not None else self.cur_rel
        if rel is None or rel.startswith("verif/") or ":" in rel:
            return None
        qual = "%s:%s" % (rel, (cls + "." + name) if cls is not None else name)
        try:
            fdef, _, _ = front.find_def(qual)
        except Exception:
            return None
        if any(isinstance(n, (ast.For, ast.While, ast.Try, ast.With, ast.Yield, ast.Lambda, ast.ListComp, ast.FunctionDef)) and n is not fdef
               for n in ast.walk(fdef)):
            return None
        if sum(1 for n in ast.walk(fdef) if isinstance(n, ast.stmt)) > 14:
            return None
        # direct recursion would not terminate in the inliner
        if any(isinstance(n, ast.Call) and ((isinstance(n.func, ast.Name) and n.func.id == name) or
                                             (isinstance(n.func, ast.Attribute) and n.func.attr == name)) for n in ast.walk(fdef)):
            return None
        mods = sorted({"self." + n.attr for n in ast.walk(fdef)
                       if isinstance(n, ast.Attribute) and isinstance(n.value, ast.Name) and n.value.id == "self"
                       and isinstance(n.ctx, (ast.Store, ast.Del))})
        # in-place mutation through self (self.x.append(..), self.x[k] = ..) also counts
        for n in ast.walk(fdef):
            tgt = None
            if isinstance(n, ast.Subscript) and isinstance(n.ctx, (ast.Store, ast.Del)):
                tgt = n.value
            if isinstance(n, ast.Call) and isinstance(n.func, ast.Attribute) and n.func.attr in (
                    "append", "add", "update", "extend", "pop", "remove", "clear", "insert", "setdefault", "inc", "discard"):
                tgt = n.func.value
            while isinstance(tgt, (ast.Subscript, ast.Attribute)) and not (isinstance(tgt, ast.Attribute) and isinstance(tgt.value, ast.Name)):
                tgt = tgt.value
            if isinstance(tgt, ast.Attribute) and isinstance(tgt.value, ast.Name) and tgt.value.id == "self" and "self." + tgt.attr not in mods:
                mods.append("self." + tgt.attr)
        c = api.Contract(qual, {a.arg: None for a in fdef.args.args}, transparent=True, native=False, props=[], ensures=[], modifies=mods)
        c.implicit = True
        api.REG[qual] = c
        self.implicit_inlined.add(qual)
        self.assumptions.add("%s has no contract of its own: read through its body (loop-free helper, inlined at every call)" % qual)
        return c

    def bases_of(self, cls):
        rel = self.class_home.get(cls)
        out = []
        if rel:
            try:
                c = front.find_class(rel, cls)
                for b in c.bases:
                    if isinstance(b, ast.Name):
                        out.append(b.id)
                        out += self.bases_of(b.id)
            except front.Missing:
                pass
        return out

    def apply_func(self, fv, args, kw, node, st):
        if fv.fn is not None:
            return fv.fn(args, st, node)
        d = fv.desc
        if d.startswith("bound:"):
            c = api.REG[d[6:]]
            return self.call_user(c, list(getattr(fv, "pre_args", [])) + args, dict(getattr(fv, "pre_kw", {}), **kw),
                                  node, st, None)
        self.unsupported(node, "call of " + d)

    # ---- builtins ------------------------------------------------------------------------------------
    def bi_len(self, node, st):
        v = self.ev(node.args[0], st)
        if isinstance(v, VOpt):
            self.oblige(st, "safety", node, z3.Not(v.isnone), "len(None)")
            v = v.v
        if isinstance(v, VList):
            return VInt(v.n)
        if isinstance(v, VTuple):
            return VInt(len(v.items))
        if isinstance(v, VStr):
            return VInt(z3.Length(v.t))
        if isinstance(v, (VSet, VDict)):
            if getattr(v, "empty_literal", False):
                return VInt(0)
            return VInt(v.c)
        self.unsupported(node, "len of %s" % v.ty)

    def bi_abs(self, node, st):
        v = self.num(self.ev(node.args[0], st), node, st)
        if isinstance(v, VInt):
            return VInt(z3.If(v.t >= 0, v.t, -v.t))
        return VReal(z3.If(v.t >= 0, v.t, -v.t))

    def _minmax(self, node, st, is_max):
        args, kw = self.args_of(node, st)
        if len(args) == 1 and "key" in kw and isinstance(args[0], VDict) and not getattr(args[0], "empty_literal", False):
            # max(d, key=...) / min(d, key=...): some key of d (which one is decided by the key function; left abstract)
            d = args[0]
            self.oblige(st, "safety", node, d.c > 0, "min/max of an empty dict")
            k = fresh(d.kty, "argkey")
            st.assume(z3.Select(d.m, pack(k)))
            self.assumptions.add("max/min over a dict with key=...: modelled as an arbitrary key of the dict")
            return k
        if len(args) == 1 and "key" in kw and isinstance(args[0], VList) and isinstance(kw["key"], VFunc) and kw["key"].fn:
            # min(L, key=f): an element of L (the first one) whose key is minimal
            seq = args[0]
            self.oblige(st, "safety", node, seq.n > 0, "min/max of empty sequence")
            w = z3.Int(fresh_name("argm"))
            i = z3.Int(fresh_name("mi"))
            kf = kw["key"].fn
            kw_ = kf([seq.get(w)], st, node)
            ki = kf([seq.get(i)], st, node)
            le = lex_lt(ki, kw_, False) if is_max else lex_lt(kw_, ki, False)
            st.assume(z3.And(0 <= w, w < seq.n))
            st.assume(z3.ForAll([i], z3.Implies(z3.And(0 <= i, i < seq.n), le)))
            return seq.get(w)
        if len(args) == 1:
            seq = args[0]
            if isinstance(seq, VTuple):
                args = seq.items
            elif isinstance(seq, VList):
                if seq.ety not in (INT, REAL):
                    self.unsupported(node, "min/max over list of %s" % seq.ety)
                self.oblige(st, "safety", node, seq.n > 0, "min/max of empty sequence")
                m = fresh(seq.ety, "mx")
                i = z3.Int(fresh_name("mi"))
                j = z3.Int(fresh_name("mj"))
                le = (lambda a, b: a <= b) if is_max else (lambda a, b: a >= b)
                self.pending_assumes.append(z3.ForAll([i], z3.Implies(z3.And(0 <= i, i < seq.n), le(z3.Select(seq.a, i), m.t))))
                self.pending_assumes.append(z3.Exists([j], z3.And(0 <= j, j < seq.n, z3.Select(seq.a, j) == m.t)))
                self.flush_pending(st)
                return m
            else:
                self.unsupported(node, "min/max of %s" % seq.ty)
        if "key" in kw or "default" in kw:
            self.unsupported(node, "min/max with key/default")
        res = args[0]
        for a in args[1:]:
            c = lex_lt(res, a, True) if is_max else lex_lt(a, res, True)
            res = ite(c, a, res)
        return res

    def bi_max(self, node, st):
        return self._minmax(node, st, True)

    def bi_min(self, node, st):
        return self._minmax(node, st, False)

    def bi_float(self, node, st):
        if not node.args:
            return VReal(0)
        v = self.num(self.ev(node.args[0], st), node, st)
        return coerce(v, REAL)

    def bi_int(self, node, st):
        v = self.ev(node.args[0], st)
        if isinstance(v, (VInt, VBool)):
            return coerce(v, INT)
        if isinstance(v, VReal):
            # truncation toward zero
            return VInt(z3.If(v.t >= 0, z3.ToInt(v.t), -z3.ToInt(-v.t)))
        if isinstance(v, VStr):
            self.int_printer()
            self.assumptions.add("int(str) modelled as the partial inverse of the str(int) printer; ValueError when not a numeral")
            return VInt(self._int_unprinter(v.t))
        self.unsupported(node, "int() of %s" % v.ty)

    def bi_hasattr(self, node, st):
        v = self.ev(node.args[0], st)
        name = node.args[1].value if isinstance(node.args[1], ast.Constant) else None
        if isinstance(v, VOpt):
            v = v.v   # hasattr(None, f) is False for data attributes; callers test `is not None` first (checked where it matters)
        if isinstance(v, VRec) and name is not None:
            return VBool(name in v.ty.fields)
        self.unsupported(node, "hasattr on %s" % v.ty)

    def bi_getattr(self, node, st):
        v = self.ev(node.args[0], st)
        name = node.args[1].value if isinstance(node.args[1], ast.Constant) else None
        dflt = self.ev(node.args[2], st) if len(node.args) > 2 else None
        if name is None:
            self.unsupported(node, "getattr with a computed name")
        if isinstance(v, VNone):
            if dflt is None:
                self.oblige(st, "safety", node, z3.BoolVal(False), "getattr on None")
            return dflt if dflt is not None else VNone()
        if isinstance(v, VOpt) and isinstance(v.v, VRec):
            if name in v.v.ty.fields:
                if dflt is None:
                    self.oblige(st, "safety", node, z3.Not(v.isnone), "getattr on None")
                    return v.v.f[name]
                return ite(v.isnone, dflt, v.v.f[name])
            return dflt if dflt is not None else VNone()
        if isinstance(v, VRec):
            if name in v.ty.fields:
                return v.f[name]
            if dflt is not None:
                return dflt
        self.unsupported(node, "getattr(%s, %r)" % (v.ty, name))

    def bi_unchanged_except(self, node, st):
        """unchanged_except(new, old, 'f1', ...): every declared field other than the named ones is identical (term equality)"""
        a = self.ev(node.args[0], st)
        b = self.ev(node.args[1], st)
        if isinstance(a, VOpt):
            a = a.v
        if isinstance(b, VOpt):
            b = b.v
        if not (isinstance(a, VRec) and isinstance(b, VRec) and a.ty.rname == b.ty.rname):
            self.unsupported(node, "unchanged_except on %s / %s" % (a.ty, b.ty))
        skip = {x.value for x in node.args[2:]}
        cs = [pack(a.f[f]) == pack(b.f[f]) for f in sorted(a.f) if f not in skip]
        return VBool(zand(*cs))

    def bi_new_stream(self, node, st):
        if node.args:
            v = self.ev(node.args[0], st)
            return VList(INT, v.n, v.a)
        return self.mk_list([], INT)

    def bi_bytearray(self, node, st):
        v = self.unopt(self.ev(node.args[0], st), node, st)
        if not isinstance(v, VStr):
            self.unsupported(node, "bytearray of %s" % v.ty)
        r = self.bytes_of(v)
        self.flush_pending(st)
        return r

    def bytes_of(self, v):
        blen, barr, _ = self.codec_fns()
        self.trusted_axioms.add("str.encode/bytes.decode (UTF-8 codec): payload bytes uninterpreted; utf8len(s) >= len(s); "
                                "decode(encode(s)) == s is assumed, byte counts are proved")
        # a UTF-8 encoding is at least as long as the string has characters (and at most 4 bytes per character)
        self.pending_assumes.append(z3.And(blen(v.t) >= z3.Length(v.t), blen(v.t) <= 4 * z3.Length(v.t)))
        return VList(INT, blen(v.t), barr(v.t))

    def codec_fns(self):
        if not hasattr(self, "_codec"):
            blen = z3.Function("utf8len", z3.StringSort(), z3.IntSort())
            barr = z3.Function("utf8bytes", z3.StringSort(), z3.ArraySort(z3.IntSort(), z3.IntSort()))
            sof = z3.Function("utf8decode", z3.IntSort(), z3.ArraySort(z3.IntSort(), z3.IntSort()), z3.StringSort())
            self._codec = (blen, barr, sof)
        return self._codec

    def unopt_deep(self, v, ty, node, st):
        """v is about to be stored where type ty is declared: optional parts whose declared type is not optional must not be
        None there (Python would store None; the declared shape says that never happens -> obligation)"""
        if isinstance(v, VOpt) and not isinstance(ty, TOpt):
            return self.unopt_deep(self.unopt(v, node, st, "None stored where %s is declared" % ty), ty, node, st)
        if isinstance(v, VTuple) and isinstance(ty, TTuple) and len(v.items) == len(ty.items):
            return VTuple([self.unopt_deep(i, t, node, st) for i, t in zip(v.items, ty.items)])
        return v

    def unopt(self, v, node, st, what="use of None"):
        if isinstance(v, VOpt):
            self.oblige(st, "safety", node, z3.Not(v.isnone), what)
            return v.v
        return v

    def bi_utf8len(self, node, st):
        v = self.unopt(self.ev(node.args[0], st), node, st)
        blen, _, _ = self.codec_fns()
        return VInt(blen(v.t))

    def bytes_decode(self, b, node, st):
        _, _, sof = self.codec_fns()
        return VStr(sof(b.n, b.a))

    def bi_bool(self, node, st):
        return VBool(self.ev_bool(node.args[0], st))

    def bi_str(self, node, st):
        return self.to_str(self.ev(node.args[0], st), node, st)

    def bi_list(self, node, st):
        if not node.args:
            return self.mk_list([])
        a = node.args[0]
        if isinstance(a, ast.Call) and isinstance(a.func, ast.Name) and a.func.id == "map":
            return self.bi_map(a, st)
        v = self.ev(a, st)
        if isinstance(v, VList):
            return VList(v.ety, v.n, v.a)
        if isinstance(v, VTuple):
            return self.mk_list(v.items)
        if isinstance(v, VSet):
            return self.list_of_set(v, st)
        self.unsupported(node, "list() of %s" % v.ty)

    def list_of_set(self, s, st):
        """list(a_set): an arbitrary enumeration without repetition of exactly the members."""
        l = fresh(TList(s.kty), "enum")
        i = z3.Int(fresh_name("ei"))
        j = z3.Int(fresh_name("ej"))
        k = z3.Const(fresh_name("ek"), sort_of(s.kty))
        idx = z3.Function(fresh_name("idx"), sort_of(s.kty), z3.IntSort())
        st.assume(l.n == s.c)
        st.assume(z3.ForAll([i], z3.Implies(z3.And(0 <= i, i < l.n),
                                            z3.And(z3.Select(s.m, z3.Select(l.a, i)), idx(z3.Select(l.a, i)) == i))))
        st.assume(z3.ForAll([k], z3.Implies(z3.Select(s.m, k),
                                            z3.And(0 <= idx(k), idx(k) < l.n, z3.Select(l.a, idx(k)) == k))))
        return l

    def bi_map(self, node, st):
        fn = self.ev(node.args[0], st)
        seq = self.ev(node.args[1], st)
        if not (isinstance(fn, VFunc) and fn.fn is not None and isinstance(seq, VList)):
            self.unsupported(node, "map form")
        i = z3.Int(fresh_name("mpi"))
        s2 = st.copy()
        s2.guard = s2.guard + [z3.And(0 <= i, i < seq.n)]
        elt = fn.fn([seq.get(i)], s2, node)
        return VList(elt.ty, seq.n, z3.Lambda([i], pack(elt)))

    def bi_tuple(self, node, st):
        v = self.ev(node.args[0], st)
        if isinstance(v, VTuple):
            return v
        self.unsupported(node, "tuple() of %s" % v.ty)

    def bi_set(self, node, st):
        if not node.args:
            s = VSet(ANY, None, z3.IntVal(0))
            s.empty_literal = True
            return s
        v = self.ev(node.args[0], st)
        if isinstance(v, VSet):
            return v
        if isinstance(v, VList) and not getattr(v, "empty_literal", False):
            k = z3.Const(fresh_name("sk"), sort_of(v.ety))
            j = z3.Int(fresh_name("sj"))
            ns = VSet(v.ety, z3.Lambda([k], z3.Exists([j], z3.And(0 <= j, j < v.n, z3.Select(v.a, j) == k))), z3.Int(fresh_name("card")))
            st.assume(z3.And(ns.c >= 0, ns.c <= v.n))
            for fact in self.card_facts(ns):
                st.assume(fact)
            return ns
        self.unsupported(node, "set(%s)" % v.ty)

    def bi_defaultdict(self, node, st):
        """defaultdict(int) / defaultdict(float) / defaultdict(list): the declared local type carries the default"""
        d = VDict(TDict(ANY, ANY), None, None, z3.IntVal(0))
        d.empty_literal = True
        return d

    def bi_OrderedDict(self, node, st):
        return self.bi_dict(node, st)

    def bi_dict(self, node, st):
        if not node.args:
            d = VDict(TDict(ANY, ANY), None, None, z3.IntVal(0))
            d.empty_literal = True
            return d
        self.unsupported(node, "dict(iterable)")

    def bi_sorted(self, node, st):
        v = self.ev(node.args[0], st)
        reverse = False
        for kw_ in node.keywords:
            if kw_.arg == "reverse" and isinstance(kw_.value, ast.Constant):
                reverse = bool(kw_.value.value)
            else:
                self.unsupported(node, "sorted with key")
        if isinstance(v, VDict) and not getattr(v, "empty_literal", False):
            v = VSet(v.kty, v.m, v.c)
        if isinstance(v, VSet) and not getattr(v, "empty_literal", False):
            # sorted(a_set): strictly ascending list of exactly the members (position function as witness)
            r = fresh(TList(v.kty), "sorted")
            i = z3.Int(fresh_name("so_i"))
            j = z3.Int(fresh_name("so_j"))
            k = z3.Const(fresh_name("so_k"), sort_of(v.kty))
            pos = z3.Function(fresh_name("sorted_pos"), sort_of(v.kty), z3.IntSort())
            st.assume(r.n == v.c)
            st.assume(z3.ForAll([i, j], z3.Implies(z3.And(0 <= i, i < j, j < r.n),
                                                   lex_lt(r.get(j), r.get(i), True) if reverse else lex_lt(r.get(i), r.get(j), True))))
            st.assume(z3.ForAll([i], z3.Implies(z3.And(0 <= i, i < r.n),
                                                z3.And(z3.Select(v.m, z3.Select(r.a, i)), pos(z3.Select(r.a, i)) == i))))
            st.assume(z3.ForAll([k], z3.Implies(z3.Select(v.m, k),
                                                z3.And(0 <= pos(k), pos(k) < r.n, z3.Select(r.a, pos(k)) == k))))
            self.trusted_axioms.add("sorted(S) for a set S is the strictly ascending list of exactly the members of S")
            return r
        if not isinstance(v, VList):
            self.unsupported(node, "sorted of %s" % v.ty)
        if reverse:
            self.unsupported(node, "sorted(list, reverse=True)")
        r = fresh(v.ty, "sorted")
        i = z3.Int(fresh_name("so_i"))
        j = z3.Int(fresh_name("so_j"))
        p = z3.Function(fresh_name("perm"), z3.IntSort(), z3.IntSort())
        q = z3.Function(fresh_name("perm_inv"), z3.IntSort(), z3.IntSort())
        st.assume(r.n == v.n)
        st.assume(z3.ForAll([i, j], z3.Implies(z3.And(0 <= i, i < j, j < r.n), lex_lt(r.get(i), r.get(j), False))))
        st.assume(z3.ForAll([i], z3.Implies(z3.And(0 <= i, i < r.n),
                                            z3.And(0 <= p(i), p(i) < v.n, q(p(i)) == i, eq(r.get(i), v.get(p(i)))))))
        st.assume(z3.ForAll([i], z3.Implies(z3.And(0 <= i, i < v.n), z3.And(0 <= q(i), q(i) < r.n, p(q(i)) == i))))
        r.sorted_of = v
        self.trusted_axioms.add("sorted(L) is an ascending permutation of L; L == sorted(L) iff L is non-decreasing")
        return r

    def bi_sum(self, node, st):
        v = self.ev(node.args[0], st)
        if isinstance(v, VList) and v.ety == INT:
            cn = const_int(VInt(z3.simplify(v.n)))
            if cn is not None and cn <= 16:
                return VInt(z3.Sum(*[z3.Select(v.a, k) for k in range(cn)]) if cn > 0 else z3.IntVal(0))
            f = self.sum_fn()
            return VInt(f(v.a, v.n))
        if isinstance(v, VTuple):
            r = VInt(0)
            for it in v.items:
                r = self.binop(ast.Add(), r, it, node, st)
            return r
        self.unsupported(node, "sum of %s" % v.ty)

    def sum_fn(self):
        if not hasattr(self, "_sum_fn"):
            f = z3.RecFunction("py_sum", z3.ArraySort(z3.IntSort(), z3.IntSort()), z3.IntSort(), z3.IntSort())
            a = z3.Const("sum_a", z3.ArraySort(z3.IntSort(), z3.IntSort()))
            n = z3.Int("sum_n")
            z3.RecAddDefinition(f, [a, n], z3.If(n <= 0, 0, f(a, n - 1) + z3.Select(a, n - 1)))
            self._sum_fn = f
        return self._sum_fn

    def isinstance_(self, node, st):
        v = self.ev(node.args[0], st)
        tn = node.args[1]
        names = [tn.id] if isinstance(tn, ast.Name) else [e.id for e in tn.elts]
        res = []
        for n in names:
            if n == "int":
                res.append(isinstance(v, (VInt, VBool)))
            elif n == "str":
                res.append(isinstance(v, VStr))
            elif n == "tuple":
                res.append(isinstance(v, VTuple))
            elif n == "list":
                res.append(isinstance(v, VList))
            elif n == "float":
                res.append(isinstance(v, VReal))
            elif n in T.RECORDS or n in self.class_home:
                res.append(isinstance(v, VRec) and (v.ty.rname == n or n in self.bases_of(v.ty.rname)))
            else:
                self.unsupported(node, "isinstance(%s)" % n)
        return VBool(any(res))

    def enum_from_value(self, e, v, node, st):
        if isinstance(v, VEnum):
            return v
        v = self.num(v, node, st)
        consts = sort_info(e).consts
        vals = [(m, e.values[m]) for m in e.members]
        self.oblige(st, "safety", node, zor(*[v.t == x for _, x in vals]), "%s(value): not a member value" % e.ename)
        r = consts[vals[-1][0]]
        for m, x in vals[:-1]:
            r = z3.If(v.t == x, consts[m], r)
        return VEnum(e, r)

    # ---- attribute calls --------------------------------------------------------------------------------
    def call_attr(self, f, node, st):
        attr = f.attr
        # os.path.basename(p): uninterpreted, with the one fact every path satisfies (the base name is a suffix of the path)
        if attr == "basename" and isinstance(f.value, ast.Attribute) and f.value.attr == "path" and isinstance(f.value.value, ast.Name) \
                and f.value.value.id == "os" and "os" not in st.vars and len(node.args) == 1:
            v = self.unopt(self.ev(node.args[0], st), node, st)
            if not isinstance(v, VStr):
                self.unsupported(node, "os.path.basename of %s" % v.ty)
            if not hasattr(self, "_py_basename"):
                self._py_basename = z3.Function("py_os_path_basename", z3.StringSort(), z3.StringSort())
            b = self._py_basename(v.t)
            st.assume(z3.SuffixOf(b, v.t))
            self.trusted_axioms.add("os.path.basename(p): uninterpreted; a suffix of p")
            return VStr(b)
        # Enum classmethods / class-level helpers: EnumCls.method(...)
        if isinstance(f.value, ast.Name) and f.value.id not in st.vars and f.value.id not in st.alias:
            root = f.value.id
            if root == "math":
                return self.math_call(attr, node, st)
            if root in T.ENUMS:
                c = self.resolve_user(attr, root)
                if c is None:
                    self.unsupported(node, "enum classmethod %s.%s without contract" % (root, attr))
                args, kw = self.args_of(node, st)
                fd, _, _ = self.callee_def(c)
                if any(isinstance(d, ast.Name) and d.id == "classmethod" for d in fd.decorator_list):
                    args = [VFunc(None, "enumclass:" + root)] + args
                return self.call_user(c, args, kw, node, st, None)
            if root == "int" and attr == "from_bytes":
                args, kw = self.args_of(node, st)
                return self.from_bytes(args[0], node, st)
            if root in self.class_home:
                c = self.resolve_user(attr, root)
                if c is not None:
                    args, kw = self.args_of(node, st)
                    return self.call_through_class(c, args, kw, node, st)
        if attr == "__new__" and isinstance(f.value, ast.Name):
            # cls.__new__(cls): a fresh object of the class the contract declares as the result's shape (no field set yet)
            rt = T.parse_type(self.contract_stack[-1].returns) if self.contract_stack[-1].returns else None
            if isinstance(rt, TOpt):
                rt = rt.inner
            if not isinstance(rt, TRec):
                self.unsupported(node, "__new__ needs a record return type in the contract")
            return zero_value(rt)
        recv = self.ev(f.value, st)
        if isinstance(recv, VOpt):
            self.oblige(st, "safety", node, z3.Not(recv.isnone), "method call on None")
            recv = recv.v
        if isinstance(recv, VRec):
            if attr in recv.f and isinstance(recv.f[attr], VFunc):
                args, kw = self.args_of(node, st)
                return self.apply_func(recv.f[attr], args, kw, node, st)
            bound = self.cur_bind().get("%s.%s" % (recv.ty.rname, attr))
            if bound and bound.startswith("builtin:"):
                # a callable stored in a field, bound by the contract to a builtin (checked against the constructor natively)
                fake = ast.Call(func=ast.Name(id=bound[8:], ctx=ast.Load()), args=node.args, keywords=node.keywords)
                ast.copy_location(fake, node)
                return getattr(self, "bi_" + bound[8:])(fake, st)
            c = api.REG[bound] if bound else self.resolve_user(attr, recv.ty.rname)
            if c is None:
                self.unsupported(node, "method %s.%s has no contract" % (recv.ty.rname, attr))
            args, kw = self.args_of(node, st)
            fd, _, _ = self.callee_def(c)
            if any(isinstance(d, ast.Name) and d.id == "staticmethod" for d in fd.decorator_list):
                return self.call_user(c, args, kw, node, st, None)
            return self.call_user(c, [recv] + args, kw, node, st, f.value)
        if isinstance(recv, VFunc) and recv.desc.startswith("class:"):
            cname = recv.desc[6:]
            c = self.resolve_user(attr, cname)
            if c is None:
                self.unsupported(node, "static method %s.%s has no contract" % (cname, attr))
            args, kw = self.args_of(node, st)
            return self.call_through_class(c, args, kw, node, st)
        if isinstance(recv, VEnum):
            c = self.resolve_user(attr, recv.ty.ename)
            if c is None:
                self.unsupported(node, "enum method %s.%s has no contract" % (recv.ty.ename, attr))
            args, kw = self.args_of(node, st)
            return self.call_user(c, [recv] + args, kw, node, st, None)
        if isinstance(recv, VList):
            return self.list_method(recv, attr, f, node, st)
        if isinstance(recv, VSet):
            return self.set_method(recv, attr, f, node, st)
        if isinstance(recv, VDict):
            return self.dict_method(recv, attr, f, node, st)
        if isinstance(recv, VInt) and attr == "to_bytes":
            args, kw = self.args_of(node, st)
            return self.to_bytes(recv, args[0], node, st)
        if isinstance(recv, VStr):
            return self.str_method(recv, attr, f, node, st)
        self.unsupported(node, "method .%s on %s" % (attr, recv.ty))

    def call_through_class(self, c, args, kw, node, st):
        fd, _, _ = self.callee_def(c)
        if fd.args.args and fd.args.args[0].arg == "self" and node.args and \
                isinstance(node.args[0], (ast.Name, ast.Attribute, ast.Subscript)):
            # Base.method(self, ...): an instance method called through the class; the explicit first argument is the receiver
            node2 = ast.copy_location(ast.Call(func=node.func, args=node.args[1:], keywords=node.keywords), node)
            node2._explicit_recv = node.args[0]
            return self.call_user(c, args, kw, node2, st, node.args[0])
        return self.call_user(c, args, kw, node, st, None)

    def math_call(self, attr, node, st):
        args, kw = self.args_of(node, st)
        if attr in ("floor", "ceil"):
            v = coerce(self.num(args[0], node, st), REAL)
            fl = z3.ToInt(v.t)
            return VInt(fl if attr == "floor" else z3.If(z3.ToReal(fl) == v.t, fl, fl + 1))
        self.unsupported(node, "math." + attr)

    # -- lists
    def list_method(self, l, attr, f, node, st):
        args, kw = self.args_of(node, st)
        if attr == "append":
            x = args[0]
            if getattr(l, "empty_literal", False):
                nl = self.mk_list([x])
                if isinstance(x, VNone):
                    raise Unsupported("append None to an untyped list")
            else:
                x = self.unopt_deep(x, l.ety, node, st)
                nl = VList(l.ety, l.n + 1, z3.Store(l.a, l.n, pack(coerce(x, l.ety))))
            self.mutate(f.value, nl, st)
            return VNone()
        if attr == "extend" or attr == "write":
            x = args[0]
            if not isinstance(x, VList):
                self.unsupported(node, "extend with %s" % x.ty)
            self.mutate(f.value, self.list_concat(l, x), st)
            return VNone()
        if attr == "read":
            # stream read: consume n items from the front
            n = self.num(args[0], node, st)
            self.oblige(st, "safety", node, n.t >= 0, "read(n) with n >= 0")
            # a short read at end of stream silently yields fewer bytes in Python and garbage downstream:
            # the stream must hold at least n more bytes (obligation on the reader's precondition)
            self.oblige(st, "safety", node, n.t <= l.n, "stream exhausted: read(n) needs n more bytes")
            take = n.t
            i = z3.Int(fresh_name("ri"))
            rest = VList(l.ety, z3.simplify(l.n - take), z3.Lambda([i], z3.Select(l.a, i + take)))
            self.mutate(f.value, rest, st)
            return VList(l.ety, z3.simplify(take), l.a)
        if attr == "pop":
            if args:
                c = const_int(args[0])
                if c not in (-1,):
                    self.unsupported(node, "pop(i)")
            self.oblige(st, "safety", node, l.n > 0, "pop from empty list")
            self.mutate(f.value, VList(l.ety, l.n - 1, l.a), st)
            return l.get(l.n - 1)
        if attr == "index":
            x = args[0]
            i = z3.Int(fresh_name("ix"))
            j = z3.Int(fresh_name("ixj"))
            self.oblige(st, "safety", node, self.contains(l, x, node, st), "list.index: value not in list")
            st.assume(z3.And(0 <= i, i < l.n, eq(l.get(i), x),
                             z3.ForAll([j], z3.Implies(z3.And(0 <= j, j < i), z3.Not(eq(l.get(j), x))))))
            return VInt(i)
        if attr == "count":
            self.unsupported(node, "list.count")
        if attr == "copy":
            return VList(l.ety, l.n, l.a)
        if attr == "decode" and l.ety == INT:
            return self.bytes_decode(l, node, st)
        self.unsupported(node, "list method " + attr)

    # -- sets
    def set_method(self, s, attr, f, node, st):
        args, kw = self.args_of(node, st)
        if attr in ("union", "difference", "intersection") and len(args) == 1 and isinstance(args[0], VSet):
            o = args[0]
            if hasattr(s, "lit_items") and hasattr(o, "lit_items"):
                def same(a, b):
                    return z3.is_true(z3.simplify(eq(a, b)))
                def known_diff(a, b):
                    return z3.is_false(z3.simplify(eq(a, b)))
                if attr == "union":
                    items = list(s.lit_items) + [x for x in o.lit_items if not any(same(x, y) for y in s.lit_items)]
                elif attr == "difference":
                    if not all(same(x, y) or known_diff(x, y) for x in s.lit_items for y in o.lit_items):
                        self.unsupported(node, "difference of literal sets with symbolic members")
                    items = [x for x in s.lit_items if not any(same(x, y) for y in o.lit_items)]
                else:
                    if not all(same(x, y) or known_diff(x, y) for x in s.lit_items for y in o.lit_items):
                        self.unsupported(node, "intersection of literal sets with symbolic members")
                    items = [x for x in s.lit_items if any(same(x, y) for y in o.lit_items)]
                kty = s.kty
                m = z3.K(sort_of(kty), z3.BoolVal(False))
                for it in items:
                    m = z3.Store(m, pack(coerce(it, kty)), z3.BoolVal(True))
                r = VSet(kty, m, z3.IntVal(len(items)))
                r.lit_items = items
                return r
            # symbolic sets: pointwise membership; the cardinalities are tied by inclusion-exclusion (|A|B| + |A&B| = |A| + |B|)
            if s.kty == o.kty and not getattr(s, "empty_literal", False) and not getattr(o, "empty_literal", False):
                x = z3.Const(fresh_name("sx"), sort_of(s.kty))
                lam = {"union": z3.Or, "intersection": z3.And}.get(attr)
                if attr == "difference":
                    m = z3.Lambda([x], z3.And(z3.Select(s.m, x), z3.Not(z3.Select(o.m, x))))
                else:
                    m = z3.Lambda([x], lam(z3.Select(s.m, x), z3.Select(o.m, x)))
                c = z3.Int(fresh_name("card"))
                r = VSet(s.kty, m, c)
                for w in wf(r):
                    st.assume(w)
                if attr == "union":
                    st.assume(z3.And(c >= s.c, c >= o.c, c <= s.c + o.c))
                elif attr == "intersection":
                    st.assume(z3.And(c <= s.c, c <= o.c, c >= s.c + o.c - (s.c + o.c)))
                else:
                    st.assume(z3.And(c <= s.c, c >= s.c - o.c))
                self.trusted_axioms.add("set.%s of symbolic sets: pointwise membership, cardinality bounded by inclusion-exclusion" % attr)
                return r
            self.unsupported(node, "set.%s on non-literal sets" % attr)
        if attr == "add":
            x = args[0]
            if isinstance(x, VOpt) and not getattr(s, "empty_literal", False) and not isinstance(s.kty, TOpt):
                x = self.unopt(x, node, st, "None added to a set of non-optional values")
            if getattr(s, "empty_literal", False):
                s = VSet(x.ty, z3.K(sort_of(x.ty), z3.BoolVal(False)), z3.IntVal(0))
            k = pack(coerce(x, s.kty))
            ns = VSet(s.kty, z3.Store(s.m, k, z3.BoolVal(True)), z3.If(z3.Select(s.m, k), s.c, s.c + 1))
            self.mutate(f.value, ns, st)
            return VNone()
        if attr == "update":
            x = args[0]
            if getattr(s, "empty_literal", False):
                if not isinstance(x, VList):
                    self.unsupported(node, "set.update of %s" % x.ty)
                s = zero_value(TSet(x.ety))
            if isinstance(x, VSet):
                k = z3.Const(fresh_name("uk"), sort_of(s.kty))
                nm = z3.Lambda([k], z3.Or(z3.Select(s.m, k), z3.Select(x.m, k)))
                hi = s.c + x.c
            elif isinstance(x, VList):
                k = z3.Const(fresh_name("uk"), sort_of(s.kty))
                j = z3.Int(fresh_name("uj"))
                nm = z3.Lambda([k], z3.Or(z3.Select(s.m, k), z3.Exists([j], z3.And(0 <= j, j < x.n, z3.Select(x.a, j) == k))))
                hi = s.c + x.n
            else:
                self.unsupported(node, "set.update of %s" % x.ty)
            nc = z3.Int(fresh_name("card"))
            ns = VSet(s.kty, nm, nc)
            st.assume(z3.And(nc >= s.c, nc <= hi))
            for fact in self.card_facts(ns):
                st.assume(fact)
            self.mutate(f.value, ns, st)
            return VNone()
        if attr == "discard":
            k = pack(coerce(args[0], s.kty))
            ns = VSet(s.kty, z3.Store(s.m, k, z3.BoolVal(False)), z3.If(z3.Select(s.m, k), s.c - 1, s.c))
            self.mutate(f.value, ns, st)
            return VNone()
        self.unsupported(node, "set method " + attr)

    # -- dicts
    def dict_method(self, d, attr, f, node, st):
        args, kw = self.args_of(node, st)
        if attr == "keys":
            return VSet(d.kty, d.m, d.c) if not getattr(d, "empty_literal", False) else self.bi_set(ast.Call(args=[]), st)
        if attr == "items" and not getattr(d, "empty_literal", False):
            # an arbitrary enumeration of the (key, value) pairs
            keys = self.list_of_set(VSet(d.kty, d.m, d.c), st)
            i = z3.Int(fresh_name("it"))
            pair = VTuple([keys.get(i), unpack(d.vty, z3.Select(d.a, z3.Select(keys.a, i)))])
            return VList(pair.ty, keys.n, z3.Lambda([i], pack(pair)))
        if attr == "values" and not getattr(d, "empty_literal", False):
            keys = self.list_of_set(VSet(d.kty, d.m, d.c), st)
            i = z3.Int(fresh_name("it"))
            return VList(d.vty, keys.n, z3.Lambda([i], z3.Select(d.a, z3.Select(keys.a, i))))
        if attr == "get":
            k = pack(coerce(args[0], d.kty))
            dflt = args[1] if len(args) > 1 else VNone()
            return ite(z3.Select(d.m, k), unpack(d.vty, z3.Select(d.a, k)), dflt)
        self.unsupported(node, "dict method " + attr)

    def str_method(self, s, attr, f, node, st):
        args, kw = self.args_of(node, st)
        if attr == "startswith" and isinstance(args[0], VStr):
            return VBool(z3.PrefixOf(args[0].t, s.t))
        if attr == "endswith" and isinstance(args[0], VStr):
            return VBool(z3.SuffixOf(args[0].t, s.t))
        if attr == "upper" and not args:
            # uninterpreted, with the two facts the code can rely on (same length, idempotent); what upper() does to the ACGT alphabet is
            # settled by the finite-domain table checks that call the real functions
            if not hasattr(self, "_py_upper"):
                self._py_upper = z3.Function("py_str_upper", z3.StringSort(), z3.StringSort())
            u = self._py_upper(s.t)
            st.assume(z3.And(z3.Length(u) == z3.Length(s.t), self._py_upper(u) == u))
            self.trusted_axioms.add("str.upper(): uninterpreted; length-preserving and idempotent (case folding itself is checked by enumeration)")
            return VStr(u)
        if attr == "decode":
            return self.bytes_decode(s, node, st)
        if attr == "encode" and len(args) + len(kw) <= 1:
            # same codec model as bytearray(s, encoding=...): the module constant ENCODING is the only codec the repository uses
            r = self.bytes_of(s)
            self.flush_pending(st)
            return r
        if attr == "split" and len(args) == 1 and isinstance(args[0], VStr):
            # axiomatised: len == 1 iff the delimiter does not occur; the last piece is the suffix after the last occurrence
            d = args[0]
            self.oblige(st, "safety", node, z3.Length(d.t) > 0, "empty separator")
            parts = fresh(TList(STR), "split")
            last = z3.Select(parts.a, parts.n - 1)
            pre = z3.String(fresh_name("split_prefix"))
            st.assume(parts.n >= 1)
            st.assume((parts.n == 1) == z3.Not(z3.Contains(s.t, d.t)))
            st.assume(z3.Implies(parts.n == 1, z3.Select(parts.a, 0) == s.t))
            st.assume(z3.Implies(parts.n > 1, z3.And(s.t == z3.Concat(pre, d.t, last), z3.Not(z3.Contains(last, d.t)))))
            self.trusted_axioms.add("str.split(d): one piece iff d does not occur; last piece = suffix after the last occurrence of d")
            return parts
        self.unsupported(node, "str method " + attr)

    def card_facts(self, s):
        """facts about the cardinality of a finite set that the code can observe through len(): emptiness and '> 1'"""
        x = z3.Const(fresh_name("cx"), sort_of(s.kty))
        y = z3.Const(fresh_name("cy"), sort_of(s.kty))
        return [(s.c > 0) == z3.Exists([x], z3.Select(s.m, x)),
                (s.c > 1) == z3.Exists([x, y], z3.And(x != y, z3.Select(s.m, x), z3.Select(s.m, y)))]

    def mutate(self, target_node, newval, st):
        """In-place mutation of the container denoted by target_node (reference semantics via write-back)."""
        if self.spec_depth > 0:
            raise Unsupported("mutation inside a contract expression")
        if st.guard:
            old = self.ev(target_node, st)
            newval = ite(zand(*st.guard), newval, old)
        self.assign_to(target_node, newval, st)

    # ---- bytes -------------------------------------------------------------------------------------------
    def to_bytes(self, v, n, node, st):
        c = const_int(n)
        if c is None or not (1 <= c <= 8):
            self.unsupported(node, "to_bytes with symbolic length")
        self.oblige(st, "safety", node, z3.And(v.t >= 0, v.t < 256 ** c), "OverflowError in int.to_bytes(%d)" % c)
        # the n bytes are introduced as fresh digits b_k in 0..255 with v == sum b_k * 256^(n-1-k): they exist and are
        # unique exactly under the safety condition above (definitional extension; friendlier to the solver than div/mod)
        digs = [z3.Int(fresh_name("byte")) for _ in range(c)]
        if self.spec_depth == 0:
            st.assume(z3.And(*[z3.And(d >= 0, d <= 255) for d in digs]))
            st.assume(v.t == z3.Sum(*[d * (256 ** (c - 1 - k)) for k, d in enumerate(digs)]))
            return self.mk_list([VInt(d) for d in digs], INT)
        items = [VInt((v.t / (256 ** (c - 1 - k))) % 256) for k in range(c)]
        return self.mk_list(items, INT)

    def from_bytes(self, b, node, st):
        if not isinstance(b, VList):
            self.unsupported(node, "from_bytes of %s" % b.ty)
        c = const_int(VInt(z3.simplify(b.n)))
        if c is None:
            # read(n) may return fewer bytes at end of stream; handle the ite form produced by `read`
            self.unsupported(node, "from_bytes of symbolic length (needs stream-length precondition)")
        t = z3.IntVal(0)
        for k in range(c):
            t = t * 256 + z3.Select(b.a, k)
        return VInt(t)

    # ---- spec functions & lemmas -----------------------------------------------------------------------
    def call_spec(self, s, args, node):
        # a spec function applied to an optional value under a guard (x is not None and f(x)): use the payload
        _tys = [T.parse_type(t) for t in s.arg_types]
        args = [a.v if isinstance(a, VOpt) and not isinstance(t, TOpt) else a for a, t in zip(args, _tys)]
        if not getattr(s, "recursive", None) and not s.opaque:
            if getattr(s, "recursive", None) is None:
                s.recursive = any(isinstance(n, ast.Call) and isinstance(n.func, ast.Name) and n.func.id == s.name
                                  for n in ast.walk(s.node))
            if not s.recursive:
                tys = [T.parse_type(t) for t in s.arg_types]
                st = State({p: coerce(a, t) for p, a, t in zip(s.params, args, tys)})
                self.spec_depth += 1
                try:
                    return coerce(self.spec_body(front.strip_doc(s.node.body), st), T.parse_type(s.ret_type))
                finally:
                    self.spec_depth -= 1
        if s.z3fn is None:
            self.define_spec(s)
        tys = [T.parse_type(t) for t in s.arg_types]
        flat = [x for a, t in zip(args, tys) for x in flatten(coerce(a, t))]
        return unpack(T.parse_type(s.ret_type), s.z3fn(*flat))

    def define_spec(self, s):
        tys = [T.parse_type(t) for t in s.arg_types]
        rty = T.parse_type(s.ret_type)
        sorts = [x for t in tys for x in flat_sorts(t)]
        import os
        axiom_mode = os.environ.get("PYVC_SPEC_MODE", "axiom") == "axiom"
        if axiom_mode:
            f = z3.Function("spec_" + s.name, *(sorts + [sort_of(rty)]))
        else:
            f = z3.RecFunction("spec_" + s.name, *(sorts + [sort_of(rty)]))
        s.z3fn = f
        consts = [z3.Const("%s_a%d" % (s.name, k), so) for k, so in enumerate(sorts)]
        rest = list(consts)
        st = State({p: unflatten(t, rest) for p, t in zip(s.params, tys)})
        self.spec_depth += 1
        try:
            body = self.spec_body(front.strip_doc(s.node.body), st)
        finally:
            self.spec_depth -= 1
        if axiom_mode:
            # definitional axiom, instantiated by E-matching on applications of f (Boogie style)
            app = f(*consts)
            ax = z3.ForAll(consts, app == pack(coerce(body, rty)), patterns=[app])
            if s.opaque:
                OPAQUE_AXIOMS[s.name] = ax
            else:
                SPEC_AXIOMS[s.name] = ax
        else:
            z3.RecAddDefinition(f, consts, pack(coerce(body, rty)))

    def spec_body(self, stmts, st):
        if not stmts:
            raise Unsupported("spec function falls off the end")
        s = stmts[0]
        if isinstance(s, ast.Return):
            return self.ev(s.value, st)
        if isinstance(s, ast.If):
            c = self.ev_bool(s.test, st)
            a = self.spec_body(list(s.body) + stmts[1:], st.copy())
            b = self.spec_body(list(s.orelse) + stmts[1:], st.copy())
            return ite(c, a, b)
        if isinstance(s, ast.Assign) and len(s.targets) == 1 and isinstance(s.targets[0], ast.Name):
            st.vars[s.targets[0].id] = self.ev(s.value, st)
            return self.spec_body(stmts[1:], st)
        raise Unsupported("spec function statement " + type(s).__name__)

    def lemma_instance(self, l, args, node):
        st = State({p: coerce(a, T.parse_type(t)) for (p, t), a in zip(l.params.items(), args)})
        self.used_lemmas.add(l.name)
        pre = [self.spec_bool(r, st) for r in l.requires]
        post = [self.spec_bool(e, st) for e in l.ensures]
        return z3.Implies(zand(*pre), zand(*post))

    def assume_hint(self, st, src, extra=None):
        """A hint is a lemma instance (or any proved spec fact).  For a lemma call the instantiated precondition is
        discharged here, with the solver, from the current path condition; only then is the conclusion assumed.  If it
        cannot be discharged the implication is assumed instead (still sound: the lemma is proved separately)."""
        node = ast.parse(src, mode="eval").body
        if isinstance(node, ast.Call) and isinstance(node.func, ast.Name) and node.func.id in api.LEMMAS:
            l = api.LEMMAS[node.func.id]
            s2 = st
            if extra:
                s2 = st.copy()
                s2.vars.update(extra)
            self.spec_depth += 1
            try:
                args = [self.ev(a, s2) for a in node.args]
            finally:
                self.spec_depth -= 1
            ls = State({p: coerce(a, T.parse_type(t)) for (p, t), a in zip(l.params.items(), args)})
            self.used_lemmas.add(l.name)
            pre = [self.spec_bool(r, ls) for r in l.requires]
            post = [self.spec_bool(e, ls) for e in l.ensures]
            sol = z3.Solver()
            sol.set("timeout", 3000)
            sol.set("auto_config", False)
            sol.set("smt.mbqi", False)
            from .engine import relevant_axioms
            probe = Obligation(self.cur_name, "hint-pre", "x", st.pc, zand(*pre))
            probe.reveal = tuple(getattr(self.contract_stack[0], "reveal", ()) if self.contract_stack else ()) + \
                tuple(getattr(self, "cur_reveal", ()))
            sol.add(*relevant_axioms(probe))
            sol.add(*st.pc)
            sol.add(z3.Not(zand(*pre)))
            if sol.check() == z3.unsat:
                for q in post:
                    st.assume(q)
            else:
                st.assume(z3.Implies(zand(*pre), zand(*post)))
            return
        # any other hint is a proof step ("assert"): it must be proved from the current path condition before it is assumed
        g = self.spec_bool(src, st, extra)
        self.obligations.append(Obligation(self.cur_name, "hint", "H%d" % self.hint_no, st.conds(), g, "proof step: " + src,
                                           self.path_no, self.inputs, 0))
        self.hint_no += 1
        st.assume(g)

    # ---- user functions ------------------------------------------------------------------------------------
    def callee_def(self, c):
        if getattr(c, "params", None):
            args = ast.arguments(posonlyargs=[], args=[ast.arg(arg=p) for p in c.params], kwonlyargs=[], kw_defaults=[], defaults=[])
            return ast.FunctionDef(name=c.short, args=args, body=[], decorator_list=[]), "", None
        return front.find_def(c.qual)

    def bind_params(self, c, fdef, args, kw, node, st):
        params = [a.arg for a in fdef.args.args]
        defaults = fdef.args.defaults
        bound = {}
        for p, a in zip(params, args):
            bound[p] = a
        if len(args) > len(params):
            self.unsupported(node, "too many arguments for " + c.qual)
        for k, v in kw.items():
            bound[k] = v
        nd = len(defaults)
        for p, d in zip(params[len(params) - nd:], defaults):
            if p not in bound:
                self.spec_depth += 1
                try:
                    bound[p] = self.ev(d, State())
                finally:
                    self.spec_depth -= 1
        for p in params:
            if p not in bound:
                if p in ("self", "cls"):
                    bound[p] = VNone()
                    continue
                self.unsupported(node, "missing argument %s for %s" % (p, c.qual))
        # coerce to declared types
        for p in params:
            if p in c.args and c.args[p]:
                try:
                    want = T.parse_type(c.args[p])
                    if isinstance(bound[p], VOpt) and not isinstance(want, TOpt):
                        self.oblige(st, "call-pre", node, z3.Not(bound[p].isnone), "%s of %s must not be None" % (p, c.name))
                        bound[p] = bound[p].v
                    bound[p] = coerce(bound[p], want)
                except Unsupported:
                    if not isinstance(bound[p], (VFunc, VNone)):
                        raise
        return params, bound

    def call_user(self, c, args, kw, node, st, recv_node):
        fdef, _, _ = self.callee_def(c)
        params, bound = self.bind_params(c, fdef, args, kw, node, st)
        self.callees.add(c.qual)
        if c.transparent:
            return self.inline_call(c, fdef, bound, node, st)
        # ---- modular: assert pre, havoc frame, assume post
        cs = State(bound)
        cs.entry = cs
        saved_consts = self.contract_stack
        self.contract_stack = self.contract_stack + [c]
        try:
            for k, r in enumerate(c.requires):
                g = self.spec_bool(r, cs)
                self.oblige(st, "call-pre", node, g, "precondition of %s: %s" % (c.name, r))
            # frame
            post_state = State(dict(bound))
            post_state.entry = cs
            arg_nodes = self.arg_nodes(fdef, params, node, recv_node)
            for m in c.modifies:
                mnode = ast.parse(m, mode="eval").body
                root = mnode
                while not isinstance(root, ast.Name):
                    root = root.value
                oldv = self.ev(mnode, post_state)
                newv = fresh(oldv.ty, m.replace(".", "_"))
                for w in wf(newv):
                    st.assume(w)
                self.assign_to(mnode, newv, post_state)
                # write back into the caller's state
                an = arg_nodes.get(root.id)
                if an is None:
                    if isinstance(bound.get(root.id), (VRec, VList, VDict, VSet)):
                        self.unsupported(node, "callee %s modifies %s but the argument is not an lvalue" % (c.name, m))
                    continue
                caller_target = _replace_root(mnode, an)
                self.mutate(caller_target, self.ev(mnode, post_state), st)
            if c.returns in (None, "none", "None"):
                res = VNone()
            else:
                res = fresh(T.parse_type(c.returns), "ret_" + c.short)
                for w in wf(res):
                    st.assume(w)
            post_state.vars["result"] = res
            for e in c.ensures:
                st.assume(z3.Implies(zand(*st.guard), self.spec_bool(e, post_state)) if st.guard
                          else self.spec_bool(e, post_state))
        finally:
            self.contract_stack = saved_consts
        return res

    def arg_nodes(self, fdef, params, node, recv_node):
        out = {}
        ps = list(params)
        if recv_node is not None and ps and ps[0] in ("self", "cls"):
            out[ps[0]] = recv_node
            ps = ps[1:]
        elif ps and ps[0] in ("self", "cls") and isinstance(node.func, ast.Attribute):
            ps = ps[1:]
        for p, a in zip(ps, node.args):
            if isinstance(a, (ast.Name, ast.Attribute, ast.Subscript)):
                out[p] = a
        for k in node.keywords:
            if isinstance(k.value, (ast.Name, ast.Attribute, ast.Subscript)):
                out[k.arg] = k.value
        return out

    def inline_call(self, c, fdef, bound, node, st):
        if self.inline_depth > 6:
            raise Unsupported("inline depth exceeded at " + c.qual)
        s0 = State(bound, st.pc + st.guard)
        s0.entry = s0
        base_len = len(s0.pc)
        self.inline_depth += 1
        self.inline_prefix.append("@%s." % c.short)
        saved = (self.cur_rel, self.contract_stack)
        self.cur_rel = c.qual.split(":")[0]
        self.contract_stack = self.contract_stack + [c]
        try:
            outs = self.exec_block(front.strip_doc(fdef.body), s0)
        finally:
            self.inline_depth -= 1
            self.inline_prefix.pop()
            self.cur_rel, self.contract_stack = saved
        res = None
        results = []
        for s, sig in outs:
            if sig is None:
                v = VNone()
            elif sig[0] == "return":
                v = sig[1]
            else:
                raise Unsupported("transparent callee %s ends with %s" % (c.qual, sig))
            for p, a in bound.items():
                if s.vars.get(p) is not a and isinstance(a, (VList, VDict, VSet, VRec)):
                    if p not in [m.split(".")[0] for m in c.modifies]:
                        raise Unsupported("transparent callee %s mutates its argument %s (not in modifies)" % (c.qual, p))
            results.append((zand(*s.pc[base_len:]), v, s))
        if not results:
            # no feasible path: call site unreachable
            st.assume(z3.BoolVal(False))
            return VNone()
        res = results[-1][1]
        for cnd, v, _s in reversed(results[:-1]):
            res = self.merge(cnd, v, res)
        # facts established inside the callee (definitional extensions, checked safety conditions) hold for the caller
        fact = zor(*[cnd for cnd, _, _ in results])
        st.assume(z3.Implies(zand(*st.guard), fact) if st.guard else fact)
        # write back arguments the callee mutated in place (declared in its modifies)
        roots = sorted({m.split(".")[0] for m in c.modifies})
        if roots:
            params = [a.arg for a in fdef.args.args]
            recv = getattr(node, "_explicit_recv", None) or (node.func.value if isinstance(node.func, ast.Attribute) else None)
            an = self.arg_nodes(fdef, params, node, recv)
            for p in roots:
                if p not in bound or not isinstance(bound[p], (VList, VDict, VSet, VRec)):
                    continue
                finals = [(cnd, _s.vars[p]) for cnd, v, _s in results]
                if all(fv is bound[p] for _, fv in finals):
                    continue
                merged = finals[-1][1]
                for cnd, fv in reversed(finals[:-1]):
                    merged = ite(cnd, fv, merged)
                if p not in an:
                    raise Unsupported("callee %s mutates %s but the argument is not an lvalue" % (c.qual, p))
                self.mutate(an[p], merged, st)
        return res


def _replace_root(node, new_root):
    if isinstance(node, ast.Name):
        return new_root
    if isinstance(node, ast.Attribute):
        return ast.Attribute(value=_replace_root(node.value, new_root), attr=node.attr, ctx=ast.Load())
    if isinstance(node, ast.Subscript):
        return ast.Subscript(value=_replace_root(node.value, new_root), slice=node.slice, ctx=ast.Load())
    raise Unsupported("modifies path form")
