"""Front end: reads the real source from the repository working tree on every run."""
import ast
import hashlib
import os

REPO = os.environ.get("VERIF_REPO", "/repo")

_mod_cache = {}


class Missing(Exception):
    pass


VERIF = os.path.dirname(os.path.dirname(os.path.abspath(__file__)))


def module_ast(relpath):
    # "verif/<path>" names a harness in /verif (sidecar code that calls the real functions); anything else is /repo
    p = os.path.join(VERIF, relpath[6:]) if relpath.startswith("verif/") else os.path.join(REPO, relpath)
    if p not in _mod_cache:
        if not os.path.exists(p):
            raise Missing("source file %s not found" % relpath)
        src = open(p).read()
        _mod_cache[p] = (ast.parse(src), src)
    return _mod_cache[p]


def find_def(qual):
    """qual = 'src/common.py:func' or 'src/x.py:Class.method' -> (FunctionDef, source_text, class_node|None)"""
    rel, name = qual.split("#")[0].split(":")
    tree, src = module_ast(rel)
    parts = name.split(".")
    body = tree.body
    cls = None
    node = None
    for k, part in enumerate(parts):
        node = None
        for n in body:
            if isinstance(n, (ast.FunctionDef, ast.ClassDef)) and n.name == part:
                node = n
                break
        if node is None:
            raise Missing("%s not found in %s" % (name, rel))
        if isinstance(node, ast.ClassDef):
            cls = node
            body = node.body
        elif k != len(parts) - 1:
            body = node.body
    if not isinstance(node, ast.FunctionDef):
        raise Missing("%s in %s is not a function" % (name, rel))
    return node, ast.get_source_segment(src, node), cls


def find_class(rel, cname):
    tree, src = module_ast(rel)
    for n in tree.body:
        if isinstance(n, ast.ClassDef) and n.name == cname:
            return n
    raise Missing("class %s not found in %s" % (cname, rel))


def func_fingerprint(qual):
    node, text, _ = find_def(qual)
    return {"function": qual, "lines": [node.lineno, node.end_lineno],
            "sha256": hashlib.sha256(text.encode()).hexdigest()}


def module_constants(rel):
    """Top-level NAME = <literal expr> bindings of a module (evaluated lazily by the executor)."""
    tree, _ = module_ast(rel)
    out = {}
    for n in tree.body:
        if isinstance(n, ast.Assign) and len(n.targets) == 1 and isinstance(n.targets[0], ast.Name):
            out[n.targets[0].id] = n.value
    return out


def enum_members(rel, cname):
    """Members of an Enum class body in source order: [(name, python constant)]"""
    c = find_class(rel, cname)
    out = []
    for n in c.body:
        if isinstance(n, ast.Assign) and len(n.targets) == 1 and isinstance(n.targets[0], ast.Name):
            try:
                out.append((n.targets[0].id, ast.literal_eval(n.value)))
            except Exception:
                pass
    return out


def class_methods(rel, cname):
    c = find_class(rel, cname)
    return {n.name: n for n in c.body if isinstance(n, ast.FunctionDef)}


def strip_doc(body):
    if body and isinstance(body[0], ast.Expr) and isinstance(body[0].value, ast.Constant) and isinstance(body[0].value.value, str):
        return body[1:]
    return body


def imported_constants(rel, depth=0):
    """Top-level constants visible in module `rel` through `from .x import ...` / `from src.x import ...` (one hop per level)."""
    out = {}
    if depth > 2:
        return out
    try:
        tree, _ = module_ast(rel)
    except Missing:
        return out
    base = os.path.dirname(rel)
    for n in tree.body:
        if isinstance(n, ast.ImportFrom) and n.module:
            if n.level == 1:
                target = os.path.join(base, n.module.replace(".", "/") + ".py")
            elif n.module.startswith("src."):
                target = n.module.replace(".", "/") + ".py"
            else:
                continue
            if not os.path.exists(os.path.join(REPO, target)):
                continue
            consts = dict(imported_constants(target, depth + 1))
            consts.update(module_constants(target))
            names = [a.name for a in n.names]
            for k, v in consts.items():
                if "*" in names or k in names:
                    out.setdefault(k, v)
    return out
