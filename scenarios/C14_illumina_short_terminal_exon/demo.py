#!/usr/bin/env python3
"""
Side observation at baseline (C14): with --illumina_bam an intergenic read with a short terminal exon loses
that exon - its start (or end) moves - although no terminal-exon correction exists in the short-read
corrector and the chosen strategy (default_pacbio) enables none.

"A corrected read keeps its original start and end unless a terminal-exon correction enabled by the chosen
strategy applies."

IlluminaExonCorrector.correct_exons replaces a long-read intron by a pair of short-read introns ("skipped exon")
when the outer ends are within SIDE_DIFF = 25 bp of the long-read intron; it never checks that the pair lies
inside the read.  If the first exon of the read is <= 25 bp the left short-read intron may start before the
read start; get_exons() then silently drops the first exon and the read starts at the inserted micro exon.

exit 1: observation reproduced (property violated on unmodified code); exit 0: not reproduced.
"""
import gzip
import os
import random
import shutil
import subprocess
import sys
import tempfile

import pysam

WORKTREE = os.path.dirname(os.path.dirname(os.path.abspath(__file__)))
CHR = "chr1"
CHR_LEN = 9000

GENE_EXONS = [(6001, 6200), (7001, 7200)]         # annotated gene far away from the reads

LONG_READS = {
    # 20 bp first exon, intron 1020-2000
    "ig_short_first_exon": [(1000, 1019), (2001, 2200)],
    # mirror image: 10 bp last exon, intron 3201-4000
    "ig_short_last_exon": [(3000, 3200), (4001, 4010)],
}
# short reads supporting introns (995,1500)+(1530,2000) and (3201,3500)+(3530,4015)  (1-based inclusive introns)
SHORT_READS = {
    "sr1": [(945, 994), (1501, 1529)],
    "sr2": [(1501, 1529), (2001, 2050)],
    "sr3": [(3151, 3200), (3501, 3529)],
    "sr4": [(3501, 3529), (4016, 4065)],
}


def make_genome(path):
    rnd = random.Random(141)
    seq = "".join(rnd.choice("ACGT") for _ in range(CHR_LEN))
    with open(path, "w") as f:
        f.write(">%s\n" % CHR)
        for i in range(0, len(seq), 60):
            f.write(seq[i:i + 60] + "\n")
    pysam.faidx(path)
    return seq


def make_gtf(path):
    attr_g = 'gene_id "G1"; gene_name "G1";'
    attr_t = 'gene_id "G1"; transcript_id "T1"; gene_name "G1";'
    with open(path, "w") as f:
        f.write("\t".join([CHR, "demo", "gene", str(GENE_EXONS[0][0]), str(GENE_EXONS[-1][1]), ".", "+", ".", attr_g]) + "\n")
        f.write("\t".join([CHR, "demo", "transcript", str(GENE_EXONS[0][0]), str(GENE_EXONS[-1][1]), ".", "+", ".", attr_t]) + "\n")
        for e in GENE_EXONS:
            f.write("\t".join([CHR, "demo", "exon", str(e[0]), str(e[1]), ".", "+", ".", attr_t]) + "\n")


def make_bam(path, genome, reads):
    header = pysam.AlignmentHeader.from_dict({"HD": {"VN": "1.0", "SO": "coordinate"},
                                              "SQ": [{"SN": CHR, "LN": CHR_LEN}]})
    records = []
    for name, blocks in reads.items():
        a = pysam.AlignedSegment(header)
        a.query_name = name
        a.reference_id = 0
        a.reference_start = blocks[0][0] - 1
        a.flag = 0
        a.mapping_quality = 60
        cigar = []
        seq = ""
        for i, b in enumerate(blocks):
            if i > 0:
                cigar.append((3, b[0] - blocks[i - 1][1] - 1))
            cigar.append((0, b[1] - b[0] + 1))
            seq += genome[b[0] - 1:b[1]]
        a.cigartuples = cigar
        a.query_sequence = seq
        a.query_qualities = pysam.qualitystring_to_array("I" * len(seq))
        records.append(a)
    records.sort(key=lambda r: r.reference_start)
    unsorted = path + ".unsorted.bam"
    with pysam.AlignmentFile(unsorted, "wb", header=header) as out:
        for r in records:
            out.write(r)
    pysam.sort("-o", path, unsorted)
    os.remove(unsorted)
    pysam.index(path)


def read_bed(path):
    opener = gzip.open if path.endswith(".gz") else open
    res = {}
    with opener(path, "rt") as f:
        for line in f:
            if line.startswith("#") or not line.strip():
                continue
            t = line.rstrip("\n").split("\t")
            start = int(t[1])
            sizes = [int(x) for x in t[10].split(",")]
            starts = [int(x) for x in t[11].split(",")]
            res[t[3]] = [(start + s + 1, start + s + l) for s, l in zip(starts, sizes)]
    return res


def main():
    tmp = tempfile.mkdtemp(prefix="c14_side1_")
    try:
        home = os.path.join(tmp, "home")
        os.makedirs(home)
        fasta = os.path.join(tmp, "genome.fa")
        gtf = os.path.join(tmp, "genes.gtf")
        bam = os.path.join(tmp, "long.bam")
        sbam = os.path.join(tmp, "short.bam")
        out = os.path.join(tmp, "out")
        genome = make_genome(fasta)
        make_gtf(gtf)
        make_bam(bam, genome, LONG_READS)
        make_bam(sbam, genome, SHORT_READS)
        env = dict(os.environ)
        env["HOME"] = home
        cmd = [sys.executable, os.path.join(WORKTREE, "isoquant.py"),
               "--reference", fasta, "--genedb", gtf, "--complete_genedb",
               "--bam", bam, "--illumina_bam", sbam, "--data_type", "pacbio_ccs",
               "--no_model_construction", "-p", "demo", "-t", "1", "-o", out]
        p = subprocess.run(cmd, cwd=tmp, env=env, stdout=subprocess.PIPE, stderr=subprocess.STDOUT, text=True)
        if p.returncode != 0:
            print(p.stdout[-3000:])
            print("isoquant.py failed with code %d - observation not reproduced" % p.returncode)
            return 0
        bed_path = None
        for cand in ("demo.corrected_reads.bed.gz", "demo.corrected_reads.bed"):
            if os.path.exists(os.path.join(out, "demo", cand)):
                bed_path = os.path.join(out, "demo", cand)
        bed = read_bed(bed_path)
        bad = []
        for read_id, blocks in LONG_READS.items():
            if read_id not in bed:
                print("%s: not in corrected_reads.bed" % read_id)
                continue
            print("%-22s input %s\n%-22s bed   %s" % (read_id, blocks, "", bed[read_id]))
            if (bed[read_id][0][0], bed[read_id][-1][1]) != (blocks[0][0], blocks[-1][1]):
                bad.append("%s: start/end %d-%d in the input alignment, %d-%d in corrected_reads.bed" %
                           (read_id, blocks[0][0], blocks[-1][1], bed[read_id][0][0], bed[read_id][-1][1]))
        if bad:
            print("REPRODUCED (baseline violation): short-read correction moved the read start/end:")
            for b in bad:
                print("  - " + b)
            return 1
        print("not reproduced: all reads keep their start and end")
        return 0
    finally:
        shutil.rmtree(tmp, ignore_errors=True)


if __name__ == "__main__":
    sys.exit(main())
