"""Drives the real per-read pipeline pieces for bounded checks (C01, C13, C14):
pysam.AlignedSegment -> AlignmentInfo -> CombinedProfileConstructor -> LongReadAssigner -> ExonCorrector -> BEDPrinter.
Only real classes of /repo are used; the generator of genes and reads is ours."""
import importlib.util
import os
from argparse import Namespace

from pyvc import front, native

_MAIN = [None]


def isoquant_main():
    if _MAIN[0] is None:
        native.repo_import("src/common.py")
        spec_ = importlib.util.spec_from_file_location("isoquant_main_h", os.path.join(front.REPO, "isoquant.py"))
        mod = importlib.util.module_from_spec(spec_)
        spec_.loader.exec_module(mod)
        _MAIN[0] = mod
    return _MAIN[0]


def make_params(splice_correction_strategy="default_ont", matching_strategy="default", delta=None):
    m = isoquant_main()
    args = Namespace(matching_strategy=matching_strategy, delta=delta, resolve_ambiguous="default",
                     splice_correction_strategy=splice_correction_strategy, count_exons=False, cage=None)
    m.set_matching_options(args)
    m.set_splice_correction_options(args)
    return args


def make_gene(rng, n_iso=None):
    """a gene with 1-3 isoforms over a common exon pool: [(id, strand, exons)]"""
    k = rng.randint(3, 7)
    p = 1000
    pool = []
    for _ in range(k):
        a = p + rng.randint(300, 900)
        b = a + rng.randint(60, 260)
        pool.append((a, b))
        p = b
    strand = rng.choice("+-")
    isoforms = [("T1", strand, list(pool))]
    for t in range(1, n_iso if n_iso else rng.randint(1, 3)):
        ex = list(pool)
        kind = rng.choice(["skip", "altsite", "short"])
        if kind == "skip" and len(ex) > 3:
            del ex[rng.randint(1, len(ex) - 2)]
        elif kind == "altsite":
            i = rng.randint(0, len(ex) - 2)
            ex[i] = (ex[i][0], ex[i][1] + rng.choice([25, 40, 77]))
        else:
            ex = ex[:max(2, len(ex) - rng.randint(1, 2))]
        if ex != pool and all(ex != e for _, _, e in isoforms):
            isoforms.append(("T%d" % (t + 1), strand, ex))
    return isoforms


def gene_info_of(isoforms, delta):
    gi = native.repo_import("src/gene_info.py")
    models = [gi.TranscriptModel("chr1", s, tid, "G1", list(ex), gi.TranscriptModelType.known) for tid, s, ex in isoforms]
    return gi.GeneInfo.from_models(models, delta)


def make_alignment(exons, name="read_1"):
    import pysam
    cigar = []
    for i, e in enumerate(exons):
        if i > 0:
            cigar.append((3, e[0] - exons[i - 1][1] - 1))
        cigar.append((0, e[1] - e[0] + 1))
    seg = pysam.AlignedSegment()
    seg.query_name, seg.flag, seg.reference_id = name, 0, 0
    seg.reference_start, seg.mapping_quality, seg.cigartuples = exons[0][0] - 1, 60, cigar
    seg.query_sequence = "A" * sum(l for op, l in cigar if op == 0)
    return seg


def derive_read(rng, exons, kind, delta):
    """a read alignment derived from isoform exons; returns exon blocks (well-formed) or None when the perturbation does not apply"""
    ex = list(exons)
    n = len(ex)
    if kind == "exact":
        pass
    elif kind == "truncated":
        lo = rng.randint(0, max(0, n - 2))
        hi = rng.randint(lo + 1, n) if n > 1 else n
        ex = ex[lo:hi]
        if len(ex) >= 1:
            ex[0] = (min(ex[0][1], ex[0][0] + rng.randint(0, 40)), ex[0][1])
            ex[-1] = (ex[-1][0], max(ex[-1][0], ex[-1][1] - rng.randint(0, 40)))
    elif kind == "jitter":
        out = []
        for i, (a, b) in enumerate(ex):
            a2 = a + (rng.randint(-delta, delta) if i > 0 else 0)
            b2 = b + (rng.randint(-delta, delta) if i < n - 1 else 0)
            out.append((a2, b2))
        ex = out
    elif kind == "terminal_left_misaligned" and n >= 3:
        gap = ex[1][0] - ex[0][1]
        ln = min(ex[0][1] - ex[0][0], 80)
        if gap > ln + 40:
            s = ex[0][1] + 20 + rng.randint(0, gap - ln - 40)
            ex[0] = (s, s + ln)
    elif kind == "terminal_right_misaligned" and n >= 3:
        gap = ex[-1][0] - ex[-2][1]
        ln = min(ex[-1][1] - ex[-1][0], 80)
        if gap > ln + 40:
            s = ex[-2][1] + 20 + rng.randint(0, gap - ln - 40)
            ex[-1] = (s, s + ln)
    elif kind == "terminal_both_misaligned" and n >= 4:
        a = derive_read(rng, ex, "terminal_left_misaligned", delta)
        ex = derive_read(rng, a, "terminal_right_misaligned", delta) if a else None
    elif kind == "skipped_exon" and n >= 3:
        del ex[rng.randint(1, n - 2)]
    elif kind == "fake_terminal_exon" and n >= 2:
        if rng.random() < .5:
            s = ex[0][0] - rng.randint(200, 500)
            if s > 10:
                ex = [(s, s + rng.randint(3, 12))] + ex
        else:
            s = ex[-1][1] + rng.randint(200, 500)
            ex = ex + [(s, s + rng.randint(3, 12))]
    elif kind == "fake_terminal_exon_both" and n >= 2:
        # a spurious micro-exon on BOTH ends of the same read (the corrector removes the left one first, then the right one)
        s = ex[0][0] - rng.randint(200, 500)
        if s <= 10:
            return None
        e_ = ex[-1][1] + rng.randint(200, 500)
        ex = [(s, s + rng.randint(3, 12))] + ex + [(e_, e_ + rng.randint(3, 12))]
    elif kind == "intron_retention" and n >= 2:
        i = rng.randint(0, n - 2)
        ex = ex[:i] + [(ex[i][0], ex[i + 1][1])] + ex[i + 2:]
    elif kind == "partial_intron_retention" and n >= 2:
        # the read starts (ends) deep inside an annotated intron: its terminal block is the exon plus >= 100 retained intronic bases
        lo = rng.randint(0, n - 2)
        hi = rng.randint(lo + 1, n - 1)
        if rng.random() < .5:
            lo += 1
            gap = ex[lo][0] - ex[lo - 1][1] - 1
            if gap < 140:
                return None
            ex = ex[lo:hi + 1]
            ex[0] = (ex[0][0] - rng.randint(100, min(gap - 30, 600)), ex[0][1])
        else:
            gap = ex[hi][0] - ex[hi - 1][1] - 1
            if gap < 140:
                return None
            ex = ex[lo:hi]
            ex[-1] = (ex[-1][0], ex[-1][1] + rng.randint(100, min(gap - 30, 600)))
    elif kind == "novel_intron_in_exon":
        # an unannotated intron of 70-200 bp (far above the 60 bp "long deletion" cap of every preset) inside an annotated inner exon
        # (inner exons only: a short piece split off a terminal exon is, by design, treated as a fake terminal exon)
        cand = [i for i in range(1, n - 1) if ex[i][1] - ex[i][0] >= 160]
        if not cand:
            return None
        i = rng.choice(cand)
        a, b = ex[i]
        gap = rng.randint(70, min(200, b - a - 80))
        s = a + rng.randint(40, b - a - gap - 40)
        ex = ex[:i] + [(a, s - 1), (s + gap, b)] + ex[i + 1:]
    elif kind == "intron_shift" and n >= 3:
        i = rng.randint(1, n - 2)
        sh = rng.choice([-1, 1]) * rng.randint(delta + 1, delta + 12)
        ex[i] = (ex[i][0] + sh, ex[i][1] + sh)
    elif kind == "novel_exon" and n >= 2:
        i = rng.randint(0, n - 2)
        gap = ex[i + 1][0] - ex[i][1]
        if gap > 200:
            s = ex[i][1] + 60
            ex = ex[:i + 1] + [(s, s + 50)] + ex[i + 1:]
    else:
        return None
    if not ex or any(a > b for a, b in ex) or any(ex[i][1] + 1 >= ex[i + 1][0] for i in range(len(ex) - 1)) or ex[0][0] < 1:
        return None
    return ex


READ_KINDS = ["exact", "truncated", "jitter", "terminal_left_misaligned", "terminal_right_misaligned", "terminal_both_misaligned",
              "skipped_exon", "fake_terminal_exon", "intron_retention", "intron_shift", "novel_exon", "partial_intron_retention", "novel_intron_in_exon", "fake_terminal_exon_both"]


def assign(gene_info, params, read_exons, polya=(-1, -1, -1, -1), trimmed_blocks=None):
    """trimmed_blocks = (blocks before, blocks after): terminal blocks of the raw alignment (a polyT head / polyA tail aligned behind an N
    gap) that AlignmentInfo.add_polya_info has trimmed away - the pysam record still carries them, the AlignmentInfo does not"""
    ai = native.repo_import("src/alignment_info.py")
    lrp = native.repo_import("src/long_read_profiles.py")
    lra = native.repo_import("src/long_read_assigner.py")
    pf = native.repo_import("src/polya_finder.py")
    if trimmed_blocks:
        before, after = trimmed_blocks
        info = ai.AlignmentInfo(make_alignment(list(before) + list(read_exons) + list(after)))
        # what add_polya_info does once PolyAFixer has counted the tail exons
        lo, hi = len(before), len(before) + len(read_exons)
        info.read_exons, info.read_blocks, info.cigar_blocks = info.read_exons[lo:hi], info.read_blocks[lo:hi], info.cigar_blocks[lo:hi]
        info.exons_changed = True
        info.read_start, info.read_end = info.read_exons[0][0], info.read_exons[-1][1]
        assert info.read_exons == list(read_exons)
    else:
        info = ai.AlignmentInfo(make_alignment(read_exons))
    info.polya_info = pf.PolyAInfo(*polya)
    info.cage_hits = []
    info.construct_profiles(lrp.CombinedProfileConstructor(gene_info, params))
    ra = lra.LongReadAssigner(gene_info, params).assign_to_isoform("read_1", info.combined_profile)
    return ra, info


def correct(gene_info, params, ra, info):
    ec = native.repo_import("src/exon_corrector.py")
    corrector = ec.ExonCorrector(gene_info, params, None)
    ra.exons = info.read_exons
    ra.corrected_exons = corrector.correct_assigned_read(info, ra)
    ra.gene_info = gene_info
    ra.mapped_strand = "+"
    return ra.corrected_exons
