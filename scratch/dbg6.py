import sys, time
sys.path.insert(0, '/verif')
from pyvc import api, engine, run
run.load_contracts()
import z3
q = sys.argv[1]; name = sys.argv[2]
c = api.REG[q]
eng = engine.Engine(run.class_home())
eng.generate(c)
for ob in eng.obligations:
    if name in ob.name:
        ax = engine.relevant_axioms(ob)
        for em, tmo in ((True, 2000), (False, 5000), (True, 40000)):
            s = z3.Solver(); s.set("timeout", tmo)
            if em:
                s.set("auto_config", False); s.set("smt.mbqi", False)
            s.add(*ax); s.add(*ob.assumptions); s.add(z3.Not(ob.goal))
            t0=time.time(); r = s.check()
            print(ob.name, ob.path, "ematch" if em else "default", tmo, r, s.reason_unknown() if r == z3.unknown else "", "%.2f" % (time.time()-t0))
