"""Token-stream symbolic execution of the object formats (C15).

`serialize` is executed symbolically into a sequence of typed tokens (one per write_* call, in order, each bound to the
attribute expression it writes); `deserialize` is executed against that sequence (one token per read_* call in Python
evaluation order, each bound to the attribute it is stored into).  Obligations, one per stream position:
  align.k : the reader at position k consumes exactly the encoding the writer produced there (same primitive, same width,
            same element codec) -- this is byte alignment, given the primitive contracts proved in c_serialization;
  field.k : the value read at position k is stored into the attribute it was written from, through inverse wrappers
            (Enum(.value), float(int(x*M))/float(M), bool(int(b))).
Bodies must be straight-line sequences of primitive calls; anything else makes the format unsupported (reported)."""
import ast
from . import front

WRITERS = {"write_int": "int", "write_short_int": "short", "write_int_neg": "intneg", "write_string": "str",
           "write_string_or_none": "strnone", "write_bool_array": "bools", "write_list": "list",
           "write_list_of_pairs": "pairs", "write_dict": "dict"}
READERS = {"read_int": "int", "read_short_int": "short", "read_int_neg": "intneg", "read_string": "str",
           "read_string_or_none": "strnone", "read_bool_array": "bools", "read_list": "list",
           "read_list_of_pairs": "pairs", "read_dict": "dict"}
WIDTH_CONST = {"SHORT_INT_BYTES": 2, "LONG_INT_BYTES": 4}


class SchemaError(Exception):
    pass


def _codec(node, table):
    """element codec passed to write_list / read_list"""
    if isinstance(node, ast.Name) and node.id in table:
        k = table[node.id]
        return ("int", 4) if k == "int" else (("int", 2) if k == "short" else (k,))
    if isinstance(node, ast.Attribute) and isinstance(node.value, ast.Name) and node.attr in ("serialize", "deserialize"):
        return ("obj", node.value.id)
    raise SchemaError("unknown element codec " + ast.unparse(node))


def _width(node):
    if node is None:
        return 4
    if isinstance(node, ast.Constant):
        return node.value
    if isinstance(node, ast.Name) and node.id in WIDTH_CONST:
        return WIDTH_CONST[node.id]
    raise SchemaError("unknown width " + ast.unparse(node))


def writer_tokens(fdef):
    toks = []
    for s in front.strip_doc(fdef.body):
        if not (isinstance(s, ast.Expr) and isinstance(s.value, ast.Call) and isinstance(s.value.func, ast.Name)
                and s.value.func.id in WRITERS):
            raise SchemaError("serialize body is not a straight-line sequence of write_* calls: " + ast.unparse(s)[:60])
        c = s.value
        kind = WRITERS[c.func.id]
        src = c.args[0]
        if kind == "int":
            w = _width(c.args[2] if len(c.args) > 2 else None)
            toks.append({"kind": ("int", w), "src": [ast.unparse(src)], "line": s.lineno})
        elif kind == "short":
            toks.append({"kind": ("int", 2), "src": [ast.unparse(src)], "line": s.lineno})
        elif kind in ("intneg", "str", "strnone", "dict"):
            toks.append({"kind": (kind,), "src": [ast.unparse(src)], "line": s.lineno})
        elif kind == "bools":
            if not isinstance(src, ast.List):
                raise SchemaError("write_bool_array of a non-literal list")
            toks.append({"kind": ("bools", len(src.elts)), "src": [ast.unparse(e) for e in src.elts], "line": s.lineno})
        elif kind in ("list", "pairs"):
            toks.append({"kind": (kind, _codec(c.args[2], WRITERS)), "src": [ast.unparse(src)], "line": s.lineno})
    return toks


def _reader_calls(expr):
    """reader calls inside expr, in Python evaluation order, each with the chain of wrappers around it"""
    out = []

    def visit(n, wrappers):
        if isinstance(n, ast.Call) and isinstance(n.func, ast.Name) and n.func.id in READERS:
            out.append((n, list(wrappers)))
            return
        if isinstance(n, ast.Call):
            for k, a in enumerate(n.args):
                visit(a, wrappers + [("call", ast.unparse(n.func), k, len(n.args))])
            return
        if isinstance(n, ast.Tuple):
            for k, e in enumerate(n.elts):
                visit(e, wrappers + [("tuple", k)])
            return
        if isinstance(n, ast.BinOp):
            visit(n.left, wrappers + [("binop-left", type(n.op).__name__, ast.unparse(n.right))])
            visit(n.right, wrappers + [("binop-right", type(n.op).__name__, ast.unparse(n.left))])
            return
        for ch in ast.iter_child_nodes(n):
            visit(ch, wrappers + [("other", type(n).__name__)])

    visit(expr, [])
    return out


def reader_tokens(fdef):
    """-> (tokens, obj_name).  Token: kind, dest (attribute path string or None when discarded / local), wrappers"""
    toks = []
    body = front.strip_doc(fdef.body)
    obj = None
    locals_ = {}  # local name -> token index
    extra = []  # (dest attr, expression over locals) for fields computed from locals
    for s in body:
        if isinstance(s, ast.Return):
            continue
        if isinstance(s, ast.Assign) and isinstance(s.value, ast.Call) and isinstance(s.value.func, ast.Attribute) \
                and s.value.func.attr == "__new__":
            obj = s.targets[0].id
            continue
        if isinstance(s, ast.For):
            # post-processing loops over already-read locals are allowed only if they contain no reader call
            if any(isinstance(n, ast.Call) and isinstance(n.func, ast.Name) and n.func.id in READERS for n in ast.walk(s)):
                raise SchemaError("reader call inside a loop")
            continue
        value = s.value if isinstance(s, (ast.Assign, ast.Expr)) else None
        if value is None:
            raise SchemaError("unsupported statement in deserialize: " + ast.unparse(s)[:60])
        calls = _reader_calls(value)
        if not calls and any(isinstance(n, ast.Name) and n.id in ("infile", "inf") for n in ast.walk(value)):
            # the stream is touched by something that is not one of the primitive readers (seek, raw read, ...):
            # recorded as a token of unknown width, which aligns with nothing
            toks.append({"kind": ("raw-stream-access", ast.unparse(value)[:50]), "dest": None, "wrappers": [], "line": s.lineno})
            continue
        dest = None
        if isinstance(s, ast.Assign):
            t = s.targets[0]
            if isinstance(t, ast.Attribute) and isinstance(t.value, ast.Name) and t.value.id == obj:
                dest = t.attr
            elif isinstance(t, ast.Name):
                dest = "@" + t.id
        if not calls:
            if isinstance(s, ast.Assign) and dest and not dest.startswith("@"):
                extra.append((dest, ast.unparse(s.value)))
            continue
        for c, wr in calls:
            kind = READERS[c.func.id]
            if kind == "int":
                k = ("int", _width(c.args[1] if len(c.args) > 1 else None))
            elif kind == "short":
                k = ("int", 2)
            elif kind in ("intneg", "str", "strnone", "dict"):
                k = (kind,)
            elif kind == "bools":
                k = ("bools", c.args[1].value if len(c.args) > 1 else 1)
            else:
                k = (kind, _codec(c.args[1], READERS))
            toks.append({"kind": k, "dest": dest, "wrappers": wr, "line": c.lineno})
            if dest and dest.startswith("@"):
                locals_[dest[1:]] = len(toks) - 1
    return toks, obj, locals_, extra


def kinds_align(wk, rk):
    """reader rk consumes exactly what writer wk produced"""
    if wk == rk:
        return True
    if wk[0] == "bools" and rk[0] == "bools":
        return rk[1] <= wk[1] <= 8  # one byte either way; a prefix of the flags may be requested
    return False


def norm_src(src):
    """strip writer-side wrappers: x.value, int(x * SHORT_FLOAT_MULTIPLIER), int(x)  -> (attribute path, wrapper tag)"""
    n = ast.parse(src, mode="eval").body
    tag = "id"
    if isinstance(n, ast.Attribute) and n.attr == "value":
        n, tag = n.value, "enum"
    elif isinstance(n, ast.Call) and isinstance(n.func, ast.Name) and n.func.id == "int" and len(n.args) == 1:
        a = n.args[0]
        if isinstance(a, ast.BinOp) and isinstance(a.op, ast.Mult) and ast.unparse(a.right) == "SHORT_FLOAT_MULTIPLIER":
            n, tag = a.left, "fixed"
        else:
            n, tag = a, "boolint"
    return ast.unparse(n), tag


def norm_dest(tok, ctor_params):
    """reader-side wrappers -> (attribute path relative to the object, wrapper tag)"""
    dest = tok["dest"]
    wr = tok["wrappers"]
    path = dest
    tag = "id"
    for w in wr:
        if w[0] == "tuple":
            path = "%s[%d]" % (path, w[1])
        elif w[0] == "call":
            fn = w[1]
            if fn == "float":
                tag = "fixed" if tag in ("id", "fixed") else tag
            elif fn == "bool":
                tag = "boolint"
            elif fn in ctor_params:
                path = "%s.%s" % (path, ctor_params[fn][w[2]])
            elif fn[:1].isupper():
                tag = "enum:" + fn
            else:
                return path, "unknown-wrapper:" + fn
        elif w[0] == "binop-left" and w[1] == "Div" and "SHORT_FLOAT_MULTIPLIER" in w[2]:
            tag = "fixed"
        elif w[0] in ("binop-left", "binop-right", "other"):
            return path, "unknown-wrapper"
    return path, tag


def ctor_params_of(classes):
    """{ClassName: [param names]} for classes whose __init__ stores every parameter under its own name"""
    out = {}
    for rel, cname in classes:
        try:
            fdef, _, _ = front.find_def("%s:%s.__init__" % (rel, cname))
        except front.Missing:
            continue
        params = [a.arg for a in fdef.args.args][1:]
        stored = set()
        for s in fdef.body:
            if isinstance(s, ast.Assign) and isinstance(s.targets[0], ast.Attribute) and isinstance(s.value, ast.Name) \
                    and s.targets[0].attr == s.value.id:
                stored.add(s.value.id)
        if all(p in stored for p in params):
            out[cname] = params
    return out


def check_format(rel, cname, ser="serialize", des="deserialize", fields=True, ctor_classes=()):
    """-> dict(obligations=[(name, ok, detail)], unsupported=msg|None)"""
    obls = []
    try:
        sdef, _, _ = front.find_def("%s:%s" % (rel, ser if "." in ser else cname + "." + ser))
        ddef, _, _ = front.find_def("%s:%s.%s" % (rel, cname, des))
        wt = writer_tokens(sdef)
        rt, obj, locals_, extra = reader_tokens(ddef)
    except (SchemaError, front.Missing) as e:
        return {"obligations": [], "unsupported": "%s.%s: %s" % (cname, des, e)}
    cps = ctor_params_of(ctor_classes)
    base = "%s.%s" % (cname, des)
    obls.append((base + ".schema.length", len(wt) == len(rt),
                 "writer emits %d tokens, reader consumes %d" % (len(wt), len(rt))))
    for k in range(min(len(wt), len(rt))):
        w, r = wt[k], rt[k]
        ok = kinds_align(w["kind"], r["kind"])
        obls.append(("%s.schema.align.%d" % (base, k), ok,
                     "position %d: written as %s (line %d: %s), read as %s (line %d)" % (k, w["kind"], w["line"], w["src"], r["kind"], r["line"])))
    if fields:
        for k in range(min(len(wt), len(rt))):
            w, r = wt[k], rt[k]
            if r["dest"] is None:
                obls.append(("%s.schema.field.%d" % (base, k), False, "position %d (%s) is read and discarded" % (k, w["src"])))
                continue
            if r["dest"].startswith("@"):
                # local: each later use  obj.attr = local[i]  must match the i-th written source
                continue
            if w["kind"][0] == "bools":
                obls.append(("%s.schema.field.%d" % (base, k), False, "bool array stored directly"))
                continue
            sp, stag = norm_src(w["src"][0])
            dp, dtag = norm_dest(r, cps)
            ok = (sp == "self." + dp) and (stag == dtag or (stag == "enum" and dtag.startswith("enum:")))
            obls.append(("%s.schema.field.%d" % (base, k), ok,
                         "position %d: written from %s [%s], stored into %s [%s]" % (k, sp, stag, dp, dtag)))
        # fields assigned from locals (bool_arr[i], exons...)
        for dest, expr in extra:
            n = ast.parse(expr, mode="eval").body
            if isinstance(n, ast.Subscript) and isinstance(n.value, ast.Name) and n.value.id in locals_ \
                    and isinstance(n.slice, ast.Constant):
                tk = locals_[n.value.id]
                w = wt[tk] if tk < len(wt) else None
                i = n.slice.value
                ok = w is not None and w["kind"][0] == "bools" and i < len(w["src"]) and w["src"][i] == "self." + dest
                obls.append(("%s.schema.field.%s" % (base, dest), ok,
                             "%s = %s; written flags: %s" % (dest, expr, w["src"] if w else None)))
    return {"obligations": obls, "unsupported": None, "writer": wt, "reader": rt, "locals": locals_, "extra": extra}


def dict_codec_obligations(rel="src/serialization.py"):
    """write_dict / read_dict: per value-type tag, the reader must decode with the inverse of the writer's codec."""
    obls = []
    try:
        wdef, _, _ = front.find_def(rel + ":write_dict")
        rdef, _, _ = front.find_def(rel + ":read_dict")
    except front.Missing as e:
        return [("dict.codec.present", False, str(e))]
    consts = front.module_constants(rel)

    def const_val(name):
        try:
            return ast.literal_eval(consts[name])
        except Exception:
            return None

    wmap = {}
    for n in ast.walk(wdef):
        if isinstance(n, ast.If) and isinstance(n.test, ast.Call) and getattr(n.test.func, "id", "") == "isinstance":
            tag = None
            kinds = []
            for s in n.body:
                for c in ast.walk(s):
                    if isinstance(c, ast.Call) and isinstance(c.func, ast.Attribute) and c.func.attr == "to_bytes" \
                            and isinstance(c.func.value, ast.Name):
                        tag = c.func.value.id
                    if isinstance(c, ast.Call) and isinstance(c.func, ast.Name) and c.func.id in WRITERS:
                        kinds.append(WRITERS[c.func.id])
            if tag:
                wmap[tag] = kinds
    rmap = {}
    for n in ast.walk(rdef):
        if isinstance(n, ast.If) and isinstance(n.test, ast.Compare) and isinstance(n.test.comparators[0], ast.Name):
            tag = n.test.comparators[0].id
            kinds = []
            for s in n.body:
                for c, _ in _reader_calls(s.value if isinstance(s, (ast.Assign, ast.Expr)) else s):
                    kinds.append(READERS[c.func.id])
            rmap[tag] = kinds
    obls.append(("dict.codec.tags", set(wmap) == set(rmap) and len(wmap) > 0,
                 "writer tags %s, reader tags %s" % (sorted(wmap), sorted(rmap))))
    vals = [const_val(t) for t in wmap]
    obls.append(("dict.codec.tags_distinct_bytes", all(isinstance(v, int) and 0 <= v < 256 for v in vals)
                 and len(set(vals)) == len(vals), "tag values %s" % vals))
    for t in sorted(set(wmap) & set(rmap)):
        obls.append(("dict.codec.%s" % t, wmap[t] == rmap[t], "tag %s: written with %s, read with %s" % (t, wmap[t], rmap[t])))
    return obls
