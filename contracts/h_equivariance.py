"""Relational harnesses for C11 (sidecar code calling the REAL functions of src/common.py and src/polya_verification.py twice):
translation by k and reflection p -> C - p.  pyvc inlines the real (transparent) bodies / uses the callee contracts."""
import sys
from pyvc import front
sys.path.insert(0, front.REPO)
from src.common import *  # noqa


def tr(r, k):
    return (r[0] + k, r[1] + k)


def mir(r, c):
    return (c - r[1], c - r[0])


# ---- translation: f(x + k) == f(x) (+ k for coordinates) ------------------------------------------------------------------------
def t_overlaps(a, b, k):
    return overlaps(tr(a, k), tr(b, k)) == overlaps(a, b)


def t_contains(a, b, k):
    return contains(tr(a, k), tr(b, k)) == contains(a, b)


def t_left_of(a, b, k):
    return left_of(tr(a, k), tr(b, k)) == left_of(a, b)


def t_equal_ranges(a, b, d, k):
    return equal_ranges(tr(a, k), tr(b, k), d) == equal_ranges(a, b, d)


def t_intersection_len(a, b, k):
    return intersection_len(tr(a, k), tr(b, k)) == intersection_len(a, b)


def t_overlap_intervals(a, b, k):
    return overlap_intervals(tr(a, k), tr(b, k)) == tr(overlap_intervals(a, b), k)


def t_max_range(a, b, k):
    return max_range(tr(a, k), tr(b, k)) == tr(max_range(a, b), k)


def t_covers(a, b, k):
    return covers_end(tr(a, k), tr(b, k)) == covers_end(a, b) and covers_start(tr(a, k), tr(b, k)) == covers_start(a, b)


def t_contains_well_inside(a, b, d, k):
    return contains_well_inside(tr(a, k), tr(b, k), d) == contains_well_inside(a, b, d) and \
        contains_approx(tr(a, k), tr(b, k), d) == contains_approx(a, b, d)


def t_overlaps_at_least(a, b, d, k):
    return overlaps_at_least(tr(a, k), tr(b, k), d) == overlaps_at_least(a, b, d)


def t_interval_len(a, k):
    return interval_len(tr(a, k)) == interval_len(a)


# ---- reflection: left/right twins agree under p -> c - p --------------------------------------------------------------------------
def m_overlaps(a, b, c):
    return overlaps(mir(a, c), mir(b, c)) == overlaps(a, b)


def m_left_of(a, b, c):
    # "a lies left of b" mirrors into "b lies left of a"
    return left_of(mir(b, c), mir(a, c)) == left_of(a, b)


def m_covers(a, b, c):
    # covers_end and covers_start are mirror images of each other
    return covers_start(mir(a, c), mir(b, c)) == covers_end(a, b)


def m_contains(a, b, d, c):
    return contains(mir(a, c), mir(b, c)) == contains(a, b) and \
        contains_well_inside(mir(a, c), mir(b, c), d) == contains_well_inside(a, b, d)


def m_equal_ranges(a, b, d, c):
    return equal_ranges(mir(a, c), mir(b, c), d) == equal_ranges(a, b, d)


def m_intersection(a, b, c):
    return intersection_len(mir(a, c), mir(b, c)) == intersection_len(a, b) and \
        overlap_intervals(mir(a, c), mir(b, c)) == mir(overlap_intervals(a, b), c) and max_range(mir(a, c), mir(b, c)) == mir(max_range(a, b), c)


def m_overlaps_at_least(a, b, d, c):
    # "overlap of at least d positions, or one range inside the other" is symmetric in the two ranges and blind to the direction of the axis
    return overlaps_at_least(mir(a, c), mir(b, c), d) == overlaps_at_least(a, b, d) and overlaps_at_least(b, a, d) == overlaps_at_least(a, b, d)


def m_overlaps_at_least_when_overlap(a, b, d, c):
    return overlaps_at_least_when_overlap(mir(a, c), mir(b, c), d) == overlaps_at_least_when_overlap(a, b, d) and \
        overlaps_at_least_when_overlap(b, a, d) == overlaps_at_least_when_overlap(a, b, d)
