"""Contracts for read-to-isoform assignment (C01): classification of event sets, terminal-exon tolerances, matching presets;
plus the bounded end-to-end check through the real assigner."""
import ast
from pyvc.api import contract, spec, lemma, record, finite, bounded, enum_from_repo
from pyvc import native, front

LA = "src/long_read_assigner.py:"
IA = "src/isoform_assignment.py:"
IV = "tuple[int,int]"
IVS = "list[tuple[int,int]]"
CLASS_HOME = {"MatchEventSubtype": "src/isoform_assignment.py", "ReadAssignmentType": "src/isoform_assignment.py",
              "LongReadAssigner": "src/long_read_assigner.py"}
enum_from_repo("src/isoform_assignment.py", "MatchEventSubtype")
enum_from_repo("src/isoform_assignment.py", "ReadAssignmentType")
MES = "enum:MatchEventSubtype"

for nm in ("is_consistent", "is_major_inconsistency", "is_intronic_inconsistency", "is_minor_error", "is_alignment_artifact"):
    contract(IA + "MatchEventSubtype." + nm, {"match_event_subtype": MES}, returns="bool", transparent=True, props=[], ensures=[], native=False)


def _classify_extract(fdef):
    """LongReadAssigner.classify_assignment: the decision chain from `if all(MatchEventSubtype.is_consistent(e) ...)` to the return, as a
    function of the set of event types and of `is_abmiguous`; drops the two loops that only collect the event types of the best isoforms"""
    node = None
    for n in front.strip_doc(fdef.body):
        if isinstance(n, ast.If) and ast.unparse(n.test).startswith("all((MatchEventSubtype.is_consistent(e)"):
            node = n
    if node is None:
        raise front.Missing("decision chain of classify_assignment not found")
    ret = ast.Return(value=ast.Name(id="assignment_type", ctx=ast.Load()))
    args = ast.arguments(posonlyargs=[], args=[ast.arg(arg="self"), ast.arg(arg="all_event_types"), ast.arg(arg="is_abmiguous")],
                         kwonlyargs=[], kw_defaults=[], defaults=[])
    return ast.FunctionDef(name="classify_assignment", args=args, body=[node, ret], decorator_list=[], lineno=node.lineno, col_offset=0)


@spec("enum:MatchEventSubtype -> bool")
def ev_consistent(e):
    return MatchEventSubtype.is_consistent(e)


@spec("enum:MatchEventSubtype -> bool")
def ev_major(e):
    return MatchEventSubtype.is_major_inconsistency(e)


@spec("enum:MatchEventSubtype -> bool")
def ev_minor(e):
    return MatchEventSubtype.is_minor_error(e)


@spec("enum:MatchEventSubtype -> bool")
def ev_intronic(e):
    return MatchEventSubtype.is_intronic_inconsistency(e)


CONS_T = ("(result == ReadAssignmentType.unique or result == ReadAssignmentType.unique_minor_difference or result == ReadAssignmentType.ambiguous)")

contract(LA + "LongReadAssigner.classify_assignment#decision", {"self": None, "all_event_types": "set[enum:MatchEventSubtype]", "is_abmiguous": "bool"},
         returns="enum:ReadAssignmentType", props=["C01"], extract=_classify_extract, native=False,
         ensures=[
             # a read carrying any major structural event (skipped / extra exon, retained intron, alternative splice site, alternative
             # polyA / TSS, ...) is never reported with a consistent assignment type
             "not any(ev_major(e) for e in all_event_types) or not %s" % CONS_T,
             # consistent exactly when nothing major is present and every event is consistent or some event is a tolerated minor error
             "%s == (not any(ev_major(e) for e in all_event_types) and (all(ev_consistent(e) for e in all_event_types) or any(ev_minor(e) for e in all_event_types)))" % CONS_T,
             # unique* only for a single best isoform, ambiguous only for several
             "is_abmiguous or result != ReadAssignmentType.ambiguous",
             "not is_abmiguous or (result != ReadAssignmentType.unique and result != ReadAssignmentType.unique_minor_difference)",
             # intronic contradictions are reported as `inconsistent`, purely terminal ones as `inconsistent_non_intronic`
             "is_abmiguous or all(ev_consistent(e) for e in all_event_types) or not any(ev_major(e) for e in all_event_types) or "
             "(result == ReadAssignmentType.inconsistent) == any(ev_intronic(e) for e in all_event_types)"],
         canary="result == ReadAssignmentType.unique")


@finite("C01.event_tables", ["C01"], note="data-structure lemmas on the event tables of src/isoform_assignment.py, enumerated over all "
        "MatchEventSubtype members with the real predicates: consistent and major events are disjoint, minor errors and major events are "
        "disjoint, intronic major events are major, nic and nnic types are disjoint and together are exactly the major events, every "
        "event type has a cost entry except the ones attached after scoring")
def c01_tables(tier, rng):
    ia = native.repo_import("src/isoform_assignment.py")
    M = ia.MatchEventSubtype
    obl = dis = 0
    viol = []
    def ob(name, ok, detail=""):
        nonlocal obl, dis
        obl += 1
        if ok:
            dis += 1
        else:
            viol.append({"obligation": "C01.tables.%s" % name, "inputs": None, "observed": detail, "required": name})
    for e in M:
        ob("consistent_not_major.%s" % e.name, not (M.is_consistent(e) and M.is_major_inconsistency(e)))
        ob("minor_not_major.%s" % e.name, not (M.is_minor_error(e) and M.is_major_inconsistency(e)))
        ob("intronic_is_major.%s" % e.name, (not M.is_intronic_inconsistency(e)) or M.is_major_inconsistency(e))
        ob("nic_xor_nnic.%s" % e.name, not (e in ia.nic_event_types and e in ia.nnic_event_types))
        ob("major_is_nic_or_nnic.%s" % e.name, M.is_major_inconsistency(e) == (e in ia.nic_event_types or e in ia.nnic_event_types))
    missing = [e.name for e in M if e not in ia.event_subtype_cost and e not in (M.antisense, M.aligned_polya_tail)]
    ob("cost_table_total", not missing, "no cost for %s" % missing)
    return {"obligations": obl, "discharged": dis, "violations": viol, "cases": obl, "exhaustive": True,
            "bound": "all %d event types" % len(list(M)), "samples": [{"event": "exon_skipping_known", "major": True}]}


# ---- the property's own sentence, bounded, through the real assigner -------------------------------------------------------------------
CONSISTENT = ("unique", "unique_minor_difference", "ambiguous")


def _assign_case(seed):
    import random
    from contracts import pipeline_harness as H
    rng = random.Random(seed)
    matching = rng.choice(["default", "precise", "loose", "exact"])
    params = H.make_params("default_ont", matching)
    single = rng.random() < .5
    isoforms = H.make_gene(rng, 1 if single else None)
    # one case in eight (own generator, so that all other seeds keep their cases): a sibling isoform whose only difference from T1 is one
    # inner splice site moved by 1..delta bp - two annotated introns within the tolerance of each other at both ends; the read then follows
    # one of the two exactly and that isoform must be among the reported ones
    rng3 = random.Random(seed * 104729 + 7)
    near = rng3.random() < .125 and params.delta >= 1 and len(isoforms[0][2]) >= 3
    if near:
        ex1 = list(isoforms[0][2])
        i = rng3.randrange(0, len(ex1) - 1)
        dshift = rng3.randint(1, params.delta)
        if rng3.random() < .5:
            ex1[i] = (ex1[i][0], ex1[i][1] + dshift)
        else:
            ex1[i + 1] = (ex1[i + 1][0] - dshift, ex1[i + 1][1])
        if ex1[i][1] + 20 < ex1[i + 1][0] and all(ex1 != e for _, _, e in isoforms):
            isoforms = [isoforms[0], ("Tnear", isoforms[0][1], ex1)] + isoforms[1:]
        else:
            near = False
    gi = H.gene_info_of(isoforms, params.delta)
    tid, strand, exons = rng.choice(isoforms)
    kind = rng.choice(["exact", "truncated", "jitter", "intron_retention", "skipped_exon", "novel_exon", "partial_intron_retention",
                       "distant_5p_end", "novel_intron_in_exon"])
    if near:
        tid, strand, exons = isoforms[rng3.randrange(2)]
        kind = "exact"
        single = False
    len_diff = None
    # a tenth kind, drawn from a generator of its own so that the cases of all earlier seeds (incl. the listed witness) stay what they were
    rng2 = random.Random(seed * 7919 + 13)
    if rng2.random() < .1:
        kind = "alt_terminal_exon"
    rng4 = random.Random(seed * 15485863 + 11)
    early_polya = rng4.random() < .06
    rng5 = random.Random(seed * 32452843 + 3)
    utr_variant = not early_polya and rng5.random() < .05
    rng6 = random.Random(seed * 49979687 + 5)
    unspliced_over_intron = not early_polya and not utr_variant and rng6.random() < .05
    if early_polya:
        # the only isoform has two further exons behind the read's polyA tail, the last of them short (8-40 bp): a transcript end two exons
        # and hundreds of bases before the annotated one is an alternative polyA site, however short the last annotated exon is (own
        # generator and own gene: earlier seeds keep their cases)
        k = rng4.randint(4, 6)
        q, ex = 1000, []
        for _ in range(k):
            a = q + rng4.randint(300, 900)
            b = a + rng4.randint(100, 260)
            ex.append((a, b))
            q = b
        short = rng4.randint(8, 40)
        strand = rng4.choice("+-")
        if strand == "+":
            ex[-1] = (ex[-1][0], ex[-1][0] + short - 1)
            read = ex[:-2]
            read[-1] = (read[-1][0], read[-1][1] - rng4.randint(0, 30))
        else:
            ex[0] = (ex[0][1] - short + 1, ex[0][1])
            read = ex[2:]
            read[0] = (read[0][0] + rng4.randint(0, 30), read[0][1])
        isoforms, single, near = [("T1", strand, ex)], True, False
        gi = H.gene_info_of(isoforms, params.delta)
        tid, exons, kind = "T1", ex, "early_polya_two_exons_missing"
    elif unspliced_over_intron:
        # an unspliced read that contains a whole intron (150-900 bp) of the only isoform, with 20-60 aligned bases on either side: a retained
        # intron whatever the matching preset (own generator and own gene)
        k = rng6.randint(3, 5)
        q, ex = 1000, []
        for _ in range(k):
            a = q + rng6.randint(150, 900)
            b = a + rng6.randint(100, 260)
            ex.append((a, b))
            q = b
        strand = rng6.choice("+-")
        i = rng6.randrange(0, k - 1)
        isoforms, single, near = [("T1", strand, list(ex))], True, False
        gi = H.gene_info_of(isoforms, params.delta)
        tid, exons, kind = "T1", ex, "unspliced_over_intron"
        read = [(ex[i][1] - rng6.randint(20, 60), ex[i + 1][0] + rng6.randint(20, 60))]
    elif utr_variant:
        # two isoforms with one intron chain (3' UTR variants, ends 150-400 bp apart); the read is a copy of the shorter one and carries the
        # tail at its 3' end: it follows that isoform exactly (own generator and own gene)
        k = rng5.randint(3, 5)
        q, ex = 1000, []
        for _ in range(k):
            a = q + rng5.randint(300, 900)
            b = a + rng5.randint(100, 260)
            ex.append((a, b))
            q = b
        strand = rng5.choice("+-")
        ext = rng5.randint(150, 400)
        longer = list(ex)
        if strand == "+":
            longer[-1] = (ex[-1][0], ex[-1][1] + ext)
        else:
            longer[0] = (ex[0][0] - ext, ex[0][1])
        isoforms, single, near = [("Tshort", strand, list(ex)), ("Tlong", strand, longer)], False, False
        if rng5.random() < .5:
            isoforms.reverse()
        gi = H.gene_info_of(isoforms, params.delta)
        tid, exons, kind = "Tshort", ex, "exact"
        read = list(ex)
    elif kind == "alt_terminal_exon":
        # all inner exons of T, but the first (or last) exon lies 800-3000 bp further out, not overlapping T's terminal exon: an alternative
        # first / last exon, a structural difference far beyond every tolerance whatever its length
        if len(exons) < 3:
            return None, []
        far = rng2.randint(800, 3000)
        len_diff = rng2.choice([0, 1, -1, 5, -5, 11, -11, 12, -12, 23, -23, 24, -24, 40, -40, 80, -80, 150])
        read = list(exons)
        if rng2.random() < .5:
            ln = max(30, exons[0][1] - exons[0][0] + 1 + len_diff)
            len_diff = ln - (exons[0][1] - exons[0][0] + 1)
            a = exons[0][0] - far - ln
            if a < 1:
                return None, []
            read[0] = (a, a + ln - 1)
        else:
            ln = max(30, exons[-1][1] - exons[-1][0] + 1 + len_diff)
            len_diff = ln - (exons[-1][1] - exons[-1][0] + 1)
            a = exons[-1][1] + far
            read[-1] = (a, a + ln - 1)
    elif rng2.random() < .09:
        # two extra exons outside the isoform on one side (two unannotated introns), the outermost one short enough to pass for a fake
        # terminal exon (10-35 bp): extra exons are a structural difference whatever the length of the outermost piece
        kind = "two_extra_outer_exons"
        short, mid = rng2.randint(10, 35), rng2.randint(80, 160)
        g1, g2 = rng2.randint(200, 600), rng2.randint(200, 600)
        read = list(exons)
        if rng2.random() < .5:
            b2 = exons[0][0] - g1
            a2 = b2 - mid
            b1 = a2 - g2
            a1 = b1 - short
            if a1 < 1:
                return None, []
            read = [(a1, b1), (a2, b2)] + read
        else:
            a2 = exons[-1][1] + g1
            b2 = a2 + mid
            a1 = b2 + g2
            read = read + [(a2, b2), (a1, a1 + short)]
    elif kind == "skipped_exon":
        big = [i for i in range(1, len(exons) - 1) if exons[i][1] - exons[i][0] >= 150]
        if not big:
            return None, []
        read = exons[:big[0]] + exons[big[0] + 1:]
    elif kind == "distant_5p_end":
        # all of T's introns, but the 5' end lies 300-900 bp outside T's terminal exon (10x the terminal tolerance and more)
        far = rng.randint(300, 900)
        read = list(exons)
        if strand == "+":
            if exons[0][0] - far < 1:
                return None, []
            read[0] = (exons[0][0] - far, exons[0][1])
        else:
            read[-1] = (exons[-1][0], exons[-1][1] + far)
    else:
        read = H.derive_read(rng, exons, kind, params.delta if matching != "exact" else 0)
    # a polyA tail at the read's 3' end (polyT head for a '-' isoform): documented as tolerated; it must not turn a distant 5' end or any
    # other structural difference into a consistent assignment either
    polya = (-1, -1, -1, -1)
    if early_polya:
        polya = (read[-1][1] - rng4.randint(0, 3), -1, -1, -1) if strand == "+" else (-1, read[0][0] + rng4.randint(0, 3), -1, -1)
    if utr_variant:
        polya = (read[-1][1], -1, -1, -1) if strand == "+" else (-1, read[0][0], -1, -1)
    tail = not early_polya and not utr_variant and not unspliced_over_intron and rng.random() < .5 and read is not None and kind in ("exact", "jitter", "distant_5p_end", "intron_retention", "skipped_exon", "novel_exon", "novel_intron_in_exon")
    if tail:
        if strand == "+":
            polya = (read[-1][1] - rng.randint(0, 3), -1, -1, -1)
        else:
            polya = (-1, read[0][0] + rng.randint(0, 3), -1, -1)
    if read is None or len(read) < 2 and kind not in ("truncated", "partial_intron_retention", "unspliced_over_intron"):
        return None, []
    if kind == "truncated" and len(read) < 2:
        return None, []
    ra, info = H.assign(gi, params, read, polya)
    t = ra.assignment_type.name
    reported = [m.assigned_transcript for m in ra.isoform_matches]
    events = sorted({e.event_type.name for m in ra.isoform_matches for e in m.match_subclassifications})
    desc = {"matching": matching, "kind": kind, "tail": polya, "isoform": tid, "n_isoforms": len(isoforms), "read": read, "type": t,
            "reported": reported, "events": events}
    if len_diff is not None:
        desc["terminal_exon_len_diff"] = len_diff
        desc["delta"] = params.delta
    problems = []
    if kind in ("exact", "truncated", "jitter"):
        if t not in CONSISTENT:
            problems.append("a read that follows %s within the tolerances is typed %s" % (tid, t))
        if kind in ("exact", "jitter") and tid not in reported:
            problems.append("full-length read of %s: %s is not among the reported isoforms %s" % (tid, tid, reported))
        if single and t in CONSISTENT and (t == "ambiguous" or reported != [tid]):
            problems.append("%s is the only isoform but the assignment is %s to %s" % (tid, t, reported))
    else:
        # far beyond every tolerance; with a single annotated isoform nothing else can explain the read
        if single and t in CONSISTENT:
            problems.append("a read with %s relative to the only isoform is typed %s" % (kind, t))
    return desc, problems


def kf_two_isoforms_within_tolerance(inputs):
    """known-finding class: the (full-length) read lies within delta of the junctions of ANOTHER annotated isoform as well, and only that
    one is reported (two annotated splice sites closer than 2 * delta; the profile matches the read intron to the nearer one)"""
    import random
    from contracts import pipeline_harness as H
    desc, problems = _assign_case(inputs["seed"])
    if not desc or not problems or not all(p.startswith("full-length read of") for p in problems):
        return False
    if desc["type"] not in CONSISTENT or not desc["reported"]:
        return False
    rng = random.Random(inputs["seed"])
    matching = rng.choice(["default", "precise", "loose", "exact"])
    params = H.make_params("default_ont", matching)
    single = rng.random() < .5
    isoforms = {t: ex for t, _s, ex in H.make_gene(rng, 1 if single else None)}
    read = desc["read"]
    def follows(ex):
        return len(ex) == len(read) and all(abs(ex[i][1] - read[i][1]) <= params.delta and abs(ex[i + 1][0] - read[i + 1][0]) <= params.delta
                                            for i in range(len(ex) - 1))
    return all(t in isoforms and follows(isoforms[t]) for t in desc["reported"]) and follows(isoforms[desc["isoform"]])


def kf_alt_terminal_exon_same_length(inputs):
    """known-finding class: the read has an alternative first / last exon (800-3000 bp away from T's terminal exon) whose LENGTH is within
    2 * delta of the annotated terminal exon's; JunctionComparator reports terminal_exon_misalignment (a minor event) for it"""
    desc, problems = _assign_case(inputs["seed"])
    if not desc or not problems or desc.get("kind") != "alt_terminal_exon" or desc["type"] not in CONSISTENT:
        return False
    return abs(desc["terminal_exon_len_diff"]) < 2 * desc["delta"] and any(e.startswith("terminal_exon_misalignment") for e in desc["events"]) \
        and all(p.startswith("a read with alt_terminal_exon") for p in problems)


def _known_class(seed):
    for name, fn in (("two_isoforms_within_tolerance", kf_two_isoforms_within_tolerance), ("alt_terminal_exon_same_length", kf_alt_terminal_exon_same_length)):
        try:
            if fn({"seed": seed}):
                return name
        except Exception:
            pass
    return ""


def replay_assign(d):
    desc, p = _assign_case(d["inputs"]["seed"])
    return (not p), "seed %s %s: %s" % (d["inputs"]["seed"], desc, p or "as the property says")


@bounded("C01.assigner_end_to_end", ["C01"], shards=14, note="random genes (1-3 isoforms over a shared exon pool) and reads derived from an isoform: "
         "exact, truncated at either end, junctions jittered within delta -> the real LongReadAssigner must report a consistent type, the "
         "isoform among the matches when the read is full-length, and a unique assignment when it is the only isoform; reads with a "
         "retained intron (>= 300 bp), >= 100 intronic bases retained at a read end, a 5' end 300-900 bp outside the isoform, an unannotated 70-200 bp intron inside an exon, a skipped exon (>= 150 bp), a polyA tail two exons before the annotated end (the last annotated exon 8-40 bp) or an extra exon relative to the only isoform must never be consistent; "
         "all four matching presets; half of the full-length reads carry a polyA tail / polyT head at their 3' end")
def c01_e2e(tier, rng):
    n = 1500 if tier == "quick" else 60000
    base = rng.randrange(10 ** 9)
    done = 0
    kinds = {}
    viol = {}
    # the listed known finding is replayed on every run (it is reported as KNOWN-FINDING only while it still fails)
    import json, os
    kfp = os.path.join(os.path.dirname(os.path.dirname(os.path.abspath(__file__))), "known_findings.json")
    witnesses = [f["witness"]["seed"] for f in json.load(open(kfp)).get("findings", [])
                 if f.get("where") == "C01.assigner_end_to_end" and isinstance(f.get("witness"), dict) and "seed" in f["witness"]]
    for k in [w - base for w in witnesses] + list(range(n)):
        try:
            desc, p = _assign_case(base + k)
        except Exception as e:
            desc, p = {"seed": base + k}, ["exception %s: %s" % (type(e).__name__, e)]
        if desc is None:
            continue
        done += 1
        kinds[desc.get("kind")] = kinds.get(desc.get("kind"), 0) + 1
        if p:
            # one representative inside and one outside the known-finding class (a different violation is still reported)
            cls = _known_class(base + k)
            viol.setdefault(cls, {"obligation": "C01.assigner_end_to_end", "inputs": {"seed": base + k}, "observed": [str(desc)] + p[:3],
                                  "required": "the property's sentence", "replay_call": "contracts.c_assign:replay_assign"})
            if "" in viol:
                break
    if viol:
        return {"cases": done, "bound": "%d derived reads" % n, "violations": [viol[c] for c in sorted(viol)]}
    return {"cases": done, "bound": "%d derived reads x 4 matching presets (sampled)" % n, "violations": [], "nontrivial": len(kinds),
            "samples": [{"seed": base, "kinds": kinds}]}


# ---- terminal exon tolerances: the two halves of categorize_exon_elongation_subtype, extracted ---------------------------------------------
class _EventToType(ast.NodeTransformer):
    def visit_Call(self, node):
        self.generic_visit(node)
        if isinstance(node.func, ast.Name) and node.func.id == "MatchEvent":
            return node.args[0]
        return node


def _elong_extract(side):
    def ex(fdef):
        """categorize_exon_elongation_subtype: the classification of the read's extra bases beyond the first (last) common exon into
        events, as a function of `extra_<side>` and of whether the common exon is the isoform's terminal exon; MatchEvent(type, ...) is
        replaced by its type; drops the two search loops and the overlap test that guard it"""
        var = "extra_%s" % side
        target = None
        for n in ast.walk(fdef):
            if isinstance(n, ast.If) and ast.unparse(n.test) in ("common_first_exon == isoform_first_exon", "common_last_exon == isoform_last_exon"):
                if (side == "left") == ("first" in ast.unparse(n.test)):
                    target = n
        if target is None:
            raise front.Missing("terminal classification (%s) not found" % side)
        import copy
        node = _EventToType().visit(copy.deepcopy(target))
        init = ast.Assign(targets=[ast.Name(id="events", ctx=ast.Store())], value=ast.List(elts=[], ctx=ast.Load()))
        ret = ast.Return(value=ast.Name(id="events", ctx=ast.Load()))
        names = ["self", var] + (["common_first_exon", "isoform_first_exon"] if side == "left" else ["common_last_exon", "isoform_last_exon"])
        args = ast.arguments(posonlyargs=[], args=[ast.arg(arg=a) for a in names], kwonlyargs=[], kw_defaults=[], defaults=[])
        return ast.FunctionDef(name="categorize_exon_elongation_subtype", args=args, body=[init, node, ret], decorator_list=[],
                               lineno=target.lineno, col_offset=0)
    return ex


record("ElongParams", {"delta": "int", "minor_exon_extension": "int", "major_exon_extension": "int"})
record("AssignerP", {"params": "rec:ElongParams"})

for side, cf, il in (("left", "common_first_exon", "isoform_first_exon"), ("right", "common_last_exon", "isoform_last_exon")):
    X = "extra_" + side
    E = lambda n: "MatchEventSubtype.%s_%s" % (n, side)
    P = "MatchEventSubtype.terminal_site_match_%s_precise" % side
    contract(LA + "LongReadAssigner.categorize_exon_elongation_subtype#" + side,
             {"self": "rec:AssignerP", X: "int", cf: "int", il: "int"}, returns="list[enum:MatchEventSubtype]",
             props=["C01", "C11"], extract=_elong_extract(side), native=False, locals={"events": "list[enum:MatchEventSubtype]"},
             requires=["0 <= self.params.delta <= self.params.minor_exon_extension <= self.params.major_exon_extension"],
             ensures=[
                 # on the isoform's own terminal exon: within delta = precise terminal match and nothing else ...
                 "not (%s == %s and -self.params.delta <= %s <= self.params.delta) or result == [%s]" % (cf, il, X, P),
                 # ... up to the minor extension (50) = terminal site match, plus an elongation event when the read sticks out ...
                 "not (%s == %s and self.params.delta < %s <= self.params.minor_exon_extension) or result == [%s, %s]" % (cf, il, X, E("terminal_site_match"), E("exon_elongation")),
                 "not (%s == %s and -self.params.minor_exon_extension <= %s < -self.params.delta) or result == [%s]" % (cf, il, X, E("terminal_site_match")),
                 # ... beyond it = major elongation (an inconsistency), never a site match
                 "not (%s == %s and %s > self.params.minor_exon_extension) or result == [%s]" % (cf, il, X, E("major_exon_elongation")),
                 "not (%s == %s and %s < -self.params.minor_exon_extension) or result == []" % (cf, il, X),
                 # on an inner exon only a minor elongation is reported
                 "%s == %s or result == ([%s] if self.params.delta < %s <= self.params.minor_exon_extension else [])" % (cf, il, E("exon_elongation"), X)],
             canary="len(result) == 1")


@finite("C01.matching_presets", ["C01", "C13", "C14"], note="isoquant.set_matching_options for the four presets: delta = 0 / 4 / 6 / 12 as documented, "
        "--delta (incl. --delta 0) overrides only delta, the terminal tolerances are 50 / 300 and apa_delta = 50 for every preset")
def c01_presets(tier, rng):
    from contracts import pipeline_harness as H
    from argparse import Namespace
    m = H.isoquant_main()
    want = {"exact": 0, "precise": 4, "default": 6, "loose": 12}
    obl = dis = 0
    viol = []
    for name, d in want.items():
        for override in (None, 3, 0):
            obl += 1
            a = Namespace(matching_strategy=name, delta=override, resolve_ambiguous="default")
            try:
                m.set_matching_options(a)
                ok = a.delta == (d if override is None else override) and a.minor_exon_extension == 50 and a.major_exon_extension == 300 \
                    and a.apa_delta == 50 and a.max_intron_shift == {"exact": 0, "precise": 30, "default": 60, "loose": 60}[name]
                got = (a.delta, a.minor_exon_extension, a.major_exon_extension, a.apa_delta, a.max_intron_shift)
            except BaseException as e:
                ok, got = False, repr(e)
            if ok:
                dis += 1
            else:
                viol.append({"obligation": "C01.preset.%s.%s" % (name, override), "inputs": {"preset": name, "delta": override},
                             "observed": str(got), "required": "documented tolerances"})
    return {"obligations": obl, "discharged": dis, "violations": viol, "cases": obl, "exhaustive": True, "bound": "4 presets x {default, --delta 3, --delta 0}",
            "samples": [{"preset": "default", "delta": 6}]}


# ---- "suspicious" introns (tolerated as long deletions): only SHORT introns may be waved through ---------------------------------------------
record("JCParams", {"max_suspicious_intron_abs_len": "int", "max_suspicious_intron_rel_len": "real"})
record("JunctionComparator", {"params": "rec:JCParams"})
native.RECORD_CLASSES["JunctionComparator"] = ("src/junction_comparator.py", "JunctionComparator")
native.RECORD_CLASSES["JCParams"] = ("builtin", "namespace")
CLASS_HOME["JunctionComparator"] = "src/junction_comparator.py"


def _gen_susp(rng, n):
    for _ in range(n):
        k = rng.randint(1, 4)
        p = rng.randint(1, 50)
        start = p
        introns = []
        for _i in range(k):
            a = p + rng.randint(20, 200)
            b = a + rng.choice([5, 30, 59, 60, 61, 100, 700])
            introns.append((a, b))
            p = b
        lo = rng.randint(0, k - 1)
        yield {"self": {"__rec__": "JunctionComparator", "params": {"__rec__": "JCParams", "max_suspicious_intron_abs_len": rng.choice([0, 60]),
                                                                    "max_suspicious_intron_rel_len": rng.choice([0.0, 1.0])}},
               "read_region": (start, p + rng.randint(20, 200)), "read_junctions": introns, "read_cregion": (lo, rng.randint(lo, k - 1))}


contract("src/junction_comparator.py:JunctionComparator.are_suspicious_introns",
         {"self": "rec:JunctionComparator", "read_region": "tuple[int,int]", "read_junctions": "list[tuple[int,int]]", "read_cregion": "tuple[int,int]"},
         returns="bool", props=["C01"],
         requires=["0 <= read_cregion[0] <= read_cregion[1] < len(read_junctions)", "self.params.max_suspicious_intron_abs_len >= 0"],
         # an unannotated intron may be read as an alignment artefact (and the read stay consistent) only if EVERY intron of the region is
         # at most max_suspicious_intron_abs_len long: a long extra intron is a structural difference, whatever the flanking exons look like
         ensures=["not result or all(read_junctions[c][1] - read_junctions[c][0] + 1 <= self.params.max_suspicious_intron_abs_len "
                  "for c in range(read_cregion[0], read_cregion[1] + 1))"],
         loops={0: {"inv": ["all(read_junctions[c][1] - read_junctions[c][0] + 1 <= self.params.max_suspicious_intron_abs_len "
                            "for c in range(read_cregion[0], read_cregion[0] + _k0))"]},
                1: {"inv": ["all(read_junctions[c][1] - read_junctions[c][0] + 1 <= self.params.max_suspicious_intron_abs_len "
                            "for c in range(read_cregion[0], read_cregion[1] + 1))"]}},
         gen=_gen_susp, canary="not result")


# ---- the whole of classify_assignment: the events of EVERY selected isoform count -------------------------------------------------------------------
@finite("C01.classify_all_isoforms", ["C01"], note="the real LongReadAssigner.classify_assignment (the extracted contract covers its decision chain only) on one "
        "or two selected isoforms whose event lists are drawn from 7 representative event types (consistent, minor, major intronic, major "
        "non-intronic): a major contradiction with ANY selected isoform makes the type an inconsistent one, and the type equals that of the same "
        "call with every isoform carrying all the events")
def c01_classify_all(tier, rng):
    import itertools
    la = native.repo_import("src/long_read_assigner.py")
    ia = native.repo_import("src/isoform_assignment.py")
    M, T = ia.MatchEventSubtype, ia.ReadAssignmentType
    pool = [M.fsm, M.ism_left, M.intron_shift, M.exon_elongation_left, M.alt_left_site_novel, M.alt_right_site_novel, M.alternative_polya_site_right]
    pool = [e for e in pool if e is not None]
    a = la.LongReadAssigner.__new__(la.LongReadAssigner)
    subsets = [c for k in (1, 2) for c in itertools.combinations(pool, k)]
    obl = dis = 0
    viol = []
    for n in (1, 2):
        for events in itertools.product(subsets, repeat=n):
            obl += 1
            best = ["T%d" % i for i in range(n)]
            matches = {t: [ia.MatchEvent(e) for e in ev] for t, ev in zip(best, events)}
            union = sorted({e for ev in events for e in ev}, key=lambda e: e.value)
            got = a.classify_assignment(list(best), matches)
            same = a.classify_assignment(list(best), {t: [ia.MatchEvent(e) for e in union] for t in best})
            major = any(M.is_major_inconsistency(e) for e in union)
            ok = got == same and (not major or got in (T.inconsistent, T.inconsistent_non_intronic, T.inconsistent_ambiguous))
            if ok:
                dis += 1
            elif len(viol) < 3:
                viol.append({"obligation": "C01.classify_all_isoforms.%s" % "__".join("_".join(e.name for e in ev) for ev in events),
                             "inputs": {"events_per_isoform": [[e.name for e in ev] for ev in events]}, "observed": got.name,
                             "required": "%s (the type when every isoform carries all events)%s" % (same.name, "; an inconsistent type" if major else "")})
    return {"obligations": obl, "discharged": dis, "violations": viol, "cases": obl, "exhaustive": True,
            "bound": "1-2 isoforms x subsets of <= 2 of 7 event types", "samples": [{"events_per_isoform": [["alt_left_site_novel"], ["alt_right_site_novel"]]}]}
