#!/usr/bin/env python3
"""Regenerates MANIFEST.json from manifest_meta.json (per-property texts) — claimed = has an entry under "claimed"."""
import json, os
D = os.path.dirname(os.path.abspath(__file__))
meta = json.load(open(os.path.join(D, "manifest_meta.json")))
props = [json.loads(l) for l in open(os.path.join(D, "properties.jsonl"))]
checks = []
na = []
for p in props:
    pid = p["id"]
    if pid in meta["claimed"]:
        m = meta["claimed"][pid]
        checks.append({
            "property_id": pid,
            "quick_cmd": "./vcheck %s --tier quick" % pid,
            "thorough_cmd": "./vcheck %s --tier thorough" % pid,
            "evidence_file": "evidence/%s.json" % pid,
            "replay_cmd_template": "./vcheck replay {path}",
            "engine": "pyvc",
            "level_claimed": {"category": m.get("category", "proof"), "text": m["text"], "design_ref": m.get("design_ref", "DESIGN.md §8 " + pid)},
            "level_note": m["note"],
            "technique": m.get("technique", "contract-based deductive verification: VCs generated from the real Python AST, discharged by z3/cvc5"),
        })
    else:
        na.append({"property_id": pid, "reason": meta["not_applicable"].get(pid, "check not built yet (work in progress)")})
man = {
    "version": 1,
    "setup_cmd": "./setup.sh",
    "hooks": {"guard": "ABLAB_ISOQUANT_VERIF", "enable": "no hooks needed: contracts are sidecars in /verif/contracts read against /repo's working tree on every run",
              "baseline_off_cmd": "cd /repo && /venv/bin/python -m pytest -ra -q -p no:cacheprovider --timeout=900 --continue-on-collection-errors",
              "source_commits": meta.get("hook_commits", []), "add_only": True},
    "engines": [{"name": "pyvc", "path": "pyvc/", "serves_properties": sorted(meta["claimed"]),
                 "kind_free_text": "verification-condition generator over the real Python source (ast -> z3), sidecar contracts, loop invariants, lemmas by induction, callee contracts used modularly; z3 (E-matching, then MBQI) with cvc5 fallback; native replay of counterexamples against the real functions"}],
    "checks": checks,
    "notes": meta.get("notes", ""),
    "not_applicable": na,
}
json.dump(man, open(os.path.join(D, "MANIFEST.json"), "w"), indent=1)
print("claimed:", [c["property_id"] for c in checks])
