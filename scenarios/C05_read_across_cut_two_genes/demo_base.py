#!/usr/bin/env python3
"""
Property C05: every aligned read is accounted for; region splitting loses or duplicates none.

Sentences checked here (on the real pipeline, isoquant.py run as a subprocess):
  * the number of distinct reads reported in corrected_reads.bed / read_assignments.tsv equals
    the number of input reads passing the documented filters, and
  * an alignment that is processed in more than one region never yields two identical records.

Input shape: one chromosome with a >32 kb cluster of overlapping reads, a coverage valley bridged by a few
single reads (each valley bin has coverage 1), and a second cluster behind it.  The collector cuts the
cluster at the valley, so each bridging read is handed to two sub-regions and must be de-duplicated later.
Expected values are recounted from the BAM that the script writes itself.
Runs: {default, --high_memory} x {without, with annotation}.
"""
import collections
import gzip
import os
import random
import shutil
import subprocess
import sys
import tempfile

sys.dont_write_bytecode = True
import pysam

WORKTREE = os.path.dirname(os.path.dirname(os.path.abspath(__file__)))
CHR = "chr1"
CHR_LEN = 90000
READ_LEN = 1000


def make_reference(path):
    rnd = random.Random(5)
    seq = "".join(rnd.choice("ACGT") for _ in range(CHR_LEN))
    with open(path, "w") as f:
        f.write(">%s\n" % CHR)
        for i in range(0, CHR_LEN, 60):
            f.write(seq[i:i + 60] + "\n")
    return seq


def read_layout():
    """ (name, 0-based start, length) of every read """
    reads = []
    # cluster A: 1000 .. 37000, a read every 250 bp (coverage ~4), longer than MAX_REGION_LEN = 32768
    for i, s in enumerate(range(1000, 36001, 250)):
        reads.append(("A_%03d" % i, s, READ_LEN))
    # valley: single reads chained head-to-tail with a 100 bp overlap, every 256-bp bin in 37120..40700 has coverage <= 2,
    # most of them exactly 1
    for i, s in enumerate(range(36600, 40501, 900)):
        reads.append(("V_%03d" % i, s, READ_LEN))
    # cluster B behind the valley
    for i, s in enumerate(range(40700, 50001, 250)):
        reads.append(("B_%03d" % i, s, READ_LEN))
    # an isolated small cluster far away (region that is never split)
    for i, s in enumerate(range(70000, 72001, 500)):
        reads.append(("C_%03d" % i, s, READ_LEN))
    return reads


def make_bam(path, seq, reads):
    header = {"HD": {"VN": "1.6", "SO": "coordinate"}, "SQ": [{"SN": CHR, "LN": CHR_LEN}]}
    unsorted = path + ".unsorted.bam"
    with pysam.AlignmentFile(unsorted, "wb", header=header) as out:
        for name, start, length in sorted(reads, key=lambda r: r[1]):
            a = pysam.AlignedSegment()
            a.query_name = name
            a.query_sequence = seq[start:start + length]
            a.flag = 0
            a.reference_id = 0
            a.reference_start = start
            a.mapping_quality = 60
            a.cigartuples = [(0, length)]
            a.query_qualities = pysam.qualitystring_to_array("I" * length)
            out.write(a)
    pysam.sort("-o", path, unsorted)
    os.remove(unsorted)
    pysam.index(path)


def make_gtf(path):
    """ two single-transcript genes: one inside cluster A, one inside cluster B """
    lines = []

    def gene(gid, tid, exons, strand="+"):
        start, end = exons[0][0], exons[-1][1]
        lines.append('%s\tdemo\tgene\t%d\t%d\t.\t%s\t.\tgene_id "%s";' % (CHR, start, end, strand, gid))
        lines.append('%s\tdemo\ttranscript\t%d\t%d\t.\t%s\t.\tgene_id "%s"; transcript_id "%s";'
                     % (CHR, start, end, strand, gid, tid))
        for i, e in enumerate(exons):
            lines.append('%s\tdemo\texon\t%d\t%d\t.\t%s\t.\tgene_id "%s"; transcript_id "%s"; exon_number "%d";'
                         % (CHR, e[0], e[1], strand, gid, tid, i + 1))

    gene("G1", "G1.t1", [(5001, 9000)])
    gene("G2", "G2.t1", [(36001, 41500)])
    gene("G3", "G3.t1", [(44001, 47000)])
    with open(path, "w") as f:
        f.write("\n".join(lines) + "\n")


def expected_reads(bam_path):
    """ recount of the input: primary, mapped, not supplementary records (all have MAPQ 60, above every cut-off) """
    names = []
    with pysam.AlignmentFile(bam_path, "rb") as bam:
        for a in bam.fetch(until_eof=True):
            if a.is_unmapped or a.is_secondary or a.is_supplementary:
                continue
            names.append(a.query_name)
    return names


def data_lines(path):
    # outputs are gzipped by default
    f = gzip.open(path + ".gz", "rt") if os.path.exists(path + ".gz") else open(path)
    with f:
        return [l.rstrip("\n") for l in f if l.strip() and not l.startswith("#")]


def run_isoquant(tmp, ref, bam, gtf, high_memory, tag):
    out = os.path.join(tmp, "out_" + tag)
    home = os.path.join(tmp, "home_" + tag)
    os.makedirs(home)
    cmd = [sys.executable, os.path.join(WORKTREE, "isoquant.py"), "-o", out, "--prefix", "S",
           "--reference", ref, "--bam", bam, "--data_type", "nanopore", "--threads", "1"]
    if gtf:
        cmd += ["--genedb", gtf, "--complete_genedb"]
    if high_memory:
        cmd += ["--high_memory"]
    env = dict(os.environ, HOME=home, PYTHONDONTWRITEBYTECODE="1")
    res = subprocess.run(cmd, cwd=tmp, env=env, stdout=subprocess.PIPE, stderr=subprocess.STDOUT, text=True)
    if res.returncode != 0:
        print(res.stdout[-3000:])
        raise RuntimeError("isoquant.py failed for run " + tag)
    return os.path.join(out, "S")


def check_run(sample_dir, expected, with_annotation, tag):
    problems = []
    exp_set = set(expected)
    files = [("corrected_reads.bed", 3)]
    if with_annotation:
        files.append(("read_assignments.tsv", 0))
    for suffix, name_col in files:
        path = os.path.join(sample_dir, "S." + suffix)
        lines = data_lines(path)
        names = [l.split("\t")[name_col] for l in lines]
        got_set = set(names)
        if got_set != exp_set:
            problems.append("[%s] %s: distinct reads reported %d, input reads passing the filters %d; "
                            "missing %s, unexpected %s"
                            % (tag, suffix, len(got_set), len(exp_set),
                               sorted(exp_set - got_set)[:5], sorted(got_set - exp_set)[:5]))
        dup_lines = [(l, c) for l, c in collections.Counter(lines).items() if c > 1]
        if dup_lines:
            dup_names = sorted(set(l.split("\t")[name_col] for l, c in dup_lines))
            problems.append("[%s] %s: %d identical records written more than once (reads %s), e.g.\n      %s  (x%d)"
                            % (tag, suffix, len(dup_lines), dup_names[:6], dup_lines[0][0][:110], dup_lines[0][1]))
        # every input alignment is a single primary record and (in this data set) matches at most one isoform:
        # one record per read
        per_read = collections.Counter(names)
        extra = sorted(n for n, c in per_read.items() if c != 1)
        if extra and not dup_lines:
            problems.append("[%s] %s: reads with a number of records other than 1: %s" % (tag, suffix, extra[:6]))
    return problems


def main():
    tmp = tempfile.mkdtemp(prefix="seed_C05_demo_")
    problems = []
    try:
        ref = os.path.join(tmp, "ref.fa")
        bam = os.path.join(tmp, "reads.bam")
        gtf = os.path.join(tmp, "genes.gtf")
        seq = make_reference(ref)
        reads = read_layout()
        make_bam(bam, seq, reads)
        make_gtf(gtf)
        expected = expected_reads(bam)
        assert len(expected) == len(set(expected)) == len(reads)
        print("input: %d primary alignments, all passing the filters" % len(expected))

        for with_annotation in (False, True):
            for high_memory in (False, True):
                tag = "%s,%s" % ("annotation" if with_annotation else "no annotation",
                                 "--high_memory" if high_memory else "default memory")
                sample_dir = run_isoquant(tmp, ref, bam, gtf if with_annotation else None, high_memory,
                                          "%d%d" % (with_annotation, high_memory))
                p = check_run(sample_dir, expected, with_annotation, tag)
                print("run [%s]: %s" % (tag, "ok" if not p else "%d problem(s)" % len(p)))
                problems += p
    finally:
        shutil.rmtree(tmp, ignore_errors=True)

    if problems:
        print("FAIL: property C05 violated")
        for p in problems:
            print("  " + p)
        return 1
    print("PASS")
    return 0


if __name__ == "__main__":
    sys.exit(main())
