"""usage: make_seed_prompts.py <worktree-prefix, e.g. /tmp/seedh_>  - writes /tmp/prop_<id>.json, /tmp/seed_prompt_<id>.txt, creates worktrees"""
import json, os, re, collections, subprocess, sys
prefix = sys.argv[1]
props={json.loads(l)['id']:json.loads(l) for l in open('/verif/properties.jsonl')}
claimed=["C01","C02","C03","C04","C05","C08","C09","C10","C11","C12","C13","C14","C15","C16","C17","C18","C19"]
used=collections.defaultdict(list)
for sid in sorted(os.listdir('/verif/seeded')):
    p=os.path.join('/verif/seeded',sid,'patch.diff')
    if not os.path.exists(p): continue
    pid=sid.split('_')[0]
    files=[];funcs=set()
    for l in open(p):
        if l.startswith('+++ b/'): files.append(l[6:].strip())
        m=re.match(r'@@ .* @@\s*(.*)',l)
        if m and m.group(1): funcs.add(m.group(1).strip()[:70])
    used[pid].append("%s (%s; %s)" % (sid[len(pid)+1:].replace('_',' '), ", ".join(files), "; ".join(sorted(funcs))))
fresh={
"C01":"(names below are pointers, some may be spelled differently in the code) resolution when several isoforms are consistent with a read (resolve by non-intronic features, exon overlap / similarity scores, polyA), subtype decisions for mono-exon reads in multi-exon genes, incomplete intron retention detection, the thresholds max_intron_shift / max_missed_exon_len / micro_intron_length and how contradictory events are combined into one assignment type, the choice of ReadAssignmentType from the list of matches",
"C02":"ProfileFeatureCounter-free parts: CompositeCounter, the counters' dump / load / merge through per-chromosome temporary files (add_unassigned, add_confirmed_features, dump, finalize), group-specific counts with 'NA' groups, counts of discovered transcript models (transcript_model_counts / tpm) and the gene counts derived from them, counts with --transcript_quantification / --gene_quantification strategies all / with_ambiguous / unique_splicing_consistent",
"C03":"GFFPrinter.dump: gene record coordinates vs their transcripts, order of transcripts within a gene, exon_id attributes, attributes such as Canonical / similar_reference_id / alternatives, novel genes built for unassigned models, printing of transcripts with strand '.', reference transcripts that are not expressed in the extended annotation, header comment lines",
"C04":"mono-exonic novel and known models (construct_monoexon_*), conditions for reporting a known isoform (construct_known_isoforms, min_known_count, full-length read requirements), construct_assignment_based_isoforms, polyA / start position clustering in the intron graph, detection of similar isoforms, how transcript ends are chosen from read ends (terminal position selection, trimming / extension limits)",
"C05":"IntergenicAlignmentCollector region formation (genes within one region, merging of overlapping genes, region boundaries at contig ends, regions without genes), routing between genic and intergenic processing, the filters --no_secondary / --min_mapq / --inconsistent_mapq_cutoff / --simple_alignments_mapq_cutoff and their defaults per data type, supplementary alignments, contigs without genes, --process_only_chr / --discard_chr",
"C08":"second-pass loading that restores the multimapping status from the dictionaries (ReadAssignmentLoader / multimapper pickles), which reads are counted as ambiguous with the quantification strategies, gene_assignment_type after resolution, order of chromosomes / assignment ids when dictionaries are merged, reads mapped twice to the same gene",
"C09":"file_name grouping with several files per replicate and library labels (readable_names_dict), YAML sample labels, order of the group columns across chromosomes (sorted union), the NA column, group names with spaces, grouped counts of discovered transcript models, grouped exon / intron tables",
"C10":"per-sample prefix / out_dir / aux_dir names derived from labels (--labels, --prefix), sample-level illumina_bam, id distributors or annotation / reference handles shared between samples, args fields mutated while one sample is processed (args.read_group, args.needs_reference, args.genedb ...), accumulators such as all_read_groups / common headers, the transcript-model outputs of consecutive experiments",
"C11":"genes on the '-' strand vs their mirror image on '+': exon elongation classification left vs right, twin functions of the intron graph (incoming / outgoing edges, starting / terminal vertices), left / right choice of transcript ends in model construction, naming of events by strand (alternative_tss vs alternative_polya_site, left vs right subtype pairs in the MatchEventSubtype tables), polyA fix for reverse-strand reads",
"C12":"input_data_storage parsing of --bam_list / --fastq_list / --yaml (relative paths, labels, blank lines, comments), duplicated file entries, order of BAMs, BAM index presence checks (.bai / .csi), --genedb_filename, the list of chromosomes derived from BAM vs FASTA vs annotation and contigs absent from one of them, gzipped reference handling",
"C13":"exon_counts / intron_counts printing: strand and flag columns, include / exclude counts when a read profile has -2 entries, the gene_ids column for features shared by overlapping genes on the two strands, zero rows, split-exon vs exon profiles, inclusion of ambiguous / multimapped reads, grouped formats of these tables",
"C14":"per-event handlers of ExonCorrector.correct_assigned_read not yet touched (intron shifts, skipped / missed exons, extra introns), interplay with --delta / max_intron_shift, sorting and merging of corrected exons, corrected_reads.bed for reads assigned to '-' strand genes, reads whose terminal exons were trimmed by polyA detection, reads assigned ambiguously",
"C15":"primitive (de)serialisation helpers: widths of write_int / read_int for large coordinates and long lists, write_string for long or empty strings, bool arrays whose length is not a multiple of 8, lists of pairs, negative ints, None vs empty; BasicReadAssignment serialisation (multimapper records), the per-chromosome lock / _info files chain used by --resume",
"C16":"trimming of blocks by polyA detection (exons_changed), helpers that use soft-clip lengths at the read ends, indel counts near splice sites / error counts per region, insertions at block boundaries, reads consisting of N / D only or starting with D, the aligned-pairs / query coordinate side (read_start / read_end of blocks)",
"C17":"ids of mono-exonic novel genes, novel_gene ids when several novel genes arise in one region and across --threads, collisions between counters of novel isoforms of known genes and isoforms of novel genes, exon id numbering, formatting of ids with chromosome names containing dots / underscores, ids in transcript_model_reads / counts / tpm tables vs the GTF",
"C18":"StrandDetector thresholds and ties (count_canonical_sites totals), reference slice offsets for '-' strand introns, check_canonical on corrected vs original exons, lower-case (soft-masked) FASTA bases, the Canonical value of mono-exon reads, strand of models of novel genes voted from read strands when no introns exist",
"C19":"helper family around junctions_from_blocks / get_exons, formatting helpers (list_to_str / range_list_to_str), merge_ranges, argmax / argmin ties, jaccard / similarity helpers, extra_exon_percentage, interval_bin_search / interval_bin_search_rev boundaries, get_top_count, get_first_best_from_sorted, helpers that collapse or deduplicate lists",
}
T=open('/verif/scratch/seed_prompt.tmpl').read()
for pid in claimed:
    wt="%s%s"%(prefix,pid)
    json.dump(props[pid],open('/tmp/prop_%s.json'%pid,'w'),indent=1)
    open('/tmp/seed_prompt_%s.txt'%pid,'w').write(T.format(wt=wt,pid=pid,used="\n".join("  - "+u for u in used[pid]),fresh=fresh[pid]))
    subprocess.run(["git","-C","/repo","worktree","add","--detach",wt,"HEAD"],capture_output=True)
print("ok")
