# An unmapped record (flag 4) that carries the position of its mate (RNAME / POS set, as the SAM specification allows) is returned by fetch
# and has no reference_end. Found at baseline by the agent that wrote the C05 multimap seed: the run aborted with a TypeError in
# alignment_is_not_adjacent (no outputs at all); repaired in /repo since. The record must be skipped and counted once, as unaligned.
# Reuses the pipeline driver and the recount of demo_base.py (two chromosomes, both memory modes, with and without annotation).
import sys, os, random
sys.path.insert(0, os.path.dirname(os.path.abspath(__file__)))
import pysam
import demo_base as demo


def make_bam(path, seqs):
    header = pysam.AlignmentHeader.from_dict(
        {"HD": {"VN": "1.6", "SO": "coordinate"}, "SQ": [{"SN": n, "LN": l} for n, l in demo.CHROMS]})
    recs = [demo.segment(header, seqs, "r_%d" % i, "chr1", 1000 + 100 * i, [(500, 0)]) for i in range(10)]
    recs += [demo.segment(header, seqs, "q_%d" % i, "chr2", 1000 + 100 * i, [(500, 0)]) for i in range(10)]
    for name, tid, pos in (("placed_unmapped_1", 0, 1200), ("placed_unmapped_2", 1, 900)):
        un = pysam.AlignedSegment(header)
        un.query_name, un.flag, un.reference_id, un.reference_start = name, 4, tid, pos
        un.query_sequence = "ACGT" * 50
        un.query_qualities = pysam.qualitystring_to_array("I" * 200)
        recs.append(un)
    recs.sort(key=lambda r: (r.reference_id, r.reference_start))
    with pysam.AlignmentFile(path, "wb", header=header) as out:
        for r in recs:
            out.write(r)
    pysam.index(path)


demo.make_bam = make_bam
sys.exit(demo.main())
