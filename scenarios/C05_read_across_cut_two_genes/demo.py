#!/usr/bin/env python3
"""
Side observation at baseline (independent of the seeded change): one primary alignment that bridges two genes and
lies across a coverage-valley cut is written TWICE, as two identical lines, to corrected_reads.bed.

Same reads as demo.py (a >32 kb cluster, a valley of single reads, a second cluster).  The annotation has one gene
ending just left of the cut (G2a, 36001-37100) and one starting just right of it (G2b, 37200-41500); read V_000
(36601-37600) overlaps both.  The left sub-region only knows G2a, the right one only G2b, so the two records of the
alignment are assigned to different isoforms, BasicReadAssignment.__eq__ does not see them as duplicates, the
resolver keeps both (as inconsistent_ambiguous) and both are printed: the BED lines are identical.

Checked sentence: "an alignment that is processed in more than one region never yields two identical records"
(and: one BED record per input alignment).  Exit 1 when violated, 0 otherwise.
"""
import collections
import os
import shutil
import sys
import tempfile

sys.dont_write_bytecode = True
sys.path.insert(0, os.path.dirname(os.path.abspath(__file__)))
import demo_base as demo


def make_gtf(path):
    lines = []
    for gid, start, end in (("G1", 5001, 9000), ("G2a", 36001, 37100), ("G2b", 37200, 41500)):
        lines.append('chr1\tdemo\tgene\t%d\t%d\t.\t+\t.\tgene_id "%s";' % (start, end, gid))
        lines.append('chr1\tdemo\ttranscript\t%d\t%d\t.\t+\t.\tgene_id "%s"; transcript_id "%s.t1";'
                     % (start, end, gid, gid))
        lines.append('chr1\tdemo\texon\t%d\t%d\t.\t+\t.\tgene_id "%s"; transcript_id "%s.t1"; exon_number "1";'
                     % (start, end, gid, gid))
    with open(path, "w") as f:
        f.write("\n".join(lines) + "\n")


def main():
    tmp = tempfile.mkdtemp(prefix="seed_C05_side_")
    problems = []
    try:
        ref = os.path.join(tmp, "ref.fa")
        bam = os.path.join(tmp, "reads.bam")
        gtf = os.path.join(tmp, "genes.gtf")
        seq = demo.make_reference(ref)
        demo.make_bam(bam, seq, demo.read_layout())
        make_gtf(gtf)
        expected = demo.expected_reads(bam)
        for high_memory in (False, True):
            tag = "--high_memory" if high_memory else "default memory"
            sample_dir = demo.run_isoquant(tmp, ref, bam, gtf, high_memory, "side%d" % high_memory)
            lines = demo.data_lines(os.path.join(sample_dir, "S.corrected_reads.bed"))
            dups = [(l, c) for l, c in collections.Counter(lines).items() if c > 1]
            if len(lines) != len(expected):
                problems.append("[%s] corrected_reads.bed has %d records for %d input primary alignments"
                                % (tag, len(lines), len(expected)))
            for l, c in dups:
                problems.append("[%s] identical BED record written %d times: %s" % (tag, c, l))
    finally:
        shutil.rmtree(tmp, ignore_errors=True)
    if problems:
        print("FAIL: identical records for one alignment processed in two sub-regions")
        for p in problems:
            print("  " + p)
        return 1
    print("PASS")
    return 0


if __name__ == "__main__":
    sys.exit(main())
