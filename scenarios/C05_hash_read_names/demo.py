# Reads whose name starts with '#' (a legal first character of a SAM QNAME). Found at baseline by the agent that wrote the C05 multimap
# seed: file_utils.merge_files takes the leading lines of a per-chromosome file that start with '#' for header lines, so the first records
# of the second and later chromosomes vanish from read_assignments.tsv when they belong to such reads (listed known finding).
# Reuses the pipeline driver and the recount of demo_base.py; the table reader is replaced by one that does not drop '#' names itself.
import sys, os, collections, gzip
sys.path.insert(0, os.path.dirname(os.path.abspath(__file__)))
import pysam
import demo_base as demo


def make_bam(path, seqs):
    header = pysam.AlignmentHeader.from_dict(
        {"HD": {"VN": "1.6", "SO": "coordinate"}, "SQ": [{"SN": n, "LN": l} for n, l in demo.CHROMS]})
    recs = [demo.segment(header, seqs, "#hash_first", "chr1", 900, [(500, 0)])]
    recs += [demo.segment(header, seqs, "r_%d" % i, "chr1", 1000 + 100 * i, [(500, 0)]) for i in range(10)]
    recs += [demo.segment(header, seqs, "#hash_first_chr2", "chr2", 900, [(500, 0)]),
             demo.segment(header, seqs, "#hash_second_chr2", "chr2", 950, [(500, 0)])]
    recs += [demo.segment(header, seqs, "q_%d" % i, "chr2", 1000 + 100 * i, [(500, 0)]) for i in range(10)]
    recs.append(demo.segment(header, seqs, "#hash_last_chr2", "chr2", 3000, [(500, 0)]))
    recs.sort(key=lambda r: (r.reference_id, r.reference_start))
    with pysam.AlignmentFile(path, "wb", header=header) as out:
        for r in recs:
            out.write(r)
    pysam.index(path)


def read_table(path, column):
    # header lines: '#read_id...' / '#chr...' and short comment lines; records have the full number of columns
    lines = []
    with gzip.open(path, "rt") as f:
        for line in f:
            fields = line.rstrip("\n").split("\t")
            if len(fields) <= column or len(fields) < 6 or fields[0] in ("#read_id", "#chr", "#chrom"):
                continue
            lines.append(line.rstrip("\n"))
    names = collections.Counter(l.split("\t")[column] for l in lines)
    return names, collections.Counter(lines)


demo.make_bam = make_bam
demo.read_table = read_table
sys.exit(demo.main())
