#!/usr/bin/env python3
# Demo for property C18 (Canonical flag is a pure function of reference sequence, intron chain and reported strand).
#
# Runs the real IsoQuant pipeline (isoquant.py, --check_canonical) on a small synthetic reference and BAM in which,
# inside one locus, reads reported on opposite strands share an intron whose splice sites are canonical on
# NEITHER strand, in both processing orders ('-' read first / '+' read first).
# Afterwards every record of *.read_assignments.tsv(.gz) and every transcript of *.transcript_models.gtf is
# recounted independently: introns are derived from the exon coordinates written in the output, the dinucleotides are
# taken from the FASTA written by this script, and the expected flag for the strand reported in the output is computed
# with this script's own donor/acceptor table (via reverse complement for '-').
# Exit 0 and PASS if every flag agrees with the recount, exit 1 otherwise.

import glob
import gzip
import os
import random
import shutil
import subprocess
import sys
import tempfile

import pysam

ROOT = os.path.dirname(os.path.dirname(os.path.abspath(__file__)))
CHR = "chrS"
CHR_LEN = 12000

# (donor, acceptor) as read 5'->3' on the transcribed strand
DONOR_ACCEPTOR = {("GT", "AG"), ("GC", "AG"), ("AT", "AC")}
COMPLEMENT = {"A": "T", "C": "G", "G": "C", "T": "A", "N": "N"}


def revcomp(s):
    return "".join(COMPLEMENT[c] for c in reversed(s))


def intron_canonical_on(seq, intron, strand):
    # intron: 1-based closed coordinates; seq: whole chromosome, 0-based python string
    intron_seq = seq[intron[0] - 1:intron[1]].upper()
    if strand == '-':
        intron_seq = revcomp(intron_seq)
    elif strand != '+':
        return None
    return (intron_seq[:2], intron_seq[-2:]) in DONOR_ACCEPTOR


def expected_flag(seq, exons, strand):
    introns = [(exons[i][1] + 1, exons[i + 1][0] - 1) for i in range(len(exons) - 1)]
    if not introns:
        return "Unspliced"
    answers = [intron_canonical_on(seq, i, strand) for i in introns]
    if any(a is None for a in answers):
        return None  # no strand reported, the sentence says nothing
    return str(all(answers))


def make_reference():
    rnd = random.Random(18)
    seq = [rnd.choice("ACGT") for _ in range(CHR_LEN)]

    def put(intron, left, right):
        seq[intron[0] - 1:intron[0] + 1] = list(left)
        seq[intron[1] - 2:intron[1]] = list(right)

    FWD = ("GT", "AG")   # canonical on +
    REV = ("CT", "AC")   # canonical on -
    NONE = ("AA", "AA")  # canonical on neither strand
    introns = {}
    # locus 1: the '-' read comes first in coordinate order, the '+' read second; they share the NONE intron
    introns["L1_rev"] = ((1101, 1200), REV)
    introns["L1_none"] = ((1301, 1400), NONE)
    introns["L1_fwd"] = ((1501, 1600), FWD)
    # locus 2: the '+' read first, the '-' read second; they share the NONE intron
    introns["L2_fwd"] = ((4101, 4200), FWD)
    introns["L2_none"] = ((4301, 4400), NONE)
    introns["L2_rev"] = ((4501, 4600), REV)
    # locus 3: controls - canonical only
    introns["L3_fwd1"] = ((7101, 7200), FWD)
    introns["L3_fwd2"] = ((7301, 7400), ("GC", "AG"))
    introns["L3_rev1"] = ((9101, 9200), REV)
    introns["L3_rev2"] = ((9301, 9400), ("GT", "AT"))
    for intron, (left, right) in introns.values():
        put(intron, left, right)
    return "".join(seq)


READS = [
    # name prefix, exons (1-based closed), copies
    ("L1_minus", [(1001, 1100), (1201, 1300), (1401, 1500)], 4),   # introns rev, none; novel intron -> strand from sites: '-'
    ("L1_plus", [(1201, 1300), (1401, 1500), (1601, 1700)], 4),    # introns none, fwd; equals annotated G1.t1 ('+')
    ("L2_plus", [(4001, 4100), (4201, 4300), (4401, 4500)], 4),    # introns fwd, none; novel intron -> strand from sites: '+'
    ("L2_minus", [(4201, 4300), (4401, 4500), (4601, 4700)], 4),   # introns none, rev; equals annotated G2.t1 ('-')
    ("L3_plus", [(7001, 7100), (7201, 7300), (7401, 7500)], 4),    # canonical on +, equals G3.t1
    ("L3_mono", [(7011, 7090)], 2),                                # mono-exonic, inside an exon of G3.t1
    ("L3_minus", [(9001, 9100), (9201, 9300), (9401, 9500)], 4),   # canonical on -, equals G4.t1
]


# gene id, strand, gene range (covers every read of the locus), exons of its single isoform
GENES = [
    ("G1", "+", (901, 1800), [(1201, 1300), (1401, 1500), (1601, 1700)]),
    ("G2", "-", (3901, 4800), [(4201, 4300), (4401, 4500), (4601, 4700)]),
    ("G3", "+", (6901, 7600), [(7001, 7100), (7201, 7300), (7401, 7500)]),
    ("G4", "-", (8901, 9600), [(9001, 9100), (9201, 9300), (9401, 9500)]),
]


def write_annotation(tmp_dir):
    gtf = os.path.join(tmp_dir, "genes.gtf")
    with open(gtf, "w") as f:
        for gene_id, strand, gene_range, exons in GENES:
            t_id = gene_id + ".t1"
            f.write('%s\tdemo\tgene\t%d\t%d\t.\t%s\t.\tgene_id "%s";\n' %
                    (CHR, gene_range[0], gene_range[1], strand, gene_id))
            f.write('%s\tdemo\ttranscript\t%d\t%d\t.\t%s\t.\tgene_id "%s"; transcript_id "%s";\n' %
                    (CHR, exons[0][0], exons[-1][1], strand, gene_id, t_id))
            for e in exons:
                f.write('%s\tdemo\texon\t%d\t%d\t.\t%s\t.\tgene_id "%s"; transcript_id "%s";\n' %
                        (CHR, e[0], e[1], strand, gene_id, t_id))
    return gtf


def write_inputs(tmp_dir, seq):
    fasta = os.path.join(tmp_dir, "ref.fa")
    with open(fasta, "w") as f:
        f.write(">%s\n" % CHR)
        for i in range(0, len(seq), 60):
            f.write(seq[i:i + 60] + "\n")

    records = []
    for name, exons, copies in READS:
        for c in range(copies):
            records.append((exons[0][0], "%s_%d" % (name, c), exons))
    records.sort()

    unsorted_bam = os.path.join(tmp_dir, "reads.bam")
    header = {"HD": {"VN": "1.0", "SO": "coordinate"}, "SQ": [{"SN": CHR, "LN": len(seq)}]}
    with pysam.AlignmentFile(unsorted_bam, "wb", header=header) as out:
        for start, read_id, exons in records:
            a = pysam.AlignedSegment(out.header)
            a.query_name = read_id
            a.reference_id = 0
            a.reference_start = start - 1
            a.flag = 0
            a.mapping_quality = 60
            cigar = []
            query = ""
            for i, e in enumerate(exons):
                if i > 0:
                    cigar.append((3, e[0] - exons[i - 1][1] - 1))
                cigar.append((0, e[1] - e[0] + 1))
                query += seq[e[0] - 1:e[1]]
            a.cigartuples = cigar
            a.query_sequence = query
            a.query_qualities = pysam.qualitystring_to_array("I" * len(query))
            out.write(a)
    pysam.index(unsorted_bam)
    return fasta, unsorted_bam


def parse_exons(exon_str):
    return [tuple(map(int, e.split("-"))) for e in exon_str.split(",")]


def check_reads(out_dir, seq):
    problems = []
    checked = 0
    seen = set()
    files = glob.glob(os.path.join(out_dir, "**", "*.read_assignments.tsv*"), recursive=True)
    if not files:
        return ["no read_assignments file was produced"], 0
    for fname in files:
        opener = gzip.open if fname.endswith(".gz") else open
        with opener(fname, "rt") as f:
            for line in f:
                if line.startswith("#") or not line.strip():
                    continue
                t = line.rstrip("\n").split("\t")
                read_id, strand, exons, info = t[0], t[2], parse_exons(t[7]), t[8]
                flag = None
                for field in info.split():
                    if field.startswith("Canonical="):
                        flag = field[len("Canonical="):].rstrip(";")
                if flag is None:
                    problems.append("read %s has no Canonical field" % read_id)
                    continue
                exp = expected_flag(seq, exons, strand)
                seen.add(read_id)
                if exp is None:
                    continue
                checked += 1
                if flag != exp:
                    problems.append("read %s strand %s exons %s: Canonical=%s in the output, recount from the FASTA "
                                    "gives %s" % (read_id, strand, t[7], flag, exp))
    expected_ids = set("%s_%d" % (name, c) for name, _, copies in READS for c in range(copies))
    if not expected_ids.issubset(seen):
        problems.append("reads missing from the output: %s" % sorted(expected_ids - seen))
    return problems, checked


def check_models(out_dir, seq):
    problems = []
    checked = 0
    gtfs = glob.glob(os.path.join(out_dir, "**", "*.transcript_models.gtf"), recursive=True) + \
        glob.glob(os.path.join(out_dir, "**", "*.extended_annotation.gtf"), recursive=True)
    for fname in gtfs:
        transcripts = {}
        exons = {}
        with open(fname) as f:
            for line in f:
                if line.startswith("#") or not line.strip():
                    continue
                t = line.rstrip("\n").split("\t")
                attrs = {}
                for kv in t[8].split(";"):
                    kv = kv.strip()
                    if kv:
                        k, v = kv.split(" ", 1)
                        attrs[k] = v.strip('"')
                if t[2] == "transcript":
                    transcripts[attrs["transcript_id"]] = (t[6], attrs.get("Canonical"))
                elif t[2] == "exon":
                    exons.setdefault(attrs["transcript_id"], []).append((int(t[3]), int(t[4])))
        for t_id, (strand, flag) in transcripts.items():
            blocks = sorted(exons.get(t_id, []))
            exp = expected_flag(seq, blocks, strand)
            if flag is None:
                problems.append("transcript %s in %s has no Canonical attribute" % (t_id, os.path.basename(fname)))
                continue
            if exp is None:
                continue
            checked += 1
            if flag != exp:
                problems.append("transcript %s strand %s exons %s: Canonical \"%s\" in %s, recount from the "
                                "FASTA gives %s" % (t_id, strand, blocks, flag, os.path.basename(fname), exp))
    return problems, checked


def main():
    tmp_dir = tempfile.mkdtemp(prefix="seed_C18_")
    try:
        seq = make_reference()
        fasta, bam = write_inputs(tmp_dir, seq)
        gtf = write_annotation(tmp_dir)
        out_dir = os.path.join(tmp_dir, "out")
        cmd = [sys.executable, os.path.join(ROOT, "isoquant.py"), "--output", out_dir, "--reference", fasta,
               "--genedb", gtf, "--complete_genedb", "--bam", bam, "--data_type", "nanopore", "--check_canonical", "--report_canonical", "all",
               "--threads", "1", "--prefix", "S", "--force"]
        res = subprocess.run(cmd, cwd=ROOT, stdout=subprocess.PIPE, stderr=subprocess.STDOUT, text=True, timeout=55)
        if res.returncode != 0:
            print("FAIL: the pipeline did not finish (exit code %d)" % res.returncode)
            print(res.stdout[-3000:])
            return 1

        read_problems, reads_checked = check_reads(out_dir, seq)
        model_problems, models_checked = check_models(out_dir, seq)
        problems = read_problems + model_problems
        print("recounted %d read records and %d transcript models" % (reads_checked, models_checked))
        if reads_checked == 0:
            problems.append("nothing was checked")
        if problems:
            print("FAIL: Canonical flags that are not a function of reference, introns and reported strand:")
            for p in problems:
                print("  " + p)
            return 1
        print("PASS")
        return 0
    finally:
        shutil.rmtree(tmp_dir, ignore_errors=True)


if __name__ == "__main__":
    sys.exit(main())
