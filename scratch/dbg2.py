import sys, time
sys.path.insert(0, '/verif')
from pyvc import api, engine, run
run.load_contracts()
import z3
c = api.REG[sys.argv[1]]
eng = engine.Engine(run.class_home())
eng.generate(c)
obs = [o for o in eng.obligations if o.name.endswith(sys.argv[2]) and o.path == int(sys.argv[3])]
ob = obs[0]
for cfg in [dict(), dict(auto_config=False, **{"smt.mbqi": False}), {"smt.recfun.depth": 2}]:
    s = z3.Solver(); s.set("timeout", 8000)
    for k, v in cfg.items(): s.set(k, v)
    s.add(*ob.assumptions); s.add(z3.Not(ob.goal))
    t0 = time.time(); r = s.check(); print(cfg, r, '%.2f' % (time.time() - t0), s.reason_unknown() if r == z3.unknown else '')
# tactic-based
g = z3.Goal(); g.add(*ob.assumptions); g.add(z3.Not(ob.goal))
t0=time.time()
s = z3.Then('simplify', 'propagate-values', 'solve-eqs', 'smt').solver(); s.set("timeout", 8000)
s.add(*ob.assumptions); s.add(z3.Not(ob.goal)); print('tactic', s.check(), '%.2f' % (time.time() - t0))
