#!/bin/sh
# Builds the overlay interpreter /verif/.venv (python 3.12 = /venv's base, plus z3-solver/cvc5/jsonschema
# from the offline wheelhouse, plus a .pth that exposes /venv's site-packages so the real repo modules import).
# Idempotent; called by MANIFEST.setup_cmd and by ./vcheck when .venv is missing.
set -e
cd "$(dirname "$0")"
if [ -x .venv/bin/python ] && .venv/bin/python -c "import z3, cvc5, jsonschema, pysam" 2>/dev/null; then
  exit 0
fi
rm -rf .venv
BASE=$(/venv/bin/python -c "import sys; print(sys.base_prefix)")
"$BASE/bin/python3" -m venv .venv
PIP_NO_INDEX=1 .venv/bin/pip install -q --no-index --find-links /opt/veriftools/wheels z3-solver cvc5 jsonschema
SP=$(.venv/bin/python -c "import sysconfig; print(sysconfig.get_paths()['purelib'])")
VSP=$(/venv/bin/python -c "import sysconfig; print(sysconfig.get_paths()['purelib'])")
echo "import site; site.addsitedir('$VSP')" > "$SP/_repo_deps.pth"
.venv/bin/python -c "import z3, cvc5, jsonschema, pysam; print('verif venv ok, z3', z3.get_version_string())"
