"""Native counterpart of the symbolic byte stream (a list of ints 0..255 with write/read)."""


class ByteList(list):
    def write(self, b):
        self.extend(list(b))

    def read(self, n):
        out = bytes(self[:n])
        del self[:n]
        return out


def new_stream(init=()):
    return ByteList(init)


def utf8len(s):
    return len(s.encode("utf-8"))
