"""Expression semantics (shared by real code and by contract expressions in spec mode)."""
import ast
import z3
from .val import *
from .state import *
from . import api, front
from . import ty as T

INT_DIV_MSG = "divisor must be > 0 for floor-division encoding"


def zand(*xs):
    xs = [x for x in xs if not z3.is_true(x)]
    if not xs:
        return z3.BoolVal(True)
    return z3.And(*xs) if len(xs) > 1 else xs[0]


def zor(*xs):
    xs = [x for x in xs if not z3.is_false(x)]
    if not xs:
        return z3.BoolVal(False)
    return z3.Or(*xs) if len(xs) > 1 else xs[0]


def const_int(v):
    if isinstance(v, VInt):
        s = z3.simplify(v.t)
        if z3.is_int_value(s):
            return s.as_long()
    return None


class ExprMixin:
    # ----- helpers ---------------------------------------------------------------------------------
    def oblige(self, st, kind, node, goal, info=""):
        if self.spec_depth > 0:
            return
        if z3.is_true(goal):
            return
        site = self.site_id(kind, node)
        self.obligations.append(Obligation(self.cur_name, kind, site, st.conds(), goal, info, self.path_no,
                                           self.inputs, getattr(node, "lineno", 0)))
        # after checking it, later code on this path may rely on it
        st.assume(z3.Implies(zand(*st.guard), goal) if st.guard else goal)

    def site_id(self, kind, node):
        key = id(node)
        pre = "".join(self.inline_prefix)
        if key in self.site_index:
            return pre + str(self.site_index[key])
        return pre + "x%d" % getattr(node, "lineno", 0)

    def unsupported(self, node, msg):
        raise Unsupported("%s (line %s: %s)" % (msg, getattr(node, "lineno", "?"),
                                                  ast.unparse(node)[:80] if isinstance(node, ast.AST) else ""))

    # ----- entry -----------------------------------------------------------------------------------
    def ev(self, node, st):
        m = getattr(self, "ev_" + type(node).__name__, None)
        if m is None:
            self.unsupported(node, "expression form " + type(node).__name__)
        return m(node, st)

    def ev_bool(self, node, st):
        """truth value of an expression in a test context (operands of and/or need not be booleans)"""
        if isinstance(node, ast.BoolOp):
            saved = list(st.guard)
            cs = []
            try:
                for k, e in enumerate(node.values):
                    c = self.ev_bool(e, st)
                    cs.append(c)
                    if k < len(node.values) - 1:
                        g = c if isinstance(node.op, ast.And) else z3.Not(c)
                        if self.decided_false(g, st):
                            break   # short circuit: the remaining operands are never evaluated
                        st.guard.append(g)
            finally:
                st.guard[:] = saved
            return zand(*cs) if isinstance(node.op, ast.And) else zor(*cs)
        if isinstance(node, ast.UnaryOp) and isinstance(node.op, ast.Not):
            return z3.Not(self.ev_bool(node.operand, st))
        return truthy(self.ev(node, st))

    def decided_false(self, g, st):
        if z3.is_false(z3.simplify(g)):
            return True
        sol = z3.Solver()
        sol.set("timeout", 150)
        sol.add(*(st.pc[-16:] + st.guard))
        sol.add(g)
        return sol.check() == z3.unsat

    def spec_eval(self, src_or_node, st, extra=None):
        """Evaluate a contract expression (string) in state st; returns a Val. No safety obligations."""
        node = ast.parse(src_or_node, mode="eval").body if isinstance(src_or_node, str) else src_or_node
        self.spec_depth += 1
        saved = None
        try:
            if extra:
                st = st.copy()
                st.vars.update(extra)
            return self.ev(node, st)
        finally:
            self.spec_depth -= 1

    def spec_bool(self, src, st, extra=None):
        return truthy(self.spec_eval(src, st, extra))

    # ----- atoms -----------------------------------------------------------------------------------
    def ev_Constant(self, node, st):
        v = node.value
        if v is None:
            return VNone()
        if isinstance(v, bool):
            return VBool(v)
        if isinstance(v, int):
            return VInt(v)
        if isinstance(v, float):
            return VReal(z3.RealVal(repr(v)))
        if isinstance(v, str):
            return VStr(v)
        self.unsupported(node, "constant")

    def ev_Name(self, node, st):
        n = node.id
        if n in st.alias:
            return self.ev(st.alias[n], st)
        if n in st.vars:
            return st.vars[n]
        if n == "True":
            return VBool(True)
        v = self.lookup_global(n, st)
        if v is not None:
            return v
        self.unsupported(node, "unbound name " + n)

    def lookup_global(self, n, st):
        if n in self.cur_contract_consts():
            return self.spec_eval(self.cur_contract_consts()[n], State())
        mc = self.module_consts()
        if n in mc:
            self.spec_depth += 1
            try:
                return self.ev(mc[n], State())
            finally:
                self.spec_depth -= 1
        if n in api.SPECS or n in api.LEMMAS:
            return VFunc(None, "spec:" + n)
        if n in T.ENUMS:
            return VFunc(None, "enumclass:" + n)
        return None

    def ev_Tuple(self, node, st):
        return VTuple([self.ev(e, st) for e in node.elts])

    def ev_List(self, node, st):
        items = [self.ev(e, st) for e in node.elts]
        return self.mk_list(items)

    def mk_list(self, items, ety=None):
        if not items:
            ety = ety or ANY
            l = VList(ety, 0, z3.K(z3.IntSort(), pack(fresh_default(ety))))
            if ety == ANY:
                l.empty_literal = True
            return l
        ety = ety or self.join_types([i.ty for i in items])
        a = z3.K(z3.IntSort(), pack(fresh_default(ety)))
        for k, it in enumerate(items):
            a = z3.Store(a, k, pack(coerce(it, ety)))
        return VList(ety, len(items), a)

    def join_types(self, tys):
        t = tys[0]
        for u in tys[1:]:
            if u == t:
                continue
            if t == NONE:
                t = TOpt(u) if not isinstance(u, TOpt) else u
            elif u == NONE:
                t = t if isinstance(t, TOpt) else TOpt(t)
            elif {t, u} <= {INT, BOOL}:
                t = INT
            elif {t, u} <= {INT, BOOL, REAL}:
                t = REAL
            elif isinstance(t, TOpt) and t.inner == u:
                pass
            elif isinstance(u, TOpt) and u.inner == t:
                t = u
            else:
                raise Unsupported("heterogeneous collection %s / %s" % (t, u))
        return t

    def ev_Set(self, node, st):
        items = [self.ev(e, st) for e in node.elts]
        kty = self.join_types([i.ty for i in items])
        m = z3.K(sort_of(kty), z3.BoolVal(False))
        for it in items:
            m = z3.Store(m, pack(coerce(it, kty)), z3.BoolVal(True))
        s = VSet(kty, m, z3.IntVal(len(items)))  # cardinality exact only if items distinct; used for truthiness only
        s.lit_items = items
        return s

    def ev_Dict(self, node, st):
        if node.keys:
            ks = [self.ev(k, st) for k in node.keys]
            vs = [self.ev(v, st) for v in node.values]
            kty = self.join_types([k.ty for k in ks])
            vty = self.join_types([v.ty for v in vs])
            m = z3.K(sort_of(kty), z3.BoolVal(False))
            a = z3.K(sort_of(kty), pack(fresh_default(vty)))
            c = z3.IntVal(0)
            for k, v in zip(ks, vs):
                pk = pack(coerce(k, kty))
                c = z3.If(z3.Select(m, pk), c, c + 1)
                m = z3.Store(m, pk, z3.BoolVal(True))
                a = z3.Store(a, pk, pack(coerce(v, vty)))
            return VDict(TDict(kty, vty), m, a, z3.simplify(c))
        d = VDict(TDict(ANY, ANY), None, None, z3.IntVal(0))
        d.empty_literal = True
        return d

    # ----- operators -------------------------------------------------------------------------------
    def ev_UnaryOp(self, node, st):
        v = self.ev(node.operand, st)
        if isinstance(node.op, ast.Not):
            return VBool(z3.Not(truthy(v)))
        if isinstance(node.op, ast.USub):
            if isinstance(v, VInt):
                r = VInt(-v.t)
                if getattr(v, "is_inf", False):
                    r = VInt(z3.IntVal(-(2 ** 62)))
                return r
            if isinstance(v, VReal):
                return VReal(-v.t)
            if isinstance(v, VBool):
                return VInt(-coerce(v, INT).t)
        if isinstance(node.op, ast.UAdd) and isinstance(v, (VInt, VReal)):
            return v
        self.unsupported(node, "unary operator")

    def ev_BoolOp(self, node, st):
        # short-circuit: later operands are evaluated under the guard of the earlier ones
        vals = []
        saved = list(st.guard)
        try:
            for k, e in enumerate(node.values):
                v = self.ev(e, st)
                vals.append(v)
                if k < len(node.values) - 1:
                    c = truthy(v)
                    st.guard.append(c if isinstance(node.op, ast.And) else z3.Not(c))
        finally:
            st.guard[:] = saved
        if all(isinstance(v, VBool) for v in vals):
            ts = [v.t for v in vals]
            return VBool(zand(*ts) if isinstance(node.op, ast.And) else zor(*ts))
        res = vals[-1]
        for v in reversed(vals[:-1]):
            c = truthy(v)
            if isinstance(node.op, ast.And):
                res = self.merge(c, res, v)
            else:
                res = self.merge(c, v, res)
        return res

    def merge(self, c, a, b):
        if isinstance(a, VBool) and isinstance(b, VBool):
            return VBool(z3.If(c, a.t, b.t))
        return ite(c, a, b)

    def ev_IfExp(self, node, st):
        c = self.ev_bool(node.test, st)
        saved = list(st.guard)
        try:
            st.guard.append(c)
            a = self.ev(node.body, st)
            st.guard[:] = saved + [z3.Not(c)]
            b = self.ev(node.orelse, st)
        finally:
            st.guard[:] = saved
        return self.merge(c, a, b)

    def ev_Compare(self, node, st):
        # x == sorted(x): true exactly when x is in non-decreasing (lexicographic) order   [trusted rule, listed]
        if len(node.ops) == 1 and isinstance(node.ops[0], ast.Eq) and isinstance(node.comparators[0], ast.Call) \
                and isinstance(node.comparators[0].func, ast.Name) and node.comparators[0].func.id == "sorted" \
                and len(node.comparators[0].args) == 1 and not node.comparators[0].keywords \
                and ast.unparse(node.comparators[0].args[0]) == ast.unparse(node.left):
            v = self.ev(node.left, st)
            if isinstance(v, VList):
                self.trusted_axioms.add("L == sorted(L) iff L is in non-decreasing order")
                i = z3.Int(fresh_name("asc_i"))
                j = z3.Int(fresh_name("asc_j"))
                return VBool(z3.ForAll([i, j], z3.Implies(z3.And(0 <= i, i < j, j < v.n), lex_lt(v.get(i), v.get(j), False))))
        left = self.ev(node.left, st)
        res = []
        saved = list(st.guard)
        try:
            for op, rn in zip(node.ops, node.comparators):
                right = self.ev(rn, st)
                c = self.compare(op, left, right, node, st)
                res.append(c)
                st.guard.append(c)
                left = right
        finally:
            st.guard[:] = saved
        return VBool(zand(*res))

    def compare(self, op, a, b, node, st):
        if isinstance(op, (ast.Eq, ast.NotEq)) and isinstance(a, VRec) and isinstance(b, VRec):
            c = self.resolve_user("__eq__", a.ty.rname)
            if c is not None:
                r = truthy(self.call_user(c, [a, b], {}, node, st, None))
                return r if isinstance(op, ast.Eq) else z3.Not(r)
        if isinstance(op, ast.Eq):
            return eq(a, b)
        if isinstance(op, ast.NotEq):
            return z3.Not(eq(a, b))
        if isinstance(op, ast.Is):
            return self.is_(a, b, node)
        if isinstance(op, ast.IsNot):
            return z3.Not(self.is_(a, b, node))
        if isinstance(op, ast.In):
            return self.contains(b, a, node, st)
        if isinstance(op, ast.NotIn):
            return z3.Not(self.contains(b, a, node, st))
        if isinstance(a, VOpt) or isinstance(b, VOpt):
            # ordering with None raises TypeError in Python
            for x in (a, b):
                if isinstance(x, VOpt):
                    self.oblige(st, "safety", node, z3.Not(x.isnone), "ordering comparison with None")
            a = a.v if isinstance(a, VOpt) else a
            b = b.v if isinstance(b, VOpt) else b
        if isinstance(a, VNone) or isinstance(b, VNone):
            self.oblige(st, "safety", node, z3.BoolVal(False), "ordering comparison with None")
            return z3.BoolVal(False)
        if isinstance(op, ast.Lt):
            return lex_lt(a, b, True)
        if isinstance(op, ast.LtE):
            return lex_lt(a, b, False)
        if isinstance(op, ast.Gt):
            return lex_lt(b, a, True)
        if isinstance(op, ast.GtE):
            return lex_lt(b, a, False)
        self.unsupported(node, "comparison operator")

    def is_(self, a, b, node):
        if isinstance(b, VNone) or isinstance(a, VNone):
            return eq(a, b)
        if isinstance(a, VBool) and isinstance(b, VBool):
            return a.t == b.t
        if isinstance(a, VEnum) and isinstance(b, VEnum):
            return a.t == b.t
        self.unsupported(node, "`is` on non-None values")

    def contains(self, coll, x, node, st):
        if isinstance(coll, VStr) and isinstance(x, VStr):
            return z3.Contains(coll.t, x.t)
        if isinstance(x, VOpt) and isinstance(coll, (VSet, VDict)) and not isinstance(getattr(coll, "kty", None), TOpt):
            # None is never a member of a container of non-optional keys
            return z3.And(z3.Not(x.isnone), self.contains(coll, x.v, node, st))
        if isinstance(x, VNone) and isinstance(coll, (VSet, VDict)):
            return z3.BoolVal(False)
        if isinstance(coll, VSet):
            if hasattr(coll, "lit_items"):
                return zor(*[eq(x, it) for it in coll.lit_items])
            return z3.Select(coll.m, pack(coerce(x, coll.kty)))
        if isinstance(coll, VDict):
            if getattr(coll, "empty_literal", False):
                return z3.BoolVal(False)
            return z3.Select(coll.m, pack(coerce(x, coll.kty)))
        if isinstance(coll, VTuple):
            return zor(*[eq(x, it) for it in coll.items])
        if isinstance(coll, VList):
            if getattr(coll, "empty_literal", False):
                return z3.BoolVal(False)
            cn = const_int(VInt(z3.simplify(coll.n)))
            if cn is not None and cn <= 24:
                return zor(*[eq(unpack(coll.ety, z3.simplify(z3.Select(coll.a, k))), x) for k in range(cn)])
            i = z3.Int(fresh_name("ci"))
            return z3.Exists([i], z3.And(0 <= i, i < coll.n, eq(coll.get(i), x)))
        self.unsupported(node, "`in` on %s" % coll.ty)

    def ev_BinOp(self, node, st):
        a = self.ev(node.left, st)
        b = self.ev(node.right, st)
        return self.binop(node.op, a, b, node, st)

    def num(self, v, node, st):
        if isinstance(v, VBool):
            return coerce(v, INT)
        if isinstance(v, VOpt):
            self.oblige(st, "safety", node, z3.Not(v.isnone), "arithmetic on None")
            return self.num(v.v, node, st)
        if isinstance(v, VNone):
            self.oblige(st, "safety", node, z3.BoolVal(False), "arithmetic on None")
            return VInt(0)
        return v

    def binop(self, op, a, b, node, st):
        if isinstance(op, ast.Add):
            if isinstance(a, VList) and isinstance(b, VList):
                return self.list_concat(a, b)
            if isinstance(a, VStr) and isinstance(b, VStr):
                return VStr(z3.Concat(a.t, b.t))
            if isinstance(a, VTuple) and isinstance(b, VTuple):
                return VTuple(a.items + b.items)
        if isinstance(op, ast.Mult) and isinstance(a, VList):
            n = const_int(b)
            if n is None:
                # [c] * n with symbolic n, single element
                k = const_int(VInt(a.n))
                if k == 1:
                    bb = self.num(b, node, st)
                    return VList(a.ety, z3.If(bb.t > 0, bb.t, 0), z3.K(z3.IntSort(), z3.Select(a.a, 0)))
                self.unsupported(node, "list * symbolic")
            r = self.mk_list([], a.ety)
            for _ in range(n):
                r = self.list_concat(r, a)
            return r
        if isinstance(op, ast.Mod) and isinstance(a, VStr):
            return self.str_format(a, b, node, st)
        a = self.num(a, node, st)
        b = self.num(b, node, st)
        if getattr(a, "is_inf", False) or getattr(b, "is_inf", False):
            self.unsupported(node, "arithmetic on math.inf")
        if not (isinstance(a, (VInt, VReal)) and isinstance(b, (VInt, VReal))):
            self.unsupported(node, "binary operator on %s, %s" % (a.ty, b.ty))
        real = isinstance(a, VReal) or isinstance(b, VReal)
        if real:
            x, y = coerce(a, REAL).t, coerce(b, REAL).t
            mk = VReal
        else:
            x, y = a.t, b.t
            mk = VInt
        if isinstance(op, ast.Add):
            return mk(x + y)
        if isinstance(op, ast.Sub):
            return mk(x - y)
        if isinstance(op, ast.Mult):
            return mk(x * y)
        if isinstance(op, ast.Div):
            xr, yr = coerce(a, REAL).t, coerce(b, REAL).t
            self.oblige(st, "safety", node, yr != 0, "division by zero")
            return VReal(xr / yr)
        if isinstance(op, (ast.FloorDiv, ast.Mod)):
            if real:
                self.unsupported(node, "// or % on reals")
            cy = const_int(b)
            if cy is None or cy <= 0:
                self.oblige(st, "safety", node, y > 0, INT_DIV_MSG)
            return VInt(x / y) if isinstance(op, ast.FloorDiv) else VInt(x % y)
        if isinstance(op, ast.Pow):
            cx, cy = const_int(a), const_int(b)
            if cx is not None and cy is not None and cy >= 0:
                return VInt(cx ** cy)
            if cy is not None and 0 <= cy <= 4:
                r = mk(1)
                for _ in range(cy):
                    r = mk(r.t * x)
                return r
            if cx in (2, 256) and not real:
                e = y if cx == 2 else 8 * y
                self.oblige(st, "safety", node, z3.And(e >= 0, e <= 64), "power of two modelled for exponents 0..64")
                return VInt(pow2_table(e))
            self.unsupported(node, "** with symbolic exponent")
        if isinstance(op, ast.LShift):
            cy = const_int(b)
            if cy is not None and cy >= 0:
                return VInt(x * (2 ** cy))
            cx = const_int(a)
            if cx == 1:
                self.oblige(st, "safety", node, z3.And(y >= 0, y <= 64), "1 << i modelled for 0 <= i <= 64")
                r = VInt(pow2_table(y))
                r.pow2_of = y
                return r
            self.unsupported(node, "<< with symbolic shift")
        if isinstance(op, ast.RShift):
            cy = const_int(b)
            if cy is not None and cy >= 0:
                return VInt(x / (2 ** cy))
        if isinstance(op, ast.BitAnd):
            for p, q in ((a, b), (b, a)):
                c = const_int(q)
                if c is not None and c >= 0:
                    if c & (c - 1) == 0 and c > 0:  # single bit
                        return VInt(((p.t / c) % 2) * c)
                    if (c + 1) & c == 0:  # 2^k - 1
                        return VInt(p.t % (c + 1))
                    # general non-negative constant mask: sum of bits
                    terms = [((p.t / (1 << k)) % 2) * (1 << k) for k in range(c.bit_length()) if c >> k & 1]
                    return VInt(z3.Sum(*terms)) if terms else VInt(0)
                if hasattr(q, "pow2_of"):
                    i = q.pow2_of
                    r = z3.IntVal(0)
                    for k in range(64, -1, -1):
                        r = z3.If(i == k, ((p.t / (1 << k)) % 2) * (1 << k), r)
                    return VInt(r)
        if isinstance(op, ast.BitOr):
            for p, q in ((a, b), (b, a)):
                c = const_int(q)
                if c is not None and c > 0 and c & (c - 1) == 0:
                    return VInt(p.t + (1 - (p.t / c) % 2) * c)
                if hasattr(q, "pow2_of"):
                    i = q.pow2_of
                    r = p.t
                    for k in range(64, -1, -1):
                        r = z3.If(i == k, p.t + (1 - (p.t / (1 << k)) % 2) * (1 << k), r)
                    return VInt(r)
        self.unsupported(node, "binary operator " + type(op).__name__)

    def list_concat(self, a, b):
        if getattr(a, "empty_literal", False):
            return b
        if getattr(b, "empty_literal", False):
            return a
        if a.ety != b.ety:
            ety = self.join_types([a.ety, b.ety])
            raise Unsupported("concat of lists with different element types %s %s" % (a.ety, b.ety))
        ca, cb = const_int(VInt(a.n)), const_int(VInt(b.n))
        if cb is not None and cb <= 8:
            arr = a.a
            for k in range(cb):
                arr = z3.Store(arr, a.n + k, z3.Select(b.a, k))
            return VList(a.ety, z3.simplify(a.n + cb), arr)
        i = z3.Int(fresh_name("li"))
        arr = z3.Lambda([i], z3.If(i < a.n, z3.Select(a.a, i), z3.Select(b.a, i - a.n)))
        return VList(a.ety, a.n + b.n, arr)

    def str_format(self, fmt, arg, node, st):
        f = z3.simplify(fmt.t)
        if not z3.is_string_value(f):
            self.unsupported(node, "% with symbolic format")
        s = f.as_string()
        args = arg.items if isinstance(arg, VTuple) else [arg]
        parts = []
        k = 0
        i = 0
        cur = ""
        while i < len(s):
            if s[i] == "%" and i + 1 < len(s):
                if s[i + 1] == "%":
                    cur += "%"
                    i += 2
                    continue
                if s[i + 1] in "ds":
                    if cur:
                        parts.append(z3.StringVal(cur))
                        cur = ""
                    parts.append(self.to_str(args[k], node, st).t)
                    k += 1
                    i += 2
                    continue
                self.unsupported(node, "format directive")
            cur += s[i]
            i += 1
        if cur:
            parts.append(z3.StringVal(cur))
        if len(parts) == 1:
            return VStr(parts[0])
        return VStr(z3.Concat(*parts))

    def to_str(self, v, node, st):
        if isinstance(v, VStr):
            return v
        if isinstance(v, VInt):
            # axiomatised printer: injective, via an uninterpreted function with a left inverse
            return VStr(self.int_printer()(v.t))
        self.unsupported(node, "str() of %s" % v.ty)

    def int_printer(self):
        if not hasattr(self, "_int_printer"):
            self._int_printer = z3.Function("py_str_int", z3.IntSort(), z3.StringSort())
            self._int_unprinter = z3.Function("py_int_str", z3.StringSort(), z3.IntSort())
            self.trusted_axioms.add("str(int) is injective (py_int_str(py_str_int(n)) == n)")
        return self._int_printer

    # ----- subscripts, attributes -------------------------------------------------------------------
    def ev_Subscript(self, node, st):
        base = self.ev(node.value, st)
        if isinstance(node.slice, ast.Slice):
            return self.slice(base, node.slice, node, st)
        if isinstance(base, VOpt):
            self.oblige(st, "safety", node, z3.Not(base.isnone), "subscript of None")
            base = base.v
        if isinstance(base, VNone):
            self.oblige(st, "safety", node, z3.BoolVal(False), "subscript of None")
            raise Unsupported("subscript of None")
        if isinstance(base, VTuple):
            idx = self.ev(node.slice, st)
            c = const_int(idx)
            if c is None:
                it = self.num(idx, node, st)
                n = len(base.items)
                self.oblige(st, "safety", node, z3.And(it.t >= -n, it.t < n), "tuple index out of range")
                r = base.items[-1]
                for k in range(n - 2, -1, -1):
                    r = ite(z3.Or(it.t == k, it.t == k - n), base.items[k], r)
                return r
            if not (-len(base.items) <= c < len(base.items)):
                self.oblige(st, "safety", node, z3.BoolVal(False), "tuple index out of range")
                return base.items[0]
            return base.items[c]
        if isinstance(base, VList):
            idx = self.num(self.ev(node.slice, st), node, st)
            if not isinstance(idx, VInt):
                self.unsupported(node, "non-integer list index")
            i = self.norm_index(base, idx, node, st)
            return base.get(i)
        if isinstance(base, VDict):
            key = self.ev(node.slice, st)
            if isinstance(key, VOpt) and not isinstance(base.kty, TOpt):
                self.oblige(st, "safety", node, z3.Not(key.isnone), "KeyError: None used as key")
                key = key.v
            return self.dict_get(base, key, node, st, write_back=node.value)
        if isinstance(base, VStr):
            idx = self.num(self.ev(node.slice, st), node, st)
            n = z3.Length(base.t)
            self.oblige(st, "safety", node, z3.And(idx.t >= -n, idx.t < n), "string index out of range")
            return VStr(z3.SubString(base.t, z3.If(idx.t < 0, idx.t + n, idx.t), 1))
        self.unsupported(node, "subscript of %s" % base.ty)

    def norm_index(self, lst, idx, node, st):
        c = const_int(idx)
        if c is not None:
            if c >= 0:
                self.oblige(st, "safety", node, lst.n > c, "list index out of range")
                return z3.IntVal(c)
            self.oblige(st, "safety", node, lst.n >= -c, "list index out of range")
            return lst.n + c
        self.oblige(st, "safety", node, z3.And(idx.t >= -lst.n, idx.t < lst.n), "list index out of range")
        if self.known_nonneg(idx.t, st):
            return idx.t
        return z3.If(idx.t < 0, idx.t + lst.n, idx.t)

    def known_nonneg(self, t, st):
        """idx >= 0 follows from the bound-variable ranges / guards in scope (cheap check; keeps If() out of triggers)"""
        conds = st.guard + self.bound_ranges
        if self.spec_depth == 0:
            conds = conds + st.pc[-12:]
        s = z3.Solver()
        s.set("timeout", 100)
        s.add(*conds)
        s.add(t < 0)
        return s.check() == z3.unsat

    def slice(self, base, sl, node, st):
        if sl.step is not None:
            self.unsupported(node, "slice step")
        if isinstance(base, VList):
            n = base.n
            lo = self.clamp(self.ev(sl.lower, st), n, node, st) if sl.lower is not None else z3.IntVal(0)
            hi = self.clamp(self.ev(sl.upper, st), n, node, st) if sl.upper is not None else n
            ln = z3.If(hi > lo, hi - lo, 0)
            i = z3.Int(fresh_name("si"))
            clo = const_int(VInt(z3.simplify(lo)))
            if clo == 0:
                return VList(base.ety, z3.simplify(ln), base.a)
            arr = z3.Lambda([i], z3.Select(base.a, i + lo))
            return VList(base.ety, z3.simplify(ln), arr)
        if isinstance(base, VStr):
            n = z3.Length(base.t)
            lo = self.clamp(self.ev(sl.lower, st), n, node, st) if sl.lower is not None else z3.IntVal(0)
            hi = self.clamp(self.ev(sl.upper, st), n, node, st) if sl.upper is not None else n
            return VStr(z3.SubString(base.t, lo, z3.If(hi > lo, hi - lo, 0)))
        if isinstance(base, VTuple):
            lo = const_int(self.ev(sl.lower, st)) if sl.lower is not None else 0
            hi = const_int(self.ev(sl.upper, st)) if sl.upper is not None else len(base.items)
            if lo is None or hi is None:
                self.unsupported(node, "symbolic tuple slice")
            return VTuple(base.items[lo:hi])
        self.unsupported(node, "slice of %s" % base.ty)

    def clamp(self, v, n, node, st):
        v = self.num(v, node, st)
        c = const_int(v)
        if c is not None and c >= 0:
            return z3.If(n < c, n, z3.IntVal(c))
        x = z3.If(v.t < 0, v.t + n, v.t)
        return z3.If(x < 0, 0, z3.If(x > n, n, x))

    def dict_get(self, d, key, node, st, write_back=None):
        if getattr(d, "empty_literal", False):
            self.oblige(st, "safety", node, z3.BoolVal(False), "KeyError (empty dict)")
            raise Unsupported("read of an empty dict literal")
        k = pack(coerce(key, d.kty))
        present = z3.Select(d.m, k)
        if d.ty.default is None:
            self.oblige(st, "safety", node, present, "KeyError")
            return unpack(d.vty, z3.Select(d.a, k))
        # defaultdict: a read of a missing key inserts the default
        dv = zero_value(d.vty) if d.ty.default == "new" else coerce(self.spec_eval(d.ty.default, State()), d.vty)
        val = ite(present, unpack(d.vty, z3.Select(d.a, k)), dv)
        if self.spec_depth == 0 and write_back is not None:
            g = zand(*st.guard)
            nd = VDict(d.ty, z3.Store(d.m, k, z3.BoolVal(True)), z3.Store(d.a, k, pack(val)),
                       z3.If(present, d.c, d.c + 1))
            if st.guard:
                nd = ite(g, nd, d)
            self.assign_to(write_back, nd, st)
        return val

    def ev_Attribute(self, node, st):
        # module-level / enum member access
        if isinstance(node.value, ast.Name):
            nm = node.value.id
            if nm == "math" and node.attr == "inf":
                self.assumptions.add("math.inf modelled as the integer 2**62: sound for storage and for comparisons with "
                                     "quantities the contracts bound below 2**62; arithmetic on it is rejected")
                v = VInt(z3.IntVal(2 ** 62))
                v.is_inf = True
                return v
            if nm in T.ENUMS and nm not in st.vars:
                e = T.ENUMS[nm]
                if node.attr in e.members:
                    return VEnum(e, sort_info(e).consts[node.attr])
                return VFunc(None, "enummethod:%s.%s" % (nm, node.attr))
            if nm not in st.vars and nm not in st.alias and self.contract_stack and \
                    "%s.%s" % (nm, node.attr) in self.contract_stack[-1].ignore:
                self.assumptions.add("%s.%s is a logging-only class-level counter: reads arbitrary, writes dropped" % (nm, node.attr))
                return VInt(z3.Int(fresh_name("ignored")))
            if nm not in st.vars and nm not in st.alias:
                cv = self.class_const(nm, node.attr)
                if cv is not None:
                    return cv
        base = self.ev(node.value, st)
        if isinstance(base, VFunc) and base.desc.startswith("enumclass:"):
            e = T.ENUMS[base.desc[10:]]
            if node.attr in e.members:
                return VEnum(e, sort_info(e).consts[node.attr])
        if isinstance(base, VOpt):
            self.oblige(st, "safety", node, z3.Not(base.isnone), "attribute of None")
            base = base.v
        if isinstance(base, VRec):
            b = self.cur_bind().get("%s.%s" % (base.ty.rname, node.attr))
            if b and b.startswith("class:"):
                return VFunc(None, b)
            if node.attr in base.f:
                return base.f[node.attr]
            cv = self.class_const(base.ty.rname, node.attr)
            if cv is not None:
                return cv
            return VFunc(None, "method:%s.%s" % (base.ty.rname, node.attr))
        if isinstance(base, VEnum):
            if node.attr == "value":
                return self.enum_value(base)
            if node.attr == "name":
                r = z3.StringVal(base.ty.members[-1])
                for m in base.ty.members[:-1]:
                    r = z3.If(base.t == sort_info(base.ty).consts[m], z3.StringVal(m), r)
                return VStr(r)
            return VFunc(None, "enummethod:%s.%s" % (base.ty.ename, node.attr))
        if isinstance(base, (VList, VDict, VSet, VStr)):
            return VFunc(None, "builtin-method:" + node.attr)
        self.unsupported(node, "attribute .%s of %s" % (node.attr, base.ty))

    def enum_value(self, e):
        vals = [e.ty.values[m] for m in e.ty.members]
        if all(isinstance(v, int) for v in vals):
            r = z3.IntVal(vals[-1])
            for m, v in list(zip(e.ty.members, vals))[:-1]:
                r = z3.If(e.t == sort_info(e.ty).consts[m], z3.IntVal(v), r)
            return VInt(r)
        raise Unsupported("enum .value of non-int enum")

    def class_const(self, cname, attr):
        """Class-level constant `Cls.attr = <literal>` read from the repo AST."""
        key = (cname, attr)
        if key in self._class_const_cache:
            return self._class_const_cache[key]
        res = None
        for cn in [cname] + self.bases_of(cname):
            rel = self.class_home.get(cn)
            if not rel or res is not None:
                continue
            try:
                c = front.find_class(rel, cn)
                for n in c.body:
                    if isinstance(n, ast.Assign) and len(n.targets) == 1 and isinstance(n.targets[0], ast.Name) \
                            and n.targets[0].id == attr:
                        self.spec_depth += 1
                        try:
                            # a class body sees the class attributes bound before it (X = (Y, Y) with Y assigned above)
                            scope = State()
                            for m_ in c.body:
                                if m_ is n:
                                    break
                                if isinstance(m_, ast.Assign) and len(m_.targets) == 1 and isinstance(m_.targets[0], ast.Name):
                                    try:
                                        scope.vars[m_.targets[0].id] = self.ev(m_.value, scope)
                                    except Unsupported:
                                        pass
                            res = self.ev(n.value, scope)
                        finally:
                            self.spec_depth -= 1
            except front.Missing:
                pass
        self._class_const_cache[key] = res
        return res

    # ----- comprehensions & quantifiers ------------------------------------------------------------
    def comp_domain(self, gen, st, node):
        """For `for x in <iter>`: returns (index var i, bound condition, binder(st2) that binds targets)."""
        if gen.ifs and False:
            pass
        it = gen.iter
        i = z3.Int(fresh_name("qi"))
        if isinstance(it, ast.Call) and isinstance(it.func, ast.Name) and it.func.id == "range":
            args = [self.num(self.ev(a, st), node, st) for a in it.args]
            if len(args) == 1:
                lo, hi = z3.IntVal(0), args[0].t
            elif len(args) == 2:
                lo, hi = args[0].t, args[1].t
            else:
                self.unsupported(node, "range step in comprehension")
            return i, z3.And(lo <= i, i < hi), (lambda s2: self.bind_target(gen.target, VInt(i), s2)), (lo, hi), None
        if isinstance(it, ast.Call) and isinstance(it.func, ast.Name) and it.func.id == "enumerate":
            seq = self.ev(it.args[0], st)
            if isinstance(seq, VList):
                return i, z3.And(0 <= i, i < seq.n), \
                    (lambda s2: self.bind_target(gen.target, VTuple([VInt(i), seq.get(i)]), s2)), (z3.IntVal(0), seq.n), seq
        if isinstance(it, ast.Call) and isinstance(it.func, ast.Name) and it.func.id == "zip" and len(it.args) == 2:
            s1, s2_ = self.ev(it.args[0], st), self.ev(it.args[1], st)
            if isinstance(s1, VList) and isinstance(s2_, VList):
                n = z3.If(s1.n < s2_.n, s1.n, s2_.n)
                return i, z3.And(0 <= i, i < n), \
                    (lambda s2: self.bind_target(gen.target, VTuple([s1.get(i), s2_.get(i)]), s2)), (z3.IntVal(0), n), None
        seq = self.ev(it, st)
        if isinstance(seq, VOpt):
            seq = seq.v
        if isinstance(seq, VList):
            return i, z3.And(0 <= i, i < seq.n), (lambda s2: self.bind_target(gen.target, seq.get(i), s2)), \
                (z3.IntVal(0), seq.n), seq
        if isinstance(seq, VTuple):
            return None, seq.items, None, None, None
        if isinstance(seq, (VSet, VDict)):
            k = z3.Const(fresh_name("qk"), sort_of(seq.kty))
            kv = unpack(seq.kty, k)
            return k, z3.Select(seq.m, k), (lambda s2: self.bind_target(gen.target, kv, s2)), None, None
        self.unsupported(node, "comprehension over %s" % seq.ty)

    def quant(self, node, st, universal):
        """all(<genexp>) / any(<genexp>)"""
        ge = node.args[0]
        if not isinstance(ge, (ast.GeneratorExp, ast.ListComp)):
            seq = self.ev(ge, st)
            if isinstance(seq, VList):
                i = z3.Int(fresh_name("qi"))
                body = truthy(seq.get(i))
                rng = z3.And(0 <= i, i < seq.n)
                return VBool(z3.ForAll([i], z3.Implies(rng, body)) if universal else z3.Exists([i], z3.And(rng, body)))
            if isinstance(seq, VTuple):
                cs = [truthy(x) for x in seq.items]
                return VBool(zand(*cs) if universal else zor(*cs))
            self.unsupported(node, "all/any over %s" % seq.ty)
        return VBool(self.quant_gens(ge.generators, ge.elt, st, universal, node))

    def quant_gens(self, gens, elt, st, universal, node):
        gen = gens[0]
        i, rng, binder, _, _ = self.comp_domain(gen, st, node)
        if i is None:  # tuple: expand
            outs = []
            for item in rng:
                s2 = st.copy()
                self.bind_target(gen.target, item, s2)
                outs.append(self.quant_body(gens, elt, s2, universal, node, gen))
            return zand(*outs) if universal else zor(*outs)
        _, _, _, bounds, _ = (None, None, None, None, None)
        s2 = st.copy()
        binder(s2)
        self.bound_ranges.append(rng)
        try:
            body = self.quant_body(gens, elt, s2, universal, node, gen)
        finally:
            self.bound_ranges.pop()
        if universal:
            return z3.ForAll([i], z3.Implies(rng, body))
        return z3.Exists([i], z3.And(rng, body))

    def quant_body(self, gens, elt, s2, universal, node, gen):
        conds = [self.ev_bool(c, s2) for c in gen.ifs]
        if len(gens) > 1:
            inner = self.quant_gens(gens[1:], elt, s2, universal, node)
        else:
            self.spec_depth += 1  # element safety inside quantifier bodies is not generated (bound var)
            try:
                inner = self.ev_bool(elt, s2)
            finally:
                self.spec_depth -= 1
        if conds:
            return z3.Implies(zand(*conds), inner) if universal else zand(*(conds + [inner]))
        return inner

    def ev_ListComp(self, node, st):
        if len(node.generators) != 1:
            self.unsupported(node, "nested list comprehension")
        gen = node.generators[0]
        it = gen.iter
        if gen.ifs or (isinstance(it, ast.Call) and isinstance(it.func, ast.Name) and it.func.id == "filter"):
            return self.filtered_comp(node, gen, st)
        i, rng, binder, bounds, _ = self.comp_domain(gen, st, node)
        if i is None:
            items = []
            for item in rng:
                s2 = st.copy()
                self.bind_target(gen.target, item, s2)
                items.append(self.ev(node.elt, s2))
            return self.mk_list(items)
        if bounds is None:
            self.unsupported(node, "list comprehension over a set")
        clo, chi = const_int(VInt(z3.simplify(bounds[0]))), const_int(VInt(z3.simplify(bounds[1])))
        if clo is not None and chi is not None and chi - clo <= 32:
            items = []
            for k in range(clo, chi):
                s2 = st.copy()
                binder(s2)
                for nm, vv in list(s2.vars.items()):
                    pass
                items.append(self.subst_val(self.ev_with_bound(node.elt, s2, i, k), i, k))
            return self.mk_list(items) if items else self.mk_list([])
        s2 = st.copy()
        binder(s2)
        s2.guard = s2.guard + [rng]
        elt = self.ev(node.elt, s2)
        lo, hi = bounds
        n = z3.If(hi > lo, hi - lo, 0)
        j = z3.Int(fresh_name("lj"))
        body = z3.substitute(pack(elt), (i, j + lo))
        return VList(elt.ty, z3.simplify(n), z3.Lambda([j], body))

    ev_GeneratorExp = ev_ListComp

    def filtered_comp(self, node, gen, st):
        """[f(x) for x in L if P(x)]  /  [f(x) for x in filter(lambda x: P(x), L)]: the order-preserving subsequence,
        axiomatised with a position function (source index -> result index) and its inverse."""
        it = gen.iter
        pred_fn = None
        if isinstance(it, ast.Call) and isinstance(it.func, ast.Name) and it.func.id == "filter":
            pred_fn = self.ev(it.args[0], st)
            src = self.ev(it.args[1], st)
        else:
            src = self.ev(it, st)
        if not isinstance(src, VList):
            self.unsupported(node, "filtered comprehension over %s" % src.ty)
        i = z3.Int(fresh_name("fi"))
        s2 = st.copy()
        self.bind_target(gen.target, src.get(i), s2)
        s2.guard = s2.guard + [z3.And(0 <= i, i < src.n)]
        conds = [self.ev_bool(c, s2) for c in gen.ifs]
        if pred_fn is not None:
            conds.append(truthy(pred_fn.fn([src.get(i)], s2, node)))
        P = zand(*conds)
        elt = self.ev(node.elt, s2)
        res = fresh(TList(elt.ty), "filtered")
        pos = z3.Function(fresh_name("fpos"), z3.IntSort(), z3.IntSort())
        inv = z3.Function(fresh_name("fsrc"), z3.IntSort(), z3.IntSort())
        j = z3.Int(fresh_name("fj"))
        i2 = z3.Int(fresh_name("fi2"))
        P2 = z3.substitute(P, (i, i2))
        st.assume(res.n >= 0)
        st.assume(res.n <= src.n)
        st.assume(z3.ForAll([i], z3.Implies(z3.And(0 <= i, i < src.n, P),
                                            z3.And(0 <= pos(i), pos(i) < res.n, z3.Select(res.a, pos(i)) == pack(elt), inv(pos(i)) == i)),
                            patterns=[z3.Select(src.a, i), pos(i)]))
        st.assume(z3.ForAll([j], z3.Implies(z3.And(0 <= j, j < res.n),
                                            z3.And(0 <= inv(j), inv(j) < src.n, z3.substitute(P, (i, inv(j))), pos(inv(j)) == j,
                                                   z3.Select(res.a, j) == z3.substitute(pack(elt), (i, inv(j)))))))
        st.assume(z3.ForAll([i, i2], z3.Implies(z3.And(0 <= i, i < i2, i2 < src.n, P, P2), pos(i) < pos(i2))))
        # when every element satisfies the predicate nothing is dropped (the pigeonhole step the solver cannot find by itself)
        i3 = z3.Int(fresh_name("fi3"))
        P3 = z3.substitute(P, (i, i3))
        st.assume(z3.Implies(z3.ForAll([i3], z3.Implies(z3.And(0 <= i3, i3 < src.n), P3)),
                             z3.And(res.n == src.n, z3.ForAll([i], z3.Implies(z3.And(0 <= i, i < src.n), pos(i) == i),
                                                              patterns=[pos(i)]))))
        self.trusted_axioms.add("a filtered comprehension / filter() is the order-preserving subsequence of the elements "
                                "satisfying the predicate (axiomatised with a position function)")
        return res

    def ev_with_bound(self, elt, s2, i, k):
        """evaluate elt with the z3 bound variable i replaced by the constant k in every variable of the state"""
        s3 = s2.copy()
        for nm, vv in list(s3.vars.items()):
            try:
                s3.vars[nm] = self.subst_val(vv, i, k)
            except Unsupported:
                pass
        return self.ev(elt, s3)

    def subst_val(self, v, i, k):
        if isinstance(v, (VFunc, VNone)):
            return v
        if isinstance(v, VDict) and getattr(v, "empty_literal", False):
            return v
        if isinstance(v, (VSet, VList)) and getattr(v, "empty_literal", False):
            return v
        if isinstance(v, VSet) and hasattr(v, "lit_items"):
            return v
        return unpack(v.ty, z3.simplify(z3.substitute(pack(v), (i, z3.IntVal(k)))))

    def bind_target(self, target, val, st):
        if isinstance(target, ast.Name):
            st.alias.pop(target.id, None)
            st.vars[target.id] = val
            return
        if isinstance(target, (ast.Tuple, ast.List)):
            if isinstance(val, VTuple) and len(val.items) == len(target.elts):
                for t, v in zip(target.elts, val.items):
                    self.bind_target(t, v, st)
                return
            if isinstance(val, VList):
                n = len(target.elts)
                self.oblige(st, "safety", target, val.n == n, "unpacking length")
                for k, t in enumerate(target.elts):
                    self.bind_target(t, val.get(z3.IntVal(k)), st)
                return
            raise Unsupported("unpacking %s" % val.ty)
        self.assign_to(target, val, st)

    def ev_Lambda(self, node, st):
        params = [a.arg for a in node.args.args]
        captured = st

        def fn(args, st2, call_node):
            s3 = st2.copy()
            s3.vars = dict(captured.vars)
            for p, a in zip(params, args):
                s3.vars[p] = a
            return self.ev(node.body, s3)

        return VFunc(fn, "lambda")

    def ev_JoinedStr(self, node, st):
        self.unsupported(node, "f-string")

    def ev_Starred(self, node, st):
        self.unsupported(node, "starred expression")


_pow2_cache = {}


def pow2_table(i):
    r = z3.IntVal(1 << 64)
    for k in range(63, -1, -1):
        r = z3.If(i == k, z3.IntVal(1 << k), r)
    return r
