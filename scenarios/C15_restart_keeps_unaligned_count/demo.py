#!/usr/bin/env python3
"""
A run restarted from saved read assignments (--read_assignments) reproduces the count tables of the run that saved them, including the
__ambiguous / __no_feature / __not_aligned lines. Derived from a baseline observation of the agent that wrote the C15 string-length seed:
the unaligned-read count lived in memory only, so a BAM with 7 unmapped records gave "__not_aligned 7" in the saving run and
"__not_aligned 0" in the restarted one (repaired in /repo since). Exit 1 with a report when a table differs, exit 0 + PASS otherwise.
"""
import os
import shutil
import subprocess
import sys
import tempfile

WORKTREE = os.path.dirname(os.path.dirname(os.path.abspath(__file__)))
sys.dont_write_bytecode = True

import pysam

found = []


def observed(msg):
    found.append(msg)
    print("DIFFERENCE: " + msg)

def run(tmp_dir, out_name, extra):
    env = dict(os.environ, HOME=os.path.join(tmp_dir, "home"), PYTHONDONTWRITEBYTECODE="1")
    os.makedirs(env["HOME"], exist_ok=True)
    out_dir = os.path.join(tmp_dir, out_name)
    cmd = [sys.executable, os.path.join(WORKTREE, "isoquant.py"), "-o", out_dir,
           "--reference", os.path.join(tmp_dir, "in", "chr9.4M.fa.gz"),
           "--genedb", os.path.join(tmp_dir, "in", "chr9.4M.gtf.gz"), "--complete_genedb",
           "-d", "nanopore", "-p", "S"] + extra
    res = subprocess.run(cmd, cwd=tmp_dir, env=env, stdout=subprocess.PIPE, stderr=subprocess.STDOUT,
                         universal_newlines=True, timeout=600)
    return res, out_dir



def table(path):
    return sorted(l.rstrip("\n") for l in open(path) if not l.startswith("#"))


def main():
    tmp_dir = tempfile.mkdtemp(prefix="c15_restart_")
    try:
        in_dir = os.path.join(tmp_dir, "in")
        os.makedirs(in_dir)
        data = os.path.join(WORKTREE, "tests", "simple_data")
        for f in ["chr9.4M.fa.gz", "chr9.4M.gtf.gz"]:
            shutil.copy(os.path.join(data, f), in_dir)
        n_unmapped = 7
        bam = os.path.join(in_dir, "with_unmapped.bam")
        src = pysam.AlignmentFile(os.path.join(data, "chr9.4M.ont.sim.polya.bam"))
        out = pysam.AlignmentFile(bam, "wb", template=src)
        for a in src:
            out.write(a)
        for i in range(n_unmapped):
            a = pysam.AlignedSegment(out.header)
            a.query_name = "unmapped_%d" % i
            a.query_sequence = "ACGT" * 20
            a.flag = 4
            a.reference_id = -1
            a.reference_start = -1
            a.mapping_quality = 0
            a.query_qualities = pysam.qualitystring_to_array("I" * 80)
            out.write(a)
        out.close()
        src.close()
        pysam.index(bam)
        res1, out1 = run(tmp_dir, "first", ["--bam", bam, "--keep_tmp"])
        if res1.returncode != 0:
            print("first run failed:\n" + res1.stdout[-1000:])
            return 2
        saves = os.path.join(out1, "S", "aux", "S.save")
        res2, out2 = run(tmp_dir, "restart", ["--read_assignments", saves])
        if res2.returncode != 0:
            observed("the restarted run failed: " + res2.stdout.strip().split("\n")[-1])
        else:
            sub = [d for d in os.listdir(out2) if os.path.isdir(os.path.join(out2, d))]
            name = [d for d in sub if os.path.exists(os.path.join(out2, d, d + ".gene_counts.tsv"))]
            if not name:
                observed("the restarted run wrote no gene_counts.tsv (directories: %s)" % sub)
            else:
                name = name[0]
                for t in ["gene_counts.tsv", "transcript_counts.tsv", "transcript_model_counts.tsv"]:
                    a, b = table(os.path.join(out1, "S", "S." + t)), table(os.path.join(out2, name, name + "." + t))
                    if a != b:
                        diff = sorted(set(a) ^ set(b))
                        observed("%s differs between the saving run and the restarted run, e.g. %s" % (t, diff[:4]))
                if not any(l.startswith("__not_aligned\t%d" % n_unmapped) for l in table(os.path.join(out1, "S", "S.gene_counts.tsv"))):
                    observed("the saving run does not report the %d unmapped records as __not_aligned" % n_unmapped)
    finally:
        shutil.rmtree(tmp_dir, ignore_errors=True)
    if found:
        print("FAIL")
        for f in found:
            print("  " + f)
        return 1
    print("PASS")
    return 0


if __name__ == "__main__":
    sys.exit(main())
