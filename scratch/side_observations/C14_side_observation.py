#!/usr/bin/env python3
"""
Side observation at BASELINE (unmodified code) for C14: a read whose short first exon is called a
fake terminal exon AND contains a retained annotated micro-intron gets an invalid BED12 record
(negative block size / negative block start) with the default nanopore strategy (default_ont) and with 'all'.

Run: cd /tmp/seedf_C14 && /venv/bin/python _seed/side_observation.py   (prints the offending records, exit 1 if reproduced)
"""
import gzip, os, random, subprocess, sys, tempfile
ROOT = os.path.dirname(os.path.dirname(os.path.abspath(__file__)))
sys.path.insert(0, ROOT)
import pysam

L = 6000
EXONS = [(1001, 1120), (1131, 1600), (2001, 2300), (3001, 3300)]      # micro-intron 1121-1130 in T1
READ = [(1105, 1140), (1401, 1600), (2001, 2300), (3001, 3250)]       # 36 bp first exon spanning it, then an unannotated 260 bp intron

bad = []
with tempfile.TemporaryDirectory(prefix="c14_side_") as d:
    rnd = random.Random(7)
    genome = "".join(rnd.choice("ACGT") for _ in range(L))
    with open(os.path.join(d, "ref.fa"), "w") as f:
        f.write(">chr1\n" + "\n".join(genome[i:i + 60] for i in range(0, L, 60)) + "\n")
    with open(os.path.join(d, "ann.gtf"), "w") as f:
        ga = 'gene_id "G1"; gene_name "G1";'
        ta = ga + ' transcript_id "T1";'
        f.write("chr1\tdemo\tgene\t%d\t%d\t.\t+\t.\t%s\n" % (EXONS[0][0], EXONS[-1][1], ga))
        f.write("chr1\tdemo\ttranscript\t%d\t%d\t.\t+\t.\t%s\n" % (EXONS[0][0], EXONS[-1][1], ta))
        for e in EXONS:
            f.write("chr1\tdemo\texon\t%d\t%d\t.\t+\t.\t%s\n" % (e[0], e[1], ta))
    hdr = pysam.AlignmentHeader.from_dict({"HD": {"VN": "1.6", "SO": "coordinate"}, "SQ": [{"SN": "chr1", "LN": L}]})
    with pysam.AlignmentFile(os.path.join(d, "reads.bam"), "wb", header=hdr) as out:
        a = pysam.AlignedSegment(hdr)
        a.query_name, a.flag, a.reference_id, a.reference_start, a.mapping_quality = "r_fte_ir", 0, 0, READ[0][0] - 1, 60
        cigar, seq = [], ""
        for i, b in enumerate(READ):
            if i:
                cigar.append((3, b[0] - READ[i - 1][1] - 1))
            cigar.append((0, b[1] - b[0] + 1))
            seq += genome[b[0] - 1:b[1]]
        a.cigartuples, a.query_sequence = cigar, seq
        a.query_qualities = pysam.qualitystring_to_array("I" * len(seq))
        out.write(a)
    pysam.index(os.path.join(d, "reads.bam"))
    for strategy in ["none", "default_pacbio", "conservative_ont", "default_ont", "all", "assembly"]:
        out_dir = os.path.join(d, "out_" + strategy)
        p = subprocess.run([sys.executable, os.path.join(ROOT, "isoquant.py"), "--reference", os.path.join(d, "ref.fa"),
                            "--genedb", os.path.join(d, "ann.gtf"), "--complete_genedb", "--bam", os.path.join(d, "reads.bam"),
                            "--data_type", "nanopore", "--splice_correction_strategy", strategy, "-o", out_dir, "-t", "1",
                            "--no_model_construction", "--prefix", "S"],
                           stdout=subprocess.PIPE, stderr=subprocess.STDOUT, universal_newlines=True, timeout=50)
        assert p.returncode == 0, p.stdout[-2000:]
        with gzip.open(os.path.join(out_dir, "S", "S.corrected_reads.bed.gz"), "rt") as f:
            for line in f:
                if line.startswith("#"):
                    continue
                t = line.rstrip("\n").split("\t")
                sizes = [int(x) for x in t[10].split(",")]
                starts = [int(x) for x in t[11].split(",")]
                if any(s <= 0 for s in sizes) or any(s < 0 for s in starts) or starts != sorted(starts):
                    bad.append("[%s] %s" % (strategy, line.rstrip("\n")))
if bad:
    print("invalid BED12 records:")
    print("\n".join("  " + b for b in bad))
    sys.exit(1)
print("not reproduced")
