import json, sys, glob
import jsonschema
ms = json.load(open('/root/.vp/MANIFEST.schema.json'))
es = json.load(open('/root/.vp/EVIDENCE.schema.json'))
m = json.load(open('/verif/MANIFEST.json'))
jsonschema.validate(m, ms)
print("MANIFEST ok:", len(m.get("checks", [])), "checks")
for f in sorted(glob.glob('/verif/evidence/*.json')):
    try:
        e_ = json.load(open(f))
        jsonschema.validate(e_, es)
        c_ = e_.get("coverage", {})
        if c_.get("obligations") != c_.get("discharged") or not c_.get("obligations"):
            print("INVALID", f, "coverage.discharged (%s) != obligations (%s)" % (c_.get("discharged"), c_.get("obligations")))
        else:
            print("ok", f.split('/')[-1])
    except jsonschema.ValidationError as e:
        print("INVALID", f, e.message[:200])
