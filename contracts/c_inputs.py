"""C12: equivalent input representations.  gtf2db's cache lookup is decided by exhaustive enumeration of everything the functions
can observe (finite-domain); the BAM merger and the format equivalences go through pysam / gffutils and are bounded."""
import os
from pyvc.api import finite, bounded
from pyvc import front, native


def _tmpdir(prefix):
    import tempfile
    base = os.path.join(os.path.dirname(os.path.dirname(os.path.abspath(__file__))), ".run")
    os.makedirs(base, exist_ok=True)
    return tempfile.mkdtemp(prefix=prefix, dir=base)


@finite("C12.cache_lookup", ["C12", "C17"], note="find_converted_db / compare_stored_gtf of src/gtf2db.py observe only: is there a record for this "
        "GTF path, do GTF and database exist, do their mtimes equal the recorded ones, does the recorded completeness flag equal the "
        "requested one. All 2^7 combinations are realised with real files (os.utime) and the real functions: a cached database is "
        "returned exactly when every one of these holds, and it is the recorded database of THIS GTF")
def c12_cache(tier, rng):
    import itertools, shutil
    g2d = native.repo_import("src/gtf2db.py")
    d = _tmpdir("c12c_")
    obl = dis = 0
    viol = []
    try:
        for rec, gtf_exists, gtf_same, db_exists, db_same, flag_same, other_rec in itertools.product([False, True], repeat=7):
            obl += 1
            gtf = os.path.join(d, "a.gtf"); db = os.path.join(d, "a.db"); other = os.path.join(d, "other.gtf"); odb = os.path.join(d, "other.db")
            for f in (gtf, db, other, odb):
                if os.path.exists(f):
                    os.remove(f)
            for f in (other, odb):
                open(f, "w").write("x"); os.utime(f, (1000, 1000))
            if gtf_exists:
                open(gtf, "w").write("x"); os.utime(gtf, (2000, 2000))
            if db_exists:
                open(db, "w").write("x"); os.utime(db, (3000, 3000))
            conv = {}
            if rec:
                conv[gtf] = {"genedb": db, "gtf_mtime": 2000.0 if gtf_same else 1999.0, "db_mtime": 3000.0 if db_same else 2999.0,
                             "complete_db": True}
            if other_rec:
                conv[other] = {"genedb": odb, "gtf_mtime": 1000.0, "db_mtime": 1000.0, "complete_db": True}
            want_flag = True if flag_same else False
            try:
                got = g2d.find_converted_db(conv, gtf, want_flag)
                got2 = g2d.compare_stored_gtf(conv, gtf, db)
            except Exception as e:
                got, got2 = "exception %r" % e, None
            expect = db if (rec and gtf_exists and gtf_same and db_exists and db_same and flag_same) else None
            expect2 = bool(rec and gtf_exists and gtf_same and db_exists and db_same)
            if got == expect and bool(got2) == expect2:
                dis += 1
            elif len(viol) < 3:
                viol.append({"obligation": "C12.cache_lookup", "inputs": {"record": rec, "gtf_exists": gtf_exists, "gtf_mtime_same": gtf_same,
                                                                            "db_exists": db_exists, "db_mtime_same": db_same, "flag_same": flag_same,
                                                                            "other_record": other_rec},
                             "observed": "find_converted_db -> %r, compare_stored_gtf -> %r" % (got, got2),
                             "required": "%r / %r" % (expect, expect2)})
        # one level up: convert_db (the function a run calls) with the conversion itself replaced by a stub that records whether it ran.
        # A database made with --complete_genedb lacks the records a run WITHOUT the flag would infer (and vice versa), so a cached
        # database may be reused only for the same flag, and never under --clean_start.
        import json, types
        real_gtf2db = g2d.gtf2db
        try:
            for recorded, requested, clean in itertools.product([None, True, False], [True, False], [False, True]):
                obl += 1
                gtf = os.path.join(d, "b.gtf"); olddb = os.path.join(d, "old.db"); newdb = os.path.join(d, "new.db"); cfg = os.path.join(d, "cfg.json")
                for f in (gtf, olddb, newdb):
                    if os.path.exists(f):
                        os.remove(f)
                open(gtf, "w").write("x"); os.utime(gtf, (2000, 2000))
                conv = {}
                if recorded is not None:
                    open(olddb, "w").write("x"); os.utime(olddb, (3000, 3000))
                    conv[gtf] = {"genedb": olddb, "gtf_mtime": 2000.0, "db_mtime": 3000.0, "complete_db": recorded}
                json.dump(conv, open(cfg, "w"))
                calls = []

                def stub(gtf_, db_, complete, check=True):
                    calls.append((gtf_, db_, complete))
                    open(db_, "w").write("converted")
                g2d.gtf2db = stub
                args = types.SimpleNamespace(db_config_path=cfg, clean_start=clean, complete_genedb=requested, gtf_check=True)
                try:
                    _, used = g2d.convert_db(gtf, newdb, g2d.gtf2db, args)
                    after = json.load(open(cfg)).get(gtf, {})
                    reuse_ok = recorded is not None and recorded == requested and not clean
                    ok = (used == olddb and not calls) if reuse_ok else (used == os.path.abspath(newdb) and len(calls) == 1 and calls[0][2] == requested
                                                                         and after.get("complete_db") == requested)
                    obs = "database used: %s, conversion ran: %s, recorded flag afterwards: %s" % (os.path.basename(used), bool(calls), after.get("complete_db"))
                except Exception as e:
                    ok, obs = False, "exception %r" % e
                if ok:
                    dis += 1
                elif len(viol) < 5:
                    viol.append({"obligation": "C12.cache_lookup.convert_db", "inputs": {"recorded_complete_db": recorded, "requested_complete_genedb": requested, "clean_start": clean},
                                 "observed": obs, "required": "a cached database is reused exactly when it was made with the same --complete_genedb setting and --clean_start is off"})
        finally:
            g2d.gtf2db = real_gtf2db
    finally:
        shutil.rmtree(d, ignore_errors=True)
    return {"obligations": obl, "discharged": dis, "violations": viol, "cases": obl, "exhaustive": True, "bound": "2^7 observable situations + 12 convert_db situations",
            "samples": [{"record": True, "all_match": True, "result": "the recorded database"}]}


def _merger_case(seed):
    import random, shutil
    import pysam
    rng = random.Random(seed)
    ap = native.repo_import("src/alignment_processor.py")
    d = _tmpdir("c12m_")
    problems = []
    try:
        header = {"HD": {"VN": "1.0", "SO": "coordinate"}, "SQ": [{"SN": "chr1", "LN": 100000}]}
        nfiles = rng.randint(1, 3)
        allrecs = []
        pairs = []
        handles = []
        for fi in range(nfiles):
            recs = sorted((rng.choice([100, 100, 250, 400, rng.randint(1, 900)]), rng.choice([20, 50, 50, 80])) for _ in range(rng.randint(0, 5)))
            path = os.path.join(d, "f%d.bam" % fi)
            with pysam.AlignmentFile(path, "wb", header=header) as out:
                for k, (pos, ln) in enumerate(recs):
                    a = pysam.AlignedSegment()
                    a.query_name, a.query_sequence, a.flag = "f%d_r%d" % (fi, k), "A" * ln, 0
                    a.reference_id, a.reference_start, a.mapping_quality, a.cigar = 0, pos, 60, [(0, ln)]
                    out.write(a)
                    allrecs.append((pos, pos + ln, fi, a.query_name))
            pysam.index(path)
            h = pysam.AlignmentFile(path, "rb")
            handles.append(h)
            pairs.append((h, path))
        merger = ap.BAMOnlineMerger(pairs, "chr1", 0, 100000, multiple_iterators=False)
        got = [(a.reference_start, a.reference_end, i, a.query_name) for i, a in merger.get()]
        if sorted(got) != sorted(allrecs):
            problems.append("merged records are not the union of the files: %s vs %s" % (sorted(got), sorted(allrecs)))
        if [g[:3] for g in got] != sorted(g[:3] for g in got):
            problems.append("merged stream is not ordered by (start, end, file): %s" % [g[:3] for g in got])
        for h in handles:
            h.close()
    finally:
        shutil.rmtree(d, ignore_errors=True)
    return problems


def replay_merger(d):
    p = _merger_case(d["inputs"]["seed"])
    return (not p), "seed %s: %s" % (d["inputs"]["seed"], p or "merge == sorted union")


@bounded("C12.bam_merger", ["C12", "C09"], shards=8, note="the real BAMOnlineMerger over 1-3 pysam-written coordinate-sorted BAMs of <= 5 records with many "
         "equal (start, end) pairs (some files empty): the merged stream is the multiset union of the files, ordered by (start, end, file index), every record labelled with the index of the file it came from (the file-name read group), and never "
         "compares two AlignedSegment objects (no TypeError)")
def c12_merger(tier, rng):
    n = 60 if tier == "quick" else 3000
    base = rng.randrange(10 ** 9)
    for k in range(n):
        try:
            p = _merger_case(base + k)
        except Exception as e:
            p = ["exception %s: %s" % (type(e).__name__, e)]
        if p:
            return {"cases": k + 1, "bound": "%d file sets" % n, "violations": [{
                "obligation": "C12.bam_merger", "inputs": {"seed": base + k}, "observed": p[:2], "required": "merge == sorted union",
                "replay_call": "contracts.c_inputs:replay_merger"}]}
    return {"cases": n, "bound": "%d random file sets" % n, "violations": [], "samples": [{"seed": base}]}


def _representations(which):
    """pipeline runs on the bundled data under equivalent input representations; returns problems"""
    import gzip, shutil, subprocess, sys
    import pysam
    d = _tmpdir("c12r_")
    problems = []
    try:
        data = os.path.join(front.REPO, "tests", "simple_data")
        for f in ("chr9.4M.ont.sim.polya.bam", "chr9.4M.ont.sim.polya.bam.bai", "chr9.4M.gtf.gz", "chr9.4M.fa.gz"):
            shutil.copy(os.path.join(data, f), d)
        with gzip.open(os.path.join(d, "chr9.4M.gtf.gz"), "rt") as fi, open(os.path.join(d, "plain.gtf"), "w") as fo:
            fo.write(fi.read())
        inp = pysam.AlignmentFile(os.path.join(d, "chr9.4M.ont.sim.polya.bam"))
        recs = [a for a in inp]
        for k, name in enumerate(("part1.bam", "part2.bam")):
            with pysam.AlignmentFile(os.path.join(d, name), "wb", template=inp) as out:
                for idx, a in enumerate(recs):
                    if (idx * 7919 % 3 == 0) == (k == 0):
                        out.write(a)
            pysam.index(os.path.join(d, name))
        # a file of the experiment without a single record on the contig (an empty replicate, or a per-chromosome split)
        with pysam.AlignmentFile(os.path.join(d, "empty.bam"), "wb", template=inp) as out:
            pass
        pysam.index(os.path.join(d, "empty.bam"))
        # the same records with the duplicate / QC-fail bits set on a part of them (samtools markdup and the like): the pipeline treats them as
        # ordinary records, so a split of that file by flag is one more partition of the same alignments
        names = {}
        for name, keep in (("flagged.bam", None), ("flag_clear.bam", False), ("flag_set.bam", True)):
            with pysam.AlignmentFile(os.path.join(d, name), "wb", template=inp) as out:
                for idx, a in enumerate(recs):
                    marked = names.setdefault(a.query_name, (len(names) * 104729) % 5 == 0)
                    b = pysam.AlignedSegment.fromstring(a.to_string(), inp.header)
                    if marked:
                        b.flag = b.flag | (0x400 if len(a.query_name) % 2 else 0x200)
                    if keep is None or keep == marked:
                        out.write(b)
            pysam.index(os.path.join(d, name))
        env = dict(os.environ, HOME=os.path.join(d, "home"))
        os.makedirs(env["HOME"], exist_ok=True)

        def run(name, bams, genedb, extra=()):
            cmd = [sys.executable, os.path.join(front.REPO, "isoquant.py"), "-d", "nanopore"] + (bams if bams[0] == "--yaml" else ["--bam"] + bams) + \
                  ["-r", "chr9.4M.fa.gz", "-o", name, "-t", "1", "-p", "S", "--genedb", genedb, "--no_model_construction"] + list(extra)
            p = subprocess.run(cmd, cwd=d, env=env, capture_output=True, text=True, timeout=900)
            if p.returncode != 0:
                problems.append("%s: isoquant exited %d: %s" % (name, p.returncode, p.stderr[-200:]))
                return None
            out = os.path.join(d, name, "S")
            res = {}
            for fn in ("S.read_assignments.tsv.gz", "S.corrected_reads.bed.gz", "S.transcript_counts.tsv", "S.gene_counts.tsv"):
                path = os.path.join(out, fn)
                opener = gzip.open if fn.endswith(".gz") else open
                res[fn] = sorted(l for l in opener(path, "rt") if not l.startswith("#")) if os.path.exists(path) else None
            return res

        base = run("base", ["chr9.4M.ont.sim.polya.bam"], "chr9.4M.gtf.gz", ["--complete_genedb"])
        variants = {}
        if "split_bam" in which:
            variants["split_bam"] = run("split", ["part1.bam", "part2.bam"], "chr9.4M.gtf.gz", ["--complete_genedb"])
        if "empty_first_bam" in which:
            variants["empty_first_bam"] = run("emptyfirst", ["empty.bam", "chr9.4M.ont.sim.polya.bam"], "chr9.4M.gtf.gz", ["--complete_genedb"])
        if "empty_last_bam" in which:
            variants["empty_last_bam"] = run("emptylast", ["chr9.4M.ont.sim.polya.bam", "empty.bam"], "chr9.4M.gtf.gz", ["--complete_genedb"])
        bases = {}
        if "split_by_flag" in which:
            bases["split_by_flag"] = run("flagged", ["flagged.bam"], "chr9.4M.gtf.gz", ["--complete_genedb"])
            variants["split_by_flag"] = run("byflag", ["flag_clear.bam", "flag_set.bam"], "chr9.4M.gtf.gz", ["--complete_genedb"])
        if "yaml_same_names" in which:
            # the two parts as per-run folders with one file name, listed in a YAML - once as they are, once under one shared label
            # the YAML and the files it names (by relative paths) live in a folder of their own; the working directory of the run holds
            # files of the same relative names - stale copies - which must not be taken instead
            for k, sub in enumerate(("runA", "runB")):
                os.makedirs(os.path.join(d, "ydir", sub), exist_ok=True)
                os.makedirs(os.path.join(d, sub), exist_ok=True)
                for ext in ("", ".bai"):
                    shutil.copy(os.path.join(d, "part%d.bam%s" % (k + 1, ext)), os.path.join(d, "ydir", sub, "reads.bam" + ext))
                    shutil.copy(os.path.join(d, "empty.bam%s" % ext), os.path.join(d, sub, "reads.bam" + ext))
            for name, labels in (("same_base_name", ""), ("same_label", ',\n    labels: ["flowcell1", "flowcell1"]')):
                with open(os.path.join(d, "ydir", name + ".yaml"), "w") as f:
                    f.write('[\n  data format: "bam",\n  {\n    name: "S",\n    long read files: [\n      "runA/reads.bam",\n      "runB/reads.bam"\n    ]%s\n  }\n]\n' % labels)
                variants["yaml_" + name] = run("y" + name, ["--yaml", os.path.join("ydir", name + ".yaml")], "chr9.4M.gtf.gz", ["--complete_genedb"])
        if "sq_order" in which:
            # the same records in two files whose headers list the reference sequences in different orders (a second, empty contig added)
            with gzip.open(os.path.join(d, "chr9.4M.fa.gz"), "rt") as fi, open(os.path.join(d, "two.fa"), "w") as fo:
                fo.write(fi.read())
                fo.write(">ctg2\n" + "ACGTTGCA" * 600 + "\n")
            hd = inp.header.to_dict()
            sq = list(hd["SQ"]) + [{"SN": "ctg2", "LN": 4800}]
            h1 = pysam.AlignmentHeader.from_dict(dict(hd, SQ=sq))
            h2 = pysam.AlignmentHeader.from_dict(dict(hd, SQ=list(reversed(sq))))
            for name, hdr, keep in (("sq_all.bam", h1, None), ("sq_a.bam", h1, 0), ("sq_b.bam", h2, 1)):
                with pysam.AlignmentFile(os.path.join(d, name), "wb", header=hdr) as out:
                    for idx, a in enumerate(recs):
                        if keep is None or idx % 2 == keep:
                            out.write(pysam.AlignedSegment.from_dict(a.to_dict(), hdr))
                pysam.index(os.path.join(d, name))

            def run2(name, bams):
                return run(name, bams, "chr9.4M.gtf.gz", ["--complete_genedb", "-r", "two.fa"])
            bases["sq_order"] = run2("sqall", ["sq_all.bam"])
            variants["sq_order"] = run2("sqsplit", ["sq_a.bam", "sq_b.bam"])
        if "replaced_gz" in which:
            # history in one output folder: a run with an annotation file, the file replaced by another release under the same name,
            # a second run into the same folder - it must equal a fresh run with the new release
            lines = open(os.path.join(d, "plain.gtf")).read().splitlines(True)
            genes = sorted(set(l.split('gene_id "')[1].split('"')[0] for l in lines if 'gene_id "' in l))
            dropped = set(genes[::3])
            reduced = [l for l in lines if l.startswith("#") or l.split('gene_id "')[1].split('"')[0] not in dropped]
            os.makedirs(os.path.join(d, "ann"), exist_ok=True)
            shutil.copy(os.path.join(d, "chr9.4M.gtf.gz"), os.path.join(d, "ann", "annot.gtf.gz"))
            first = run("hist", ["chr9.4M.ont.sim.polya.bam"], "ann/annot.gtf.gz", ["--complete_genedb"])
            for path in (os.path.join(d, "ann", "annot.gtf.gz"), os.path.join(d, "release2.gtf.gz")):
                with gzip.open(path, "wt") as fo:
                    fo.writelines(reduced)
            st = os.stat(os.path.join(d, "ann", "annot.gtf.gz"))
            os.utime(os.path.join(d, "ann", "annot.gtf.gz"), (st.st_atime + 100, st.st_mtime + 100))
            if first is not None:
                bases["replaced_gz"] = run("fresh2", ["chr9.4M.ont.sim.polya.bam"], "release2.gtf.gz", ["--complete_genedb"])
                variants["replaced_gz"] = run("hist", ["chr9.4M.ont.sim.polya.bam"], "ann/annot.gtf.gz", ["--complete_genedb", "--force"])
                if bases["replaced_gz"] is not None and bases["replaced_gz"] == first:
                    problems.append("replaced_gz: dropping a third of the genes changed nothing (test input without effect)")
        if "plain_gtf" in which:
            variants["plain_gtf"] = run("plain", ["chr9.4M.ont.sim.polya.bam"], "plain.gtf", ["--complete_genedb"])
        if "inferred" in which:
            variants["inferred"] = run("inferred", ["chr9.4M.ont.sim.polya.bam"], "chr9.4M.gtf.gz", [])
        if "prebuilt_db" in which:
            dbs = [os.path.join(r, f) for r, _, fs in os.walk(os.path.join(d, "base")) for f in fs if f.endswith(".db")]
            if dbs:
                variants["prebuilt_db"] = run("db", ["chr9.4M.ont.sim.polya.bam"], dbs[0], ["--complete_genedb"])
        if base is None:
            return problems
        for vname, v in variants.items():
            if v is None:
                continue
            ref = bases.get(vname, base)
            if ref is None:
                continue
            for fn in ref:
                if ref[fn] is None or v[fn] is None:
                    continue
                a, b = ref[fn], v[fn]
                if (vname in ("split_bam", "empty_first_bam", "empty_last_bam", "split_by_flag", "sq_order") or vname.startswith("yaml_")) and fn.startswith("S.read_assignments"):
                    # the file label column may differ; compare read id, isoform, type, exons
                    key = lambda l: tuple(l.split("\t")[:8])
                    a, b = sorted(map(key, a)), sorted(map(key, b))
                if a != b:
                    problems.append("%s: %s differs from the single-BAM / gz-GTF run (%d vs %d records)" % (vname, fn, len(a), len(b)))
    finally:
        shutil.rmtree(d, ignore_errors=True)
    return problems


def replay_repr(d):
    p = _representations(d["inputs"]["which"])
    return (not p), "%s: %s" % (d["inputs"]["which"], p or "identical to the base run")


@bounded("C12.representations", ["C12"], note="real pipeline runs on the bundled chr9 data: the same alignments as one BAM, split over two "
         "BAMs, accompanied by a BAM without a single record (first or last in the list), split by the duplicate / QC-fail flag bits, split over two files whose headers list the reference sequences in different orders, or given as two files of one name in two folders through a YAML in a folder of its own, by relative paths, while the working directory holds other files of the same relative names (with and without a shared label) (thorough: also a second run into the same output folder after the gzipped annotation was replaced by another release under the same name, against a fresh run), the annotation gzipped or plain (thorough: also as the pre-built gffutils database and with inferred genes/transcripts) "
         "must give identical read assignments, corrected alignments and ungrouped reference-based tables (as multisets of records)")
def c12_repr(tier, rng):
    which = ["split_bam", "empty_first_bam", "split_by_flag", "sq_order", "yaml_same_names", "plain_gtf"] if tier == "quick" else ["split_bam", "empty_first_bam", "empty_last_bam", "split_by_flag", "sq_order", "yaml_same_names", "replaced_gz", "plain_gtf", "inferred", "prebuilt_db"]
    p = _representations(which)
    viol = []
    if p:
        viol.append({"obligation": "C12.representations", "inputs": {"which": which}, "observed": p[:4],
                     "required": "identical outputs", "replay_call": "contracts.c_inputs:replay_repr"})
    return {"cases": len(which) + 1 + ("split_by_flag" in which) + 2 * ("replaced_gz" in which) + ("yaml_same_names" in which) + ("sq_order" in which), "bound": "bundled chr9 data; variants %s" % which, "violations": viol, "samples": [{"variants": which}]}


# ---- list files: every file of every experiment reaches the experiment ---------------------------------------------------------------------------------
@finite("C12.list_file_parsing", ["C12", "C10"], note="the real InputDataStorage.get_samples_from_file on list files of 1-3 experiments with 1-2 files each, experiments separated "
        "by blank lines and / or #name lines in every combination: each experiment gets exactly its files, in order, one library per line")
def c12_list_file_parsing(tier, rng):
    import contextlib, io, itertools, shutil, tempfile
    ids = native.repo_import("src/input_data_storage.py")
    base = os.path.join(os.path.dirname(os.path.dirname(os.path.abspath(__file__))), ".run")
    os.makedirs(base, exist_ok=True)
    d = tempfile.mkdtemp(prefix="lst", dir=base)
    obl = dis = 0
    viol = []
    try:
        files = [os.path.join(d, "f%d.bam" % k) for k in range(6)]
        for f in files:
            open(f, "w").close()
        for nexp in (1, 2, 3):
            for sizes in itertools.product((1, 2), repeat=nexp):
                for seps in itertools.product(("name", "blank", "blank_name"), repeat=nexp):
                    if seps[0] == "blank_name":
                        continue
                    obl += 1
                    lines, want, k = [], [], 0
                    for e in range(nexp):
                        if seps[e] == "name":
                            lines.append("#exp%d" % e)
                        elif seps[e] == "blank":
                            if e > 0:
                                lines.append("")
                        else:
                            lines += ["", "#exp%d" % e]
                        mine = files[k:k + sizes[e]]
                        k += sizes[e]
                        lines += mine
                        want.append([[f] for f in mine])
                    path = os.path.join(d, "in.list")
                    open(path, "w").write("\n".join(lines) + "\n")
                    s = ids.InputDataStorage.__new__(ids.InputDataStorage)
                    s.experiment_prefix, s.input_type = "RUN", "bam"
                    try:
                        with contextlib.redirect_stdout(io.StringIO()):
                            got = s.get_samples_from_file(path)[0]
                    except SystemExit:
                        got = "refused"
                    except Exception as e:
                        got = "%s: %s" % (type(e).__name__, e)
                    if got == want:
                        dis += 1
                    elif len(viol) < 3:
                        viol.append({"obligation": "C12.list_file_parsing.%s.%s" % ("_".join(map(str, sizes)), "_".join(seps)),
                                     "inputs": {"list_file": [l.replace(d + "/", "") for l in lines]},
                                     "observed": str(got).replace(d + "/", ""), "required": str(want).replace(d + "/", "")})
    finally:
        shutil.rmtree(d, ignore_errors=True)
    return {"obligations": obl, "discharged": dis, "violations": viol, "cases": obl, "exhaustive": True,
            "bound": "1-3 experiments x 1-2 files x separators {#name, blank line, blank line + #name}", "samples": [{"list_file": ["f0.bam", "", "f1.bam", "f2.bam"]}]}
