#!/bin/sh
# usage: mut.sh <prop> <only> <file> <sed-expr>
rm -rf /tmp/mut && mkdir -p /tmp/mut && cp -r /repo/src /repo/isoquant.py /tmp/mut/
sed -i "$4" /tmp/mut/$3
if diff -q /repo/$3 /tmp/mut/$3 >/dev/null; then echo "MUTATION DID NOT APPLY"; exit 9; fi
diff /repo/$3 /tmp/mut/$3 | head -6
cd /verif && VERIF_REPO=/tmp/mut ./vcheck $1 --only "$2" 2>&1 | cut -c1-200 | grep -E "VIOLATION|UNDECIDED|CHECKER|exit" | head -5
rm -rf /tmp/mut
