#!/usr/bin/env python
# Demo for property C13: exon / intron include and exclude counts equal a recount from the alignments.
#
# Builds a small reference, a GTF with two paralogous genes on one chromosome and a BAM in which one read has
# a primary alignment in gene A (compatible with both isoforms of A) and a secondary alignment in gene B.
# IsoQuant keeps both alignments of that read (both appear in read_assignments.tsv). The script runs the real
# isoquant.py with --count_exons and recounts, for every annotated exon and intron, the alignments that were
# processed (= listed in read_assignments.tsv) and contain / skip the feature.
#
# usage: cd /tmp/seedo_C13 && /venv/bin/python _seed/demo.py        exit 0 + PASS / exit 1 + differences

import gzip
import os
import random
import shutil
import subprocess
import sys
import tempfile
from collections import defaultdict

import pysam

ROOT = os.path.dirname(os.path.dirname(os.path.abspath(__file__)))
CHR = "chr1"
CHR_LEN = 12000

# gene -> strand, {transcript -> exons (1-based, closed)}
ANNOTATION = {
    "GA": ("+", {"GA.t1": [(1000, 1200), (1500, 1700), (2000, 2200), (2600, 3000)],
                 "GA.t2": [(1100, 1200), (1500, 1700), (2000, 2200), (2600, 3000)]}),
    "GB": ("+", {"GB.t1": [(6000, 6200), (6500, 6700), (7000, 7200), (7600, 8000)]}),
}

# read id, flag, blocks (1-based, closed)
ALIGNMENTS = [
    # full-length reads of both genes
    ("readA_full", 0, [(1000, 1200), (1500, 1700), (2000, 2200), (2600, 3000)]),
    ("readB_full", 0, [(6000, 6200), (6500, 6700), (7000, 7200), (7600, 8000)]),
    # skips the second exon of gene B
    ("readB_skip", 0, [(6000, 6200), (7000, 7200), (7600, 8000)]),
    # multimapped read: primary in A (fits GA.t1 and GA.t2), secondary in the paralog B
    ("readM", 0, [(1150, 1200), (1500, 1700), (2000, 2200), (2600, 2900)]),
    ("readM", 256, [(6150, 6200), (6500, 6700), (7000, 7200), (7600, 7900)]),
    # a second multimapped read with the loci the other way round (primary in B is unique -> only that one is kept)
    ("readN", 0, [(6150, 6200), (6500, 6700), (7000, 7200), (7600, 7950)]),
    ("readN", 256, [(1150, 1200), (1500, 1700), (2000, 2200), (2600, 2950)]),
]


def introns_of(blocks):
    return [(blocks[i][1] + 1, blocks[i + 1][0] - 1) for i in range(len(blocks) - 1)]


def make_reference(path):
    rnd = random.Random(13)
    # no long homopolymers: nothing that looks like a polyA / polyT tail
    seq = []
    while len(seq) < CHR_LEN:
        c = rnd.choice("ACGT")
        if len(seq) >= 2 and seq[-1] == c and seq[-2] == c:
            continue
        seq.append(c)
    for strand, transcripts in ANNOTATION.values():
        for exons in transcripts.values():
            for (s, e) in introns_of(exons):
                seq[s - 1:s + 1] = "GT"
                seq[e - 2:e] = "AG"
    seq = "".join(seq)
    with open(path, "w") as f:
        f.write(">%s\n" % CHR)
        for i in range(0, len(seq), 60):
            f.write(seq[i:i + 60] + "\n")
    return seq


def make_gtf(path):
    with open(path, "w") as f:
        for gene_id, (strand, transcripts) in ANNOTATION.items():
            g_start = min(e[0] for exons in transcripts.values() for e in exons)
            g_end = max(e[1] for exons in transcripts.values() for e in exons)
            f.write('%s\tdemo\tgene\t%d\t%d\t.\t%s\t.\tgene_id "%s";\n' % (CHR, g_start, g_end, strand, gene_id))
            for t_id, exons in transcripts.items():
                f.write('%s\tdemo\ttranscript\t%d\t%d\t.\t%s\t.\tgene_id "%s"; transcript_id "%s";\n' %
                        (CHR, exons[0][0], exons[-1][1], strand, gene_id, t_id))
                for (s, e) in exons:
                    f.write('%s\tdemo\texon\t%d\t%d\t.\t%s\t.\tgene_id "%s"; transcript_id "%s";\n' %
                            (CHR, s, e, strand, gene_id, t_id))


def make_bam(path, ref_seq):
    header = pysam.AlignmentHeader.from_dict({"HD": {"VN": "1.6", "SO": "coordinate"},
                                              "SQ": [{"SN": CHR, "LN": CHR_LEN}]})
    records = []
    for read_id, flag, blocks in ALIGNMENTS:
        a = pysam.AlignedSegment(header)
        a.query_name = read_id
        a.flag = flag
        a.reference_id = 0
        a.reference_start = blocks[0][0] - 1
        a.mapping_quality = 60
        cigar = []
        seq = ""
        for i, (s, e) in enumerate(blocks):
            if i > 0:
                cigar.append((3, s - blocks[i - 1][1] - 1))
            cigar.append((0, e - s + 1))
            seq += ref_seq[s - 1:e]
        a.cigartuples = cigar
        a.query_sequence = seq
        a.query_qualities = pysam.qualitystring_to_array("I" * len(seq))
        records.append(a)
    records.sort(key=lambda r: r.reference_start)
    unsorted = path + ".unsorted.bam"
    with pysam.AlignmentFile(unsorted, "wb", header=header) as out:
        for r in records:
            out.write(r)
    pysam.sort("-o", path, unsorted)
    os.remove(unsorted)
    pysam.index(path)


def blocks_from_alignment(alignment):
    # own conversion, skips (N) separate the blocks, deletions are part of a block
    blocks = []
    pos = alignment.reference_start + 1
    cur_start = None
    for op, length in alignment.cigartuples:
        if op in (0, 2, 7, 8):
            if cur_start is None:
                cur_start = pos
            pos += length
        elif op == 3:
            blocks.append((cur_start, pos - 1))
            cur_start = None
            pos += length
    blocks.append((cur_start, pos - 1))
    return blocks


def read_processed_alignments(assignment_file):
    # (read id, exon string) of every alignment IsoQuant reports as processed
    processed = set()
    opener = gzip.open if assignment_file.endswith(".gz") else open
    with opener(assignment_file, "rt") as f:
        for line in f:
            if line.startswith("#"):
                continue
            fs = line.rstrip("\n").split("\t")
            processed.add((fs[0], fs[7]))
    return processed


def read_count_table(path):
    table = {}
    with open(path) as f:
        for line in f:
            if line.startswith("#"):
                continue
            fs = line.rstrip("\n").split("\t")
            key = (fs[0], int(fs[1]), int(fs[2]))
            if key in table:
                raise SystemExit("FAIL: feature %s reported twice in %s" % (str(key), path))
            table[key] = (fs[3], set(fs[5].split(",")), int(fs[7]), int(fs[8]))
    return table


def main():
    tmp_dir = tempfile.mkdtemp(prefix="seed_c13_")
    try:
        ref_path = os.path.join(tmp_dir, "ref.fa")
        gtf_path = os.path.join(tmp_dir, "genes.gtf")
        bam_path = os.path.join(tmp_dir, "reads.bam")
        out_dir = os.path.join(tmp_dir, "out")
        home_dir = os.path.join(tmp_dir, "home")
        os.makedirs(home_dir)
        ref_seq = make_reference(ref_path)
        make_gtf(gtf_path)
        make_bam(bam_path, ref_seq)

        env = dict(os.environ)
        env["HOME"] = home_dir
        cmd = [sys.executable, os.path.join(ROOT, "isoquant.py"), "--bam", bam_path, "--genedb", gtf_path,
               "--complete_genedb", "-r", ref_path, "--data_type", "nanopore", "-o", out_dir, "--prefix", "demo",
               "--count_exons", "--no_model_construction", "-t", "1"]
        res = subprocess.run(cmd, env=env, cwd=tmp_dir, capture_output=True, text=True)
        if res.returncode != 0:
            print(res.stdout[-3000:])
            print(res.stderr[-3000:])
            print("FAIL: isoquant.py exited with %d" % res.returncode)
            return 1

        sample_dir = os.path.join(out_dir, "demo")
        assignment_file = None
        for name in ("demo.read_assignments.tsv.gz", "demo.read_assignments.tsv"):
            if os.path.exists(os.path.join(sample_dir, name)):
                assignment_file = os.path.join(sample_dir, name)
        processed = read_processed_alignments(assignment_file)
        exon_table = read_count_table(os.path.join(sample_dir, "demo.exon_counts.tsv"))
        intron_table = read_count_table(os.path.join(sample_dir, "demo.intron_counts.tsv"))

        # matching tolerance actually used by the run: the demo reads differ from the annotation either by 0
        # or by >= 50 bases, so any small delta gives the same answer
        delta = 6

        # annotated features
        annotated_exons = defaultdict(lambda: (set(), set()))
        annotated_introns = defaultdict(lambda: (set(), set()))
        for gene_id, (strand, transcripts) in ANNOTATION.items():
            for exons in transcripts.values():
                for e in exons:
                    annotated_exons[e][0].add(strand)
                    annotated_exons[e][1].add(gene_id)
                for i in introns_of(exons):
                    annotated_introns[i][0].add(strand)
                    annotated_introns[i][1].add(gene_id)

        # recount from the BAM
        exp_exons = defaultdict(lambda: [0, 0])
        exp_introns = defaultdict(lambda: [0, 0])
        n_processed = 0
        with pysam.AlignmentFile(bam_path, "rb") as bam:
            for alignment in bam:
                blocks = blocks_from_alignment(alignment)
                exon_str = ",".join("%d-%d" % b for b in blocks)
                if (alignment.query_name, exon_str) not in processed:
                    continue
                n_processed += 1
                read_introns = introns_of(blocks)
                for e in annotated_exons:
                    if any(abs(b[0] - e[0]) <= delta and abs(b[1] - e[1]) <= delta for b in blocks):
                        exp_exons[e][0] += 1
                    elif blocks[0][1] + delta <= e[0] and e[1] <= blocks[-1][0] - delta:
                        exp_exons[e][1] += 1
                for i in annotated_introns:
                    if any(abs(r[0] - i[0]) <= delta and abs(r[1] - i[1]) <= delta for r in read_introns):
                        exp_introns[i][0] += 1
                    elif blocks[0][0] <= i[0] and i[1] <= blocks[-1][1]:
                        # the demo reads either span an intron completely or do not touch it
                        exp_introns[i][1] += 1

        print("alignments in the BAM: %d, processed according to read_assignments: %d" % (len(ALIGNMENTS), n_processed))
        if ("readM", "1150-1200,1500-1700,2000-2200,2600-2900") not in processed or \
                ("readM", "6150-6200,6500-6700,7000-7200,7600-7900") not in processed:
            print("FAIL: the demo expects both alignments of readM to be processed (check read_assignments)")
            return 1

        problems = []
        for kind, table, annotated, expected in (("exon", exon_table, annotated_exons, exp_exons),
                                                 ("intron", intron_table, annotated_introns, exp_introns)):
            for feature in sorted(annotated):
                exp_incl, exp_excl = expected[feature]
                key = (CHR, feature[0], feature[1])
                if key in table:
                    strand, genes, incl, excl = table[key]
                    if strand != "".join(sorted(annotated[feature][0])) or genes != annotated[feature][1]:
                        problems.append("%s %s: strand / genes %s %s differ from the annotation %s %s" %
                                        (kind, str(key), strand, sorted(genes), sorted(annotated[feature][0]),
                                         sorted(annotated[feature][1])))
                else:
                    incl, excl = 0, 0
                if (incl, excl) != (exp_incl, exp_excl):
                    problems.append("%s %s:%d-%d: reported include/exclude = %d/%d, recount from the alignments = %d/%d" %
                                    (kind, CHR, feature[0], feature[1], incl, excl, exp_incl, exp_excl))
            for key in table:
                if (key[1], key[2]) not in annotated:
                    problems.append("%s row %s is not an annotated feature" % (kind, str(key)))

        if problems:
            print("FAIL: exon / intron counts differ from the recount")
            for p in problems:
                print("  " + p)
            return 1
        print("PASS: %d exons and %d introns agree with the recount" % (len(annotated_exons), len(annotated_introns)))
        return 0
    finally:
        shutil.rmtree(tmp_dir, ignore_errors=True)


if __name__ == "__main__":
    sys.exit(main())
