"""Contracts for corrected alignments (C14): BED12 arithmetic, exon assembly, splice-site provenance in process_events."""
import ast
from pyvc.api import contract, spec, lemma, record, finite, bounded, enum_from_repo
from pyvc import native, front
from contracts.c_common import WF, WFgap  # noqa

IV = "tuple[int,int]"
IVS = "list[tuple[int,int]]"
CLASS_HOME = {"ExonCorrector": "src/exon_corrector.py", "BEDPrinter": "src/assignment_io.py",
              "MatchEventSubtype": "src/isoform_assignment.py", "SupplementaryMatchConstants": "src/isoform_assignment.py"}
enum_from_repo("src/isoform_assignment.py", "MatchEventSubtype")
enum_from_repo("src/isoform_assignment.py", "ReadAssignmentType")


def _bed_extract(fdef):
    """BEDPrinter.add_read_info: the integer fields of the '%' tuple (chromStart, chromEnd, blockCount) and the element
    expressions of the two ','.join comprehensions (blockSizes, blockStarts); drops: guards, str(), join, the write call"""
    tup = None
    for n in ast.walk(fdef):
        if isinstance(n, ast.BinOp) and isinstance(n.op, ast.Mod) and isinstance(n.right, ast.Tuple) and len(n.right.elts) == 11:
            tup = n.right
    if tup is None:
        raise front.Missing("the 11-field BED format tuple was not found in BEDPrinter.add_read_info")

    def comp_of(joincall):
        lc = joincall.args[0]
        elt = lc.elt
        if isinstance(elt, ast.Call) and isinstance(elt.func, ast.Name) and elt.func.id == "str":
            elt = elt.args[0]
        return ast.ListComp(elt=elt, generators=lc.generators)

    ret = ast.Return(value=ast.Tuple(elts=[tup.elts[1], tup.elts[2], tup.elts[5], tup.elts[6], tup.elts[8],
                                           comp_of(tup.elts[9]), comp_of(tup.elts[10])], ctx=ast.Load()))
    args = ast.arguments(posonlyargs=[], args=[ast.arg(arg="exon_blocks")], kwonlyargs=[], kw_defaults=[], defaults=[])
    f = ast.FunctionDef(name="add_read_info", args=args, body=[ret], decorator_list=[], lineno=fdef.lineno, col_offset=0)
    return f


contract("src/assignment_io.py:BEDPrinter.add_read_info#bed_fields", {"exon_blocks": IVS},
         returns="tuple[int,int,int,int,int,list[int],list[int]]", props=["C14"], extract=_bed_extract, native=False,
         requires=["len(exon_blocks) >= 1", "WF(exon_blocks)", "exon_blocks[0][0] >= 1"],
         ensures=[
             # valid BED12: 0-based start, positive block sizes, ascending non-overlapping blocks from chromStart to chromEnd
             "result[0] == exon_blocks[0][0] - 1 and result[0] >= 0 and result[1] == exon_blocks[len(exon_blocks) - 1][1]",
             "result[2] == result[0] and result[3] == result[0]",
             "result[4] == len(exon_blocks) and len(result[5]) == result[4] and len(result[6]) == result[4]",
             "all(result[5][k] > 0 for k in range(result[4]))",
             "result[6][0] == 0",
             "all(result[6][k] + result[5][k] < result[6][k + 1] + 1 for k in range(result[4] - 1))",
             "result[6][result[4] - 1] + result[5][result[4] - 1] == result[1] - result[0]",
             # block k is exon k
             "all(result[0] + result[6][k] + 1 == exon_blocks[k][0] and result[0] + result[6][k] + result[5][k] == exon_blocks[k][1] "
             "for k in range(result[4]))"],
         canary="result[6][0] == 1")


# ---- ExonCorrector ---------------------------------------------------------------------------------------------------------------
E = "src/exon_corrector.py:"
record("MatchEventR", {"event_type": "enum:MatchEventSubtype", "isoform_region": IV, "read_region": IV, "event_info": "int"})
record("CorrParams", {"delta": "int", "correct_fuzzy_junctions": "bool", "correct_intron_shifts": "bool", "correct_skipped_exons": "bool",
                      "correct_terminal_exons": "bool", "correct_fake_terminal_exons": "bool", "correct_microintron_retention": "bool"})
record("OverlappingFeaturesProfileConstructor", {"known_features": IVS, "delta": "int"})
record("AlignmentInfoE", {"read_exons": IVS, "read_start": "int", "read_end": "int"})
record("ExonCorrector", {"params": "rec:CorrParams", "delta": "int", "chr_record": "any",
                         "intron_profile_constructor": "rec:OverlappingFeaturesProfileConstructor"})
record("IsoformMatchE", {"assigned_transcript": "opt[str]"})
record("ReadAssignmentE", {"assignment_type": "enum:ReadAssignmentType", "isoform_matches": "list[rec:IsoformMatchE]"})
EVMAP = "dict[int,rec:MatchEventR]"

contract("src/long_read_profiles.py:OverlappingFeaturesProfileConstructor.match_genomic_features",
         {"self": "rec:OverlappingFeaturesProfileConstructor", "read_features": IVS}, returns=IVS, trusted=True, props=[],
         # every returned feature is the read's own feature or a known feature matching it within delta (both sites)
         ensures=["len(result) == len(read_features)",
                  "all(result[i] == read_features[i] or (any(self.known_features[g] == result[i] for g in range(len(self.known_features))) and "
                  "-self.delta <= result[i][0] - read_features[i][0] <= self.delta and -self.delta <= result[i][1] - read_features[i][1] <= self.delta) "
                  "for i in range(len(read_features)))"],
         note="two-pointer sweep with a dict of lists; assumed here, checked natively (bounded) by C14.match_genomic_features", native=False)

contract("src/alignment_info.py:AlignmentInfo.get_error_count",
         {"self": "rec:AlignmentInfoE", "ref_start": "int", "ref_end": "int", "intron_index": "opt[int]", "left_site": "bool", "chr_record": "any"},
         returns="tuple[int,int]", trusted=True, props=[], ensures=["result[0] >= 0 and result[1] >= 0"], native=False,
         params=["self", "ref_start", "ref_end", "intron_index", "left_site", "chr_record"],
         note="walks pysam aligned pairs: external; only used to choose between the read's and the annotation's site")

class _StubAI:
    """stands in for AlignmentInfo in process_events: read span plus an error counter that answers arbitrarily"""
    def __init__(self, rng_seed, read_start, read_end):
        import random
        self.rng = random.Random(rng_seed)
        self.read_start, self.read_end = read_start, read_end
        self.read_exons = []

    def get_error_count(self, ref_start, ref_end, intron_index=None, left_site=True, chr_record=None):
        return self.rng.choice([(0, 0), (0, 1), (1, 0), (0, 2), (2, 3)])


def _gen_pe(none_only):
    def gen(rng, n):
        from functools import partial
        ec = native.repo_import("src/exon_corrector.py")
        lrp = native.repo_import("src/long_read_profiles.py")
        ia = native.repo_import("src/isoform_assignment.py")
        com = native.repo_import("src/common.py")
        T = ia.MatchEventSubtype
        for _ in range(n):
            delta = rng.choice([0, 2, 4])
            # isoform introns and read introns that jitter around them
            k = rng.randint(1, 4)
            p = 100
            iso = []
            for _i in range(k):
                a = p + rng.randint(20, 60); b = a + rng.randint(30, 90); iso.append((a, b)); p = b
            read = [(a + rng.randint(-delta, delta), b + rng.randint(-delta, delta)) for a, b in iso if rng.random() < .85] or [iso[0]]
            if rng.random() < .3:
                read.append((read[-1][1] + 40, read[-1][1] + 90))
            region = (read[0][0] - rng.randint(10, 50), read[-1][1] + rng.randint(10, 50))
            iso_region = (iso[0][0] - rng.randint(10, 80), iso[-1][1] + rng.randint(10, 80))
            P = type("P", (), {})()
            P.delta = delta
            for f in ("correct_fuzzy_junctions", "correct_intron_shifts", "correct_skipped_exons", "correct_terminal_exons",
                      "correct_fake_terminal_exons", "correct_microintron_retention"):
                setattr(P, f, False if none_only else rng.random() < .6)
            c = ec.ExonCorrector.__new__(ec.ExonCorrector)
            c.params, c.delta, c.chr_record, c.gene_info = P, delta, None, None
            c.intron_profile_constructor = lrp.OverlappingFeaturesProfileConstructor(
                iso + [(iso[-1][1] + 200, iso[-1][1] + 300)], (iso_region[0], iso_region[1] + 400), comparator=partial(com.equal_ranges, delta=delta))
            c.intron_profile_constructor.delta = delta
            evmap = {}
            i = 0
            while i < len(read):
                if rng.random() < .45:
                    j = i if rng.random() < .7 else min(len(read) - 1, i + 1)
                    t = rng.choice([T.fake_terminal_exon_left, T.fake_terminal_exon_right, T.terminal_exon_misalignment_left,
                                    T.terminal_exon_misalignment_right, T.intron_shift, T.exon_misalignment, T.extra_intron_known,
                                    T.exon_skipping_known, T.intron_retention, T.alt_left_site_novel, T.exon_skipping_novel])
                    if t in (T.fake_terminal_exon_left, T.fake_terminal_exon_right, T.intron_shift, T.exon_misalignment):
                        j = i
                    a = rng.randrange(len(iso)); b = rng.randint(a, len(iso) - 1)
                    evmap[i] = ia.MatchEvent(t, isoform_region=(a, b), read_region=(i, j))
                    i = j + 1
                else:
                    i += 1
            if not none_only and rng.random() < .2:
                q = rng.randrange(len(read))
                evmap[-q - 1] = ia.MatchEvent(T.fake_micro_intron_retention, isoform_region=(rng.randrange(len(iso)), 0),
                                              read_region=(ia.SupplementaryMatchConstants.absent_position, q))
            yield {"self": c, "alignment_info": _StubAI(rng.randrange(10 ** 6), region[0], region[1]), "event_map": evmap,
                   "read_region": region, "read_introns": read, "isoform_region": iso_region, "isoform_introns": iso}
    return gen


_PE_ARGS = {"self": "rec:ExonCorrector", "alignment_info": "rec:AlignmentInfoE", "event_map": EVMAP, "read_region": IV,
            "read_introns": IVS, "isoform_region": IV, "isoform_introns": IVS}
_EV_WF = ["all((k >= 0 and event_map[k].read_region[0] == k and k <= event_map[k].read_region[1] < len(read_introns) and "
          "0 <= event_map[k].isoform_region[0] <= event_map[k].isoform_region[1] < len(isoform_introns)) or "
          "(k < 0 and -k - 1 < len(read_introns) and 0 <= event_map[k].isoform_region[0] < len(isoform_introns)) for k in event_map)"]

contract(E + "ExonCorrector.process_events#none", _PE_ARGS, returns="tuple[tuple[int,int],list[tuple[int,int]]]", props=["C14"],
         locals={"new_introns": IVS, "corrected_introns": IVS, "misalignment_set": "list[enum:MatchEventSubtype]"},
         requires=_EV_WF + [
             # --splice_correction_strategy none: all six switches off (set_splice_correction_options, checked by C14.strategy_none)
             "not self.params.correct_fuzzy_junctions and not self.params.correct_intron_shifts and not self.params.correct_skipped_exons",
             "not self.params.correct_terminal_exons and not self.params.correct_fake_terminal_exons and not self.params.correct_microintron_retention",
             "all(k >= 0 for k in event_map)",
             # shape invariant of the input: the read's introns are junctions between its exons, strictly inside the read region
             "all(read_region[0] < read_introns[j][0] and read_introns[j][1] < read_region[1] for j in range(len(read_introns)))"],
         # the corrected alignment equals the input alignment
         ensures=["result[0] == read_region", "result[1] == read_introns"],
         loops={0: {"inv": ["True"]},
                1: {"inv": ["0 <= i <= len(corrected_introns)", "len(new_introns) == i",
                            "all(new_introns[j] == read_introns[j] for j in range(i))",
                            "corrected_read_region == read_region", "corrected_introns == read_introns"],
                    "locals": {"event": "rec:MatchEventR"}}},
         gen=_gen_pe(True), canary="result[1] == []")


@spec("list[tuple[int,int]], tuple[int,int] -> bool")
def inI(L, x):
    return any(L[j] == x for j in range(len(L)))


contract(E + "ExonCorrector.process_events#provenance", _PE_ARGS, returns="tuple[tuple[int,int],list[tuple[int,int]]]",
         props=["C14"], locals={"new_introns": IVS, "corrected_introns": IVS, "misalignment_set": "list[enum:MatchEventSubtype]"},
         requires=_EV_WF + ["self.intron_profile_constructor.delta == self.params.delta", "self.params.delta >= 0",
                            # single-intron events, as the assigner emits them (the source asserts exactly this)
                            "all(event_map[k].read_region[0] == event_map[k].read_region[1] for k in event_map if "
                            "event_map[k].event_type == MatchEventSubtype.fake_terminal_exon_left or "
                            "event_map[k].event_type == MatchEventSubtype.fake_terminal_exon_right or "
                            "event_map[k].event_type == MatchEventSubtype.intron_shift or "
                            "event_map[k].event_type == MatchEventSubtype.exon_misalignment)"],
         ensures=[
             # every intron of the corrected alignment is the read's own intron, an intron of the assigned isoform, or the read's
             # intron with one or both sites moved onto the annotated intron that matches it within delta
             "all(inI(read_introns, result[1][k]) or inI(isoform_introns, result[1][k]) or "
             "any((result[1][k][0] == read_introns[j][0] or (-self.params.delta <= result[1][k][0] - read_introns[j][0] <= self.params.delta and "
             "     any(self.intron_profile_constructor.known_features[g][0] == result[1][k][0] for g in range(len(self.intron_profile_constructor.known_features))))) and "
             "    (result[1][k][1] == read_introns[j][1] or (-self.params.delta <= result[1][k][1] - read_introns[j][1] <= self.params.delta and "
             "     any(self.intron_profile_constructor.known_features[g][1] == result[1][k][1] for g in range(len(self.intron_profile_constructor.known_features))))) "
             "    for j in range(len(read_introns))) for k in range(len(result[1])))",
             # start and end move only through the terminal-exon corrections, and only when their switch is on
             "result[0][0] == read_region[0] or self.params.correct_fake_terminal_exons or self.params.correct_terminal_exons",
             "result[0][1] == read_region[1] or self.params.correct_fake_terminal_exons or self.params.correct_terminal_exons",
             "result[0][0] == read_region[0] or result[0][0] == isoform_region[0] or any(result[0][0] == read_introns[j][1] + 1 for j in range(len(read_introns)))",
             "result[0][1] == read_region[1] or result[0][1] == isoform_region[1] or any(result[0][1] == read_introns[j][0] - 1 for j in range(len(read_introns)))",
             # every intron of the corrected alignment lies strictly inside the corrected read region (no block of non-positive size at
             # the ends; this part of the former residual is proved since the repair of process_events)
             "all(result[0][0] < result[1][k][0] and result[1][k][1] < result[0][1] for k in range(len(result[1])))"],
         loops={0: {"inv": ["len(corrected_introns) == _k0", "len(potential_introns) == len(read_introns)",
                            "all((corrected_introns[j][0] == read_introns[j][0] or corrected_introns[j][0] == potential_introns[j][0]) and "
                            "(corrected_introns[j][1] == read_introns[j][1] or corrected_introns[j][1] == potential_introns[j][1]) for j in range(_k0))"],
                    "locals": {"left_site": "int", "right_site": "int", "start": "int", "end": "int", "indel_count": "int", "mm_count": "int",
                               "read_intron": IV, "ref_intron": IV}},
                1: {"inv": ["0 <= i <= len(corrected_introns)", "len(corrected_introns) == len(read_introns)",
                            "all(inI(read_introns, new_introns[k]) or inI(isoform_introns, new_introns[k]) or inI(corrected_introns, new_introns[k]) "
                            "for k in range(len(new_introns)))",
                            "corrected_read_region[0] == read_region[0] or ((self.params.correct_fake_terminal_exons or self.params.correct_terminal_exons) and "
                            "(corrected_read_region[0] == isoform_region[0] or any(corrected_read_region[0] == read_introns[j][1] + 1 for j in range(len(read_introns)))))",
                            "corrected_read_region[1] == read_region[1] or ((self.params.correct_fake_terminal_exons or self.params.correct_terminal_exons) and "
                            "(corrected_read_region[1] == isoform_region[1] or any(corrected_read_region[1] == read_introns[j][0] - 1 for j in range(len(read_introns)))))"],
                    "locals": {"event": "rec:MatchEventR"}}},
         bind={"AlignmentInfoE.get_error_count": "src/alignment_info.py:AlignmentInfo.get_error_count"},
         gen=_gen_pe(False), shards=8, timeout=30000)


contract(E + "ExonCorrector.correct_misalignments", {"self": "rec:ExonCorrector", "alignment_info": "rec:AlignmentInfoE",
                                                     "read_assignment": "rec:ReadAssignmentE"},
         returns="tuple[tuple[int,int],list[tuple[int,int]]]", trusted=True, props=[], native=False,
         ensures=["result[0][0] <= result[0][1]", "WFgap(result[1])",
                  "len(result[1]) == 0 or (result[0][0] < result[1][0][0] and result[1][len(result[1]) - 1][1] < result[0][1])"],
         note="ASSUMED, not proved: that the intron list process_events returns is sorted, gapped and inside the corrected region for "
              "every event combination the assigner can emit; this is the residual of C14 (bounded pipeline run only)")

contract(E + "ExonCorrector.correct_assigned_read", {"self": "rec:ExonCorrector", "alignment_info": "rec:AlignmentInfoE",
                                                     "read_assignment": "rec:ReadAssignmentE"},
         returns=IVS, props=["C14"], native=False,
         requires=["WF(alignment_info.read_exons)", "len(alignment_info.read_exons) >= 1"],
         ensures=[
             # untouched when there is nothing to correct
             "not (len(alignment_info.read_exons) == 1 or read_assignment.assignment_type == ReadAssignmentType.noninformative "
             "or len(read_assignment.isoform_matches) == 0) or result == alignment_info.read_exons",
             # otherwise the exons assembled around the corrected introns are a well-formed block list
             "WF(result)", "len(result) >= 1"],
         canary="len(result) == 1")


@finite("C14.strategy_none", ["C14"], note="isoquant.set_splice_correction_options: under --splice_correction_strategy none all six "
        "correction switches are off (the precondition of the process_events#none contract); all six strategies enumerated")
def c14_strategy(tier, rng):
    import importlib.util, sys, os, types
    spec_ = importlib.util.spec_from_file_location("isoquant_main", os.path.join(front.REPO, "isoquant.py"))
    native.repo_import("src/common.py")
    mod = importlib.util.module_from_spec(spec_)
    spec_.loader.exec_module(mod)
    flags = ("correct_fuzzy_junctions", "correct_intron_shifts", "correct_skipped_exons", "correct_terminal_exons",
             "correct_fake_terminal_exons", "correct_microintron_retention")
    obl = dis = 0
    viol = []
    for name in ("none", "default_pacbio", "conservative_ont", "default_ont", "all", "assembly"):
        a = types.SimpleNamespace(splice_correction_strategy=name)
        obl += 1
        try:
            mod.set_splice_correction_options(a)
            got = tuple(getattr(a, f) for f in flags)
            ok = all(isinstance(x, bool) for x in got) and (name != "none" or got == (False,) * 6) and (name != "all" or got == (True,) * 6)
        except Exception as e:
            got, ok = repr(e), False
        if ok:
            dis += 1
        else:
            viol.append({"obligation": "C14.strategy.%s" % name, "inputs": {"strategy": name}, "observed": str(got),
                         "required": "none: all switches off; all: all on"})
    # wiring: the switch `correct_<x>` that process_events reads is set from the field `<x>` of the preset (the table in the source, read
    # from the AST: namedtuple field names and the constant rows), and the rows the documentation pins down are as documented
    try:
        fdef = next(n for n in ast.walk(ast.parse(open(os.path.join(front.REPO, "isoquant.py")).read()))
                    if isinstance(n, ast.FunctionDef) and n.name == "set_splice_correction_options")
        nt = next(n for n in ast.walk(fdef) if isinstance(n, ast.Call) and ast.unparse(n.func) == "namedtuple")
        fields = list(ast.literal_eval(nt.args[1]))
        table_node = next(n.value for n in ast.walk(fdef) if isinstance(n, ast.Assign) and isinstance(n.value, ast.Dict)
                          and all(isinstance(v, ast.Call) for v in n.value.values))
        table = {ast.literal_eval(k): dict(zip(fields, [ast.literal_eval(x) for x in v.args])) for k, v in zip(table_node.keys, table_node.values)}
    except (StopIteration, ValueError, SyntaxError) as e:
        table, fields = None, []
        viol.append({"obligation": "C14.strategy_wiring", "inputs": None, "observed": "preset table not readable: %r" % e, "required": "table", "undecided": True})
    if table:
        documented = {"none": set(), "all": set(fields), "conservative_ont": {"fuzzy_junctions", "skipped_exons"}}
        for name, row in sorted(table.items()):
            a = types.SimpleNamespace(splice_correction_strategy=name)
            mod.set_splice_correction_options(a)
            for fld in fields:
                obl += 1
                got = getattr(a, "correct_" + fld, None)
                want = row[fld]
                if name in documented and want != (fld in documented[name]):
                    viol.append({"obligation": "C14.strategy_table.%s.%s" % (name, fld), "inputs": {"strategy": name, "switch": fld}, "observed": str(want),
                                 "required": "documented: %s enables exactly %s" % (name, sorted(documented[name]))})
                elif got is not want:
                    viol.append({"obligation": "C14.strategy_wiring.%s.%s" % (name, fld), "inputs": {"strategy": name, "switch": fld},
                                 "observed": "args.correct_%s = %r, the preset's %s = %r" % (fld, got, fld, want),
                                 "required": "each correction switch is set from the preset field of the same name"})
                else:
                    dis += 1
    return {"obligations": obl, "discharged": dis, "violations": viol, "cases": obl, "exhaustive": True, "bound": "6 strategies x 6 switches",
            "samples": [{"strategy": "none"}]}


def _bed_case(seed):
    import io, random, types
    rng = random.Random(seed)
    aio = native.repo_import("src/assignment_io.py")
    n = rng.randint(1, 6)
    p = rng.randint(1, 50)
    ex = []
    for _ in range(n):
        a = p + rng.randint(0 if not ex else 1, 40); b = a + rng.randint(0, 120); ex.append((a, b)); p = b
    pr = aio.BEDPrinter.__new__(aio.BEDPrinter)
    pr.output_file = io.StringIO()
    pr.print_corrected = rng.random() < .5
    pr.assignment_checker = aio.PrintAllFunctor()
    ra = types.SimpleNamespace(assignment_type=1, gene_info=types.SimpleNamespace(chr_id="chr1"), mapped_strand=rng.choice("+-"),
                               corrected_exons=ex, exons=ex, read_id="r%d" % seed)
    pr.add_read_info(ra)
    line = pr.output_file.getvalue().rstrip("\n").split("\t")
    problems = []
    try:
        cs, ce, bc = int(line[1]), int(line[2]), int(line[9])
        sizes = [int(x) for x in line[10].split(",")]
        starts = [int(x) for x in line[11].split(",")]
        if len(line) != 12 or bc != len(sizes) or bc != len(starts):
            problems.append("field/block counts")
        if cs < 0 or any(s <= 0 for s in sizes) or starts[0] != 0:
            problems.append("start/size rules")
        if any(starts[k] + sizes[k] > starts[k + 1] for k in range(bc - 1)) or starts[-1] + sizes[-1] != ce - cs:
            problems.append("blocks overlap or do not end at chromEnd")
        if [(cs + s + 1, cs + s + z) for s, z in zip(starts, sizes)] != ex:
            problems.append("blocks are not the exons")
    except Exception as e:
        problems.append("unparsable BED line %r: %r" % (line, e))
    return problems


def replay_bed(d):
    p = _bed_case(d["inputs"]["seed"])
    return (not p), "seed %s: %s" % (d["inputs"]["seed"], p or "valid BED12")


@bounded("C14.bed_lines", ["C14"], shards=4, note="the real BEDPrinter writing into a StringIO for random well-formed exon lists: the printed "
         "line is parsed back and checked against the BED12 rules (covers the string formatting the extracted proof drops)")
def c14_bed(tier, rng):
    n = 500 if tier == "quick" else 20000
    base = rng.randrange(10 ** 9)
    for k in range(n):
        p = _bed_case(base + k)
        if p:
            return {"cases": k + 1, "bound": "%d lines" % n, "violations": [{
                "obligation": "C14.bed_lines", "inputs": {"seed": base + k}, "observed": p, "required": "valid BED12 line equal to the exons",
                "replay_call": "contracts.c_correction:replay_bed"}]}
    return {"cases": n, "bound": "%d random exon lists" % n, "violations": [], "samples": [{"seed": base}]}


def _mgf_case(seed):
    import random
    from functools import partial
    rng = random.Random(seed)
    lrp = native.repo_import("src/long_read_profiles.py")
    com = native.repo_import("src/common.py")
    delta = rng.choice([0, 1, 3, 6])
    def ivs(n, lo):
        out, p = [], lo
        for _ in range(n):
            a = p + rng.randint(1, 15); b = a + rng.randint(1, 20); out.append((a, b)); p = b if rng.random() < .8 else a
        return sorted(set(out))
    known = ivs(rng.randint(0, 6), 10)
    read = []
    p = 5
    for _ in range(rng.randint(0, 5)):
        if known and rng.random() < .6:
            a, b = rng.choice(known); a += rng.randint(-delta - 1, delta + 1); b += rng.randint(-delta - 1, delta + 1)
        else:
            a = p + rng.randint(1, 20); b = a + rng.randint(1, 20)
        if a > p and b >= a:
            read.append((a, b)); p = b
    c = lrp.OverlappingFeaturesProfileConstructor(known, (0, 1000), comparator=partial(com.equal_ranges, delta=delta))
    res = c.match_genomic_features(read)
    problems = []
    if len(res) != len(read):
        problems.append("length %d != %d" % (len(res), len(read)))
    for r, x in zip(read, res):
        if x != r and not (x in known and abs(x[0] - r[0]) <= delta and abs(x[1] - r[1]) <= delta):
            problems.append("%s -> %s (delta %d, known %s)" % (r, x, delta, known))
    return problems


def replay_mgf(d):
    p = _mgf_case(d["inputs"]["seed"])
    return (not p), "seed %s: %s" % (d["inputs"]["seed"], p or "ok")


@bounded("C14.match_genomic_features", ["C14", "C13"], shards=4, note="the assumed contract of match_genomic_features (result[i] is read[i] or a known "
         "feature within delta at both sites) checked on the real function for random sorted feature lists")
def c14_mgf(tier, rng):
    n = 1500 if tier == "quick" else 60000
    base = rng.randrange(10 ** 9)
    for k in range(n):
        p = _mgf_case(base + k)
        if p:
            return {"cases": k + 1, "bound": "%d cases" % n, "violations": [{
                "obligation": "C14.match_genomic_features", "inputs": {"seed": base + k}, "observed": p[:3],
                "required": "contract of match_genomic_features", "replay_call": "contracts.c_correction:replay_mgf"}]}
    return {"cases": n, "bound": "%d random cases" % n, "violations": [], "samples": [{"seed": base}]}


# ---- the residual of C14 (region / intron consistency over real event combinations): bounded through the real assigner ---------------
def _e2e_case(seed):
    import random
    from contracts import pipeline_harness as H
    rng = random.Random(seed)
    strategy = rng.choice(["none", "default_pacbio", "conservative_ont", "default_ont", "all", "assembly"])
    params = H.make_params(strategy)
    isoforms = H.make_gene(rng)
    rng3 = random.Random(seed * 131 + 17)
    rng4 = random.Random(seed * 257 + 41)
    if rng3.random() < .08:
        # a read that is ambiguous between an isoform and the same isoform with 1-3 further upstream exons (the two number their introns
        # differently) and that skips an annotated micro-exon of 13-25 bp: the correction must use the events of the isoform whose
        # introns it inserts (own generator: earlier seeds keep their cases)
        k = rng3.randint(7, 9)
        q, pool = 1000, []
        for _ in range(k):
            a = q + rng3.randint(300, 900)
            b = a + rng3.randint(60, 260)
            pool.append((a, b))
            q = b
        j = rng3.randint(4, k - 3)
        pool[j] = (pool[j][0], pool[j][0] + rng3.randint(12, 24))
        strand = rng3.choice("+-")
        up = rng3.randint(1, 3)
        isoforms = [("T1", strand, pool[up:]), ("T2", strand, list(pool))]
        if rng3.random() < .5:
            isoforms = [("T1", strand, list(pool)), ("T2", strand, pool[up:])]
        read = [e for i, e in enumerate(pool) if i >= up and i != j]
        if rng3.random() < .3:
            read = read[:j - up + rng3.randint(1, 2)]   # the read ends soon after the skipped exon
        read[0] = (read[0][0] + rng3.randint(5, 30), read[0][1])
        kind, tid = "ambiguous_skipped_micro_exon", "T1/T2"
        gi = H.gene_info_of(isoforms, params.delta)
    elif rng4.random() < .06:
        # one intron of the only isoform displaced as a whole, its two sites by different amounts in the same direction (lengths within
        # 30 bp): whatever is done about it, no site may be moved further than max_intron_shift (own generator and own gene)
        k = rng4.randint(3, 5)
        q, pool = 1000, []
        for _ in range(k):
            a = q + rng4.randint(400, 900)
            b = a + rng4.randint(200, 320)
            pool.append((a, b))
            q = b
        strand = rng4.choice("+-")
        isoforms = [("T1", strand, list(pool))]
        mis = getattr(params, "max_intron_shift", 60)
        d1, d2 = rng4.choice([(mis - 15, mis + 15), (mis + 15, mis - 15), (mis - 20, mis - 5), (mis + 5, mis + 25), (10, 25)])
        sign = rng4.choice([-1, 1])
        i = rng4.randrange(0, k - 1)
        read = list(pool)
        read[i] = (read[i][0], read[i][1] + sign * d1)
        read[i + 1] = (read[i + 1][0] + sign * d2, read[i + 1][1])
        kind, tid = "uneven_intron_displacement", "T1"
        gi = H.gene_info_of(isoforms, params.delta)
    elif rng.random() < .2:
        # an isoform with an annotated micro-intron (5-40 bp), and reads aligned straight through it - as an inner block, or as a short
        # first / last block that the assigner calls a fake terminal exon
        tid, strand, exons = isoforms[0]
        cand = [i for i in range(len(exons)) if exons[i][1] - exons[i][0] >= 200]
        if not cand:
            return None, []
        i = rng.choice(cand)
        a, b = exons[i]
        g = rng.randint(5, 40)
        m = a + rng.randint(60, b - a - g - 100)
        exons = exons[:i] + [(a, m - 1), (m + g, b)] + exons[i + 1:]
        isoforms = [(tid, strand, exons)] + isoforms[1:]
        kind = rng.choice(["micro_inner", "micro_fake_first", "micro_fake_last"])
        left, right = rng.randint(5, 15), rng.randint(5, 15)
        if kind == "micro_inner":
            read = exons[:i] + [(a, b)] + exons[i + 2:]
        elif kind == "micro_fake_first":
            cut = m + g + right + rng.randint(70, 90)
            if cut + 20 > b:
                return None, []
            read = [(m - left, m + g + right - 1), (cut, b)] + exons[i + 2:]
        else:
            cut = m - left - rng.randint(70, 90)
            if cut - 20 < a:
                return None, []
            read = exons[:i] + [(a, cut), (m - left, m + g + right - 1)]
        if len(read) < 2:
            return None, []
        gi = H.gene_info_of(isoforms, params.delta)
    else:
        gi = H.gene_info_of(isoforms, params.delta)
        tid, strand, exons = rng.choice(isoforms)
        kind = rng.choice(H.READ_KINDS)
        read = H.derive_read(rng, exons, kind, params.delta)
    if read is None:
        return None, []
    # a quarter of the reads carry a polyA tail / polyT head that the aligner placed as a separate short block behind an N gap and that
    # add_polya_info trimmed: the raw pysam record is longer than the read the corrector is given (own generator: earlier seeds keep their cases)
    rng2 = random.Random(seed * 31 + 5)
    trimmed = None
    if rng2.random() < .25:
        gap, ln = rng2.randint(300, 900), rng2.randint(20, 35)
        if rng2.random() < .5:
            trimmed = ([], [(read[-1][1] + gap, read[-1][1] + gap + ln - 1)])
        elif read[0][0] - gap - ln >= 1:
            trimmed = ([(read[0][0] - gap - ln, read[0][0] - gap - 1)], [])
    ra, info = H.assign(gi, params, read, trimmed_blocks=trimmed)
    corrected = H.correct(gi, params, ra, info)
    problems = []
    if not corrected:
        problems.append("no corrected exons")
    else:
        if any(a > b or a < 1 for a, b in corrected):
            problems.append("block with end before start: %s" % corrected)
        if any(corrected[i][1] >= corrected[i + 1][0] for i in range(len(corrected) - 1)):
            problems.append("blocks overlap / not ascending: %s" % corrected)
        if strategy == "none" and corrected != read:
            problems.append("strategy none changed the alignment: %s -> %s" % (read, corrected))
        if not problems:
            annotated = set()
            for _, _, ex in isoforms:
                for i in range(len(ex) - 1):
                    annotated.add(ex[i][1] + 1); annotated.add(ex[i + 1][0] - 1)
            own = set()
            for i in range(len(read) - 1):
                own.add(read[i][1] + 1); own.add(read[i + 1][0] - 1)
            for i in range(len(corrected) - 1):
                for site in (corrected[i][1] + 1, corrected[i + 1][0] - 1):
                    if site not in own and site not in annotated:
                        problems.append("splice site %d is neither the read's nor annotated" % site)
    events = [e.event_type.name for m in ra.isoform_matches[:1] for e in m.match_subclassifications]
    if kind == "uneven_intron_displacement" and corrected and not problems and len(corrected) == len(read):
        mis = getattr(params, "max_intron_shift", 60)
        for k_ in range(len(read) - 1):
            moved = max(abs(corrected[k_][1] - read[k_][1]), abs(corrected[k_ + 1][0] - read[k_ + 1][0]))
            if moved > max(mis, params.delta):
                problems.append("a splice site of intron %d was moved by %d bp, the tolerance for a shifted intron is %d (events %s)" % (k_, moved, mis, events))
    if corrected and not problems and not any(("terminal" in e and "exon" in e) or "fake" in e or "micro" in e for e in events):
        # a read keeps its start and end unless a terminal-exon correction applies
        if (corrected[0][0], corrected[-1][1]) != (read[0][0], read[-1][1]):
            problems.append("start / end moved from %s to %s without a terminal-exon event (%s)" % ((read[0][0], read[-1][1]), (corrected[0][0], corrected[-1][1]), events))
    desc = {"strategy": strategy, "kind": kind, "isoform": tid, "read": read, "trimmed_blocks": trimmed, "events": events}
    return desc, problems


def replay_e2e(d):
    desc, p = _e2e_case(d["inputs"]["seed"])
    return (not p), "seed %s %s: %s" % (d["inputs"]["seed"], desc, p or "valid")


@bounded("C14.corrected_end_to_end", ["C14"], shards=8, note="reads derived from annotated isoforms by 13 kinds of perturbation (an intron displaced unevenly as a whole: no site moved beyond max_intron_shift; reads ambiguous between two isoforms that number their introns differently and skipping a micro-exon, truncation, jitter, "
         "terminal exons misplaced into the neighbouring intron on either or both sides, skipped exon, fake terminal micro-exon, retention, "
         "intron shift, novel exon; plus reads running through an annotated micro-intron as an inner or as a short terminal block) go through the real AlignmentInfo -> profiles -> LongReadAssigner -> ExonCorrector under all six "
         "strategies: corrected blocks must be positive, ascending, non-overlapping; strategy none must leave the alignment unchanged; "
         "every corrected splice site is the read's own or annotated. This is the bounded stand-in for the assumed contract of "
         "correct_misalignments")
def c14_e2e(tier, rng):
    n = 1500 if tier == "quick" else 60000
    base = rng.randrange(10 ** 9)
    done = 0
    kinds = {}
    for k in range(n):
        try:
            desc, p = _e2e_case(base + k)
        except Exception as e:
            desc, p = {"seed": base + k}, ["exception %s: %s" % (type(e).__name__, e)]
        if desc is None:
            continue
        done += 1
        kinds[desc.get("kind")] = kinds.get(desc.get("kind"), 0) + 1
        if p:
            return {"cases": done, "bound": "%d derived reads" % n, "violations": [{
                "obligation": "C14.corrected_end_to_end", "inputs": {"seed": base + k}, "observed": [str(desc)] + p[:3],
                "required": "valid corrected alignment", "replay_call": "contracts.c_correction:replay_e2e"}]}
    return {"cases": done, "bound": "%d derived reads x 6 strategies (sampled)" % n, "violations": [], "nontrivial": len(kinds),
            "samples": [{"seed": base, "kinds": kinds}]}


# ---- which events reach process_events: the micro-intron switch guards the negative keys -----------------------------------------------------
def _event_map_extract(fdef):
    """correct_misalignments: the construction of event_map from the matched isoform's events, returning the map; the events are taken as a
    parameter (`events` = read_assignment.isoform_matches[0].match_subclassifications); the profile look-ups and the call of process_events
    that follow are dropped"""
    import copy
    init = next((n for n in fdef.body if isinstance(n, ast.Assign) and ast.unparse(n.targets[0]) == "event_map"), None)
    loop = next((n for n in fdef.body if isinstance(n, ast.For) and "match_subclassifications" in ast.unparse(n.iter)), None)
    if init is None or loop is None:
        raise front.Missing("event_map construction not found in correct_misalignments")
    loop = copy.deepcopy(loop)
    loop.iter = ast.Name(id="events", ctx=ast.Load())
    args = ast.arguments(posonlyargs=[], args=[ast.arg(arg=a) for a in ("self", "events")], kwonlyargs=[], kw_defaults=[], defaults=[])
    return ast.fix_missing_locations(ast.FunctionDef(name="correct_misalignments", args=args,
                                                     body=[copy.deepcopy(init), loop, ast.Return(value=ast.Name(id="event_map", ctx=ast.Load()))],
                                                     decorator_list=[], lineno=fdef.lineno, col_offset=0))


def _gen_event_lists(rng, n):
    ia = native.repo_import("src/isoform_assignment.py")
    K = ia.SupplementaryMatchConstants
    names = ["fake_micro_intron_retention", "intron_shift", "fake_terminal_exon_left", "exon_skipping_known", "fsm", "intron_retention"]
    for _ in range(n):
        evs = []
        for _e in range(rng.randint(0, 4)):
            t = rng.choice(names)
            rr = rng.choice([K.undefined_region, (K.absent_position, rng.randint(0, 3)), (rng.randint(0, 3),) * 2])
            evs.append({"__rec__": "MatchEventR", "event_type": ("enum", "MatchEventSubtype", t), "isoform_region": (0, 0), "read_region": tuple(rr), "event_info": 0})
        flags = {f: rng.random() < .5 for f in ("correct_fuzzy_junctions", "correct_intron_shifts", "correct_skipped_exons", "correct_terminal_exons",
                                                 "correct_fake_terminal_exons", "correct_microintron_retention")}
        yield {"self": {"__rec__": "ExonCorrector", "params": dict({"__rec__": "CorrParams", "delta": 6}, **flags), "delta": 6, "chr_record": None},
               "events": evs}


contract(E + "ExonCorrector.correct_misalignments#event_map", {"self": "rec:ExonCorrector", "events": "list[rec:MatchEventR]"},
         returns=EVMAP, props=["C14"], extract=_event_map_extract, native=False, locals={"event_map": EVMAP},
         # a retained micro-intron (negative key) is handed to process_events only when its correction is switched on: this is the
         # precondition `all(k >= 0 for k in event_map)` of process_events under --splice_correction_strategy none
         ensures=["self.params.correct_microintron_retention or all(k >= 0 for k in result)",
                  "all(any(result[k] == events[j] for j in range(len(events))) for k in result)"],
         loops={0: {"inv": ["self.params.correct_microintron_retention or all(k >= 0 for k in event_map)",
                            "all(any(event_map[k] == events[j] for j in range(_k0)) for k in event_map)"]}},
         requires=["all(events[j].read_region[0] >= 0 and events[j].read_region[1] >= 0 for j in range(len(events)))"],
         gen=lambda rng, n: _gen_event_lists(rng, n), canary="len(result) == 0")


# ---- which alignment process_events is given: region and introns of the SAME (trimmed) read --------------------------------------------------
def _call_args_extract(fdef):
    """correct_misalignments: the statements that compute `read_region` and `read_introns` for the call of process_events, returning the pair;
    drops the event-map loop, the look-ups of the isoform's region / introns in gene_info and the call itself"""
    import copy
    keep = [copy.deepcopy(n) for n in fdef.body if isinstance(n, ast.Assign) and ast.unparse(n.targets[0]) in ("intron_profile", "read_introns", "read_region", "alignment")]
    names = {ast.unparse(n.targets[0]) for n in keep}
    if not {"read_introns", "read_region"} <= names:
        raise front.Missing("read_region / read_introns not found in correct_misalignments")
    ret = ast.Return(value=ast.Tuple(elts=[ast.Name(id="read_region", ctx=ast.Load()), ast.Name(id="read_introns", ctx=ast.Load())], ctx=ast.Load()))
    args = ast.arguments(posonlyargs=[], args=[ast.arg(arg=a) for a in ("self", "alignment_info")], kwonlyargs=[], kw_defaults=[], defaults=[])
    return ast.fix_missing_locations(ast.FunctionDef(name="correct_misalignments", args=args, body=keep + [ret], decorator_list=[],
                                                     lineno=fdef.lineno, col_offset=0))


record("PysamRecord", {"reference_start": "int", "reference_end": "int"})
record("ReadIntronProfile", {"read_features": IVS})
record("CombinedProfileE", {"read_intron_profile": "rec:ReadIntronProfile"})
record("AlignmentInfoFull", {"read_exons": IVS, "read_start": "int", "read_end": "int", "combined_profile": "rec:CombinedProfileE",
                             "alignment": "rec:PysamRecord"})

contract(E + "ExonCorrector.correct_misalignments#call_args", {"self": "rec:ExonCorrector", "alignment_info": "rec:AlignmentInfoFull"},
         returns="tuple[tuple[int,int],list[tuple[int,int]]]", props=["C14"], extract=_call_args_extract, native=False,
         locals={"read_introns": IVS},
         # invariant of AlignmentInfo (set in __init__ and re-established by add_polya_info after trimming): start / end are those of the exon
         # list, and the profile was built from that exon list; the raw pysam record may be LONGER (trimmed polyA / polyT blocks)
         requires=["len(alignment_info.read_exons) >= 1", "alignment_info.read_start == alignment_info.read_exons[0][0]",
                   "alignment_info.read_end == alignment_info.read_exons[len(alignment_info.read_exons) - 1][1]",
                   "alignment_info.alignment.reference_start + 1 <= alignment_info.read_start",
                   "alignment_info.read_end <= alignment_info.alignment.reference_end"],
         # the region handed to process_events is the span of the exon list whose introns are handed to it
         ensures=["result[0] == (alignment_info.read_exons[0][0], alignment_info.read_exons[len(alignment_info.read_exons) - 1][1])",
                  "result[1] == alignment_info.combined_profile.read_intron_profile.read_features"],
         canary="result[0][0] == alignment_info.alignment.reference_start + 1")


# ---- short-read based correction (IlluminaExonCorrector.correct_exons): the same sentences, on the real class ------------------------------------
def _illumina_case(seed):
    import random
    rng = random.Random(seed)
    iec = native.repo_import("src/illumina_exon_corrector.py")
    n = rng.randint(2, 4)
    p = rng.randint(500, 2000)
    exons = []
    for k in range(n):
        ln = rng.choice([4, 12, 16, 25, 40, 120, 300])
        exons.append((p, p + ln - 1))
        p += ln + rng.choice([200, 400, 1000])
    introns = [(exons[i][1] + 1, exons[i + 1][0] - 1) for i in range(n - 1)]
    short = set()
    for a, b in introns:
        r = rng.random()
        if r < .25:
            short.add((a, b))
        elif r < .5:
            short.add(rng.choice([(a, b + 4), (a - 4, b), (a + rng.randint(-6, 6), b + rng.randint(-6, 6))]))
        elif r < .85:
            # a skipped short exon: two short-read introns inside (or around) the read intron, outer sites within +-30 of the read's
            m = a + (b - a) // 2
            gap = rng.choice([10, 20, 30, 45, 60])
            short.add((a + rng.choice([0, 0, -5, 4, -20, 25, -30]), m - 1))
            short.add((m + gap, b + rng.choice([0, 0, 5, -4, 20, -25, 30])))
    for _ in range(rng.randint(0, 2)):
        x = rng.randint(400, 4000)
        short.add((x, x + rng.randint(50, 600)))
    short = {s for s in short if s[0] < s[1]}
    corrector = iec.IlluminaExonCorrector.from_data(short)
    import types
    got = corrector.correct_read(types.SimpleNamespace(read_exons=list(exons)))
    problems = []
    # a second read of the same region with the same introns and other ends, through correct_read of the SAME corrector object
    ex2 = list(exons)
    ex2[0] = (ex2[0][0] + rng.randint(1, 3), ex2[0][1]) if ex2[0][1] - ex2[0][0] >= 3 else ex2[0]
    ex2[-1] = (ex2[-1][0], ex2[-1][1] + rng.randint(1, 40))
    got2 = corrector.correct_read(types.SimpleNamespace(read_exons=list(ex2)))
    if got2 and (got2[0][0], got2[-1][1]) != (ex2[0][0], ex2[-1][1]):
        problems.append("second read of the region %s: start / end moved to %s" % (ex2, (got2[0][0], got2[-1][1])))
    if not got or any(a > b or a < 1 for a, b in got):
        problems.append("block with end before start: %s" % (got,))
    elif any(got[i][1] >= got[i + 1][0] for i in range(len(got) - 1)):
        problems.append("blocks overlap / not ascending: %s" % (got,))
    else:
        if (got[0][0], got[-1][1]) != (exons[0][0], exons[-1][1]):
            problems.append("start / end moved from %s to %s (this corrector has no terminal-exon correction)" % ((exons[0][0], exons[-1][1]), (got[0][0], got[-1][1])))
        own = {x for a, b in introns for x in (a, b)}
        sr = {x for a, b in short for x in (a, b)}
        for i in range(len(got) - 1):
            for site in (got[i][1] + 1, got[i + 1][0] - 1):
                if site not in own and site not in sr:
                    problems.append("splice site %d is neither the read's nor a short-read junction site" % site)
    return problems, {"exons": exons, "short_introns": sorted(short), "corrected": got}


def replay_illumina(d):
    p, desc = _illumina_case(d["inputs"]["seed"])
    return (not p), "seed %s %s: %s" % (d["inputs"]["seed"], desc, p[:3] or "valid, ends kept, sites accounted for")


@bounded("C14.illumina_corrector", ["C14"], shards=4, note="the real IlluminaExonCorrector.correct_exons on reads of 2-4 exons (incl. exons of 4-25 bp) and "
         "short-read introns equal to / 4 bp off / near the read's introns, pairs that flank a skipped short exon (outer sites up to 30 bp "
         "from the read's, also beyond the read's own ends) and unrelated ones: blocks ascending and non-overlapping, start and end kept, "
         "every splice site the read's own or a short-read junction site")
def c14_illumina(tier, rng):
    n = 3000 if tier == "quick" else 100000
    base = rng.randrange(10 ** 9)
    for k in range(n):
        try:
            p, desc = _illumina_case(base + k)
        except Exception as e:
            p, desc = ["exception %s: %s" % (type(e).__name__, e)], {}
        if p:
            return {"cases": k + 1, "bound": "%d reads" % n, "violations": [{
                "obligation": "C14.illumina_corrector", "inputs": {"seed": base + k}, "observed": p[:3] + [str(desc)], "required": "the sentences of C14",
                "replay_call": "contracts.c_correction:replay_illumina"}]}
    return {"cases": n, "bound": "%d random reads with short-read introns" % n, "violations": [], "samples": [{"seed": base}]}


# ---- which corrector reads of unannotated loci get: none at all under strategy none, and without short reads ---------------------------------------------
@finite("C14.corrector_choice", ["C14"], note="the condition under which AlignmentCollector.process_intergenic builds an IlluminaExonCorrector (extracted from "
        "the source on every run: the test of the `if` whose body assigns `corrector = IlluminaExonCorrector(...)`), evaluated for every "
        "splice correction strategy x short reads given / not given: it holds exactly when short reads are given and the strategy is not none")
def c14_corrector_choice(tier, rng):
    import types
    tree = ast.parse(open(front.REPO + "/src/alignment_processor.py").read())
    cls = [n for n in tree.body if isinstance(n, ast.ClassDef) and n.name == "AlignmentCollector"][0]
    fn = [n for n in cls.body if isinstance(n, ast.FunctionDef) and n.name == "process_intergenic"][0]
    ifs = [n for n in ast.walk(fn) if isinstance(n, ast.If) and any(isinstance(b, ast.Assign) and isinstance(b.value, ast.Call) and
                                                                     ast.unparse(b.value.func) == "IlluminaExonCorrector" for b in n.body)]
    if len(ifs) != 1:
        raise front.Missing("the choice of the short-read corrector was not found in process_intergenic")
    code = compile(ast.Expression(ifs[0].test), "<corrector choice>", "eval")
    obl = dis = 0
    viol = []
    for strategy in ("none", "default_pacbio", "sensitive_pacbio", "default_ont", "sensitive_ont", "all", "assembly", "conservative_ont"):
        for bam in (None, "short.bam"):
            obl += 1
            self_ = types.SimpleNamespace(illumina_bam=bam, params=types.SimpleNamespace(splice_correction_strategy=strategy))
            try:
                got = bool(eval(code, {"self": self_, "getattr": getattr}))
            except Exception as e:
                got = "%s: %s" % (type(e).__name__, e)
            want = bam is not None and strategy != "none"
            if got == want:
                dis += 1
            else:
                viol.append({"obligation": "C14.corrector_choice.%s.%s" % (strategy, "short_reads" if bam else "no_short_reads"),
                             "inputs": {"splice_correction_strategy": strategy, "illumina_bam": bam},
                             "observed": "%s -> %s" % (ast.unparse(ifs[0].test), got), "required": want})
    return {"obligations": obl, "discharged": dis, "violations": viol[:4], "cases": obl, "exhaustive": True,
            "bound": "8 strategies x short reads given / not given", "samples": [{"splice_correction_strategy": "none", "illumina_bam": "short.bam", "want": False}]}
